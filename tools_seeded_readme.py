#!/usr/bin/env python3
"""Regenerates /verif/seeded/README.md from the meta.json files."""
import json, glob, os
rows = []
for f in sorted(glob.glob('/verif/seeded/*/meta.json')):
    m = json.load(open(f))
    rows.append(m)
out = ["# Seeded property-breaking changes",
       "",
       "Each directory holds a change to avl/savefile written by an independent sub-agent that was given",
       "only the text of one property and a scratch worktree of /repo (nothing from /verif): `patch.diff`,",
       "the agent's demonstration (`demo/`, fails with the change, passes without) and `meta.json`.",
       "Every change compiles and passes the repository's 219 tests; the coordinator re-ran suite and",
       "demonstration in the scratch worktree (`tools_seeded_confirm.sh`) and then applied the patch to",
       "/repo, ran the checks (`tools_seeded_run.sh`) and restored /repo. None of these changes is",
       "committed to /repo.",
       "",
       "| Id | Change | Needs | Checks |",
       "|----|--------|-------|--------|"]
def cell(s): return str(s).replace("|", "\\|").replace("\n", " ")
for m in rows:
    out.append(f"| {m['id']} | {cell(m.get('summary',''))[:400]} | {cell(m.get('needs',''))[:300]} | {cell(m.get('checks',''))}{' **Strengthened:** ' + cell(m['strengthened']) if m.get('strengthened') else ''} |")
missed_initially = [m['id'] for m in rows if 'MISSED' in m.get('checks','')]
still = [m['id'] for m in rows if m.get('checks','').startswith('MISSED')]
out += ["", f"{len(rows)} changes; {len(rows)-len(missed_initially)} were caught by the checks as first built, "
        f"{len(missed_initially)-len(still)} were missed at first and are caught after the strengthening described in their row, "
        f"{len(still)} are not caught yet ({', '.join(still) or 'none'})."]
open('/verif/seeded/README.md', 'w').write("\n".join(out) + "\n")
print(out[-1])
