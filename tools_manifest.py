#!/usr/bin/env python3
"""Regenerates MANIFEST.json from the table below (kept in one place so it is always valid)."""
import json, subprocess
CHECKS = {
 "C01": ("vseq", "model_checking", "explicit-state enumeration of (type definition x version x value x container x bulk context) on the real derive output, compared with a reference model",
         "Every generated and catalogue type is saved and loaded in all five containers and ten bulk contexts; load(save(x)) must equal x and consume exactly the bytes written. Exhaustive over the stated families (DESIGN §4), which is the dimension unit tests never vary.", "§5 C01"),
 "C02": ("vseq", "model_checking", "explicit-state enumeration against an independent reference encoder/decoder of the documented wire format",
         "Implementation bytes (header, schema extent, payload, bzip2 and AES-GCM containers decoded by independent code) must equal the reference encoder's bytes for every enumerated state, and the implementation must read the reference bytes.", "§5 C02"),
 "C04": ("vseq", "model_checking", "explicit-state enumeration of type definitions over size/alignment/repr classes; packed=yes implies memory image == field-wise reference bytes",
         "Bulk containers must produce the field-by-field reference bytes and load them; whenever a type answers packed at a version, size_of and the raw memory image must equal the reference encoding of every enumerated value.", "§5 C04"),
 "C12": ("vseq", "model_checking", "explicit-state enumeration; a generic reader driven only by the real Schema parses the real bytes",
         "For every enumerated (type, version, value) the schema-driven reader must consume the serialized bytes exactly and produce the token structure of the value.", "§5 C12"),
}
CHECKS.update({
 "C03": ("vseq", "model_checking", "breadth-first search over the history tree of schema-evolution edits; every (ancestor, node, value) load compared with the step-wise upgrade model",
         "Every node of the edit tree (depth 2 quick / 3 thorough) loads data saved by every ancestor definition, with and without schema and inside a Vec; the result must equal the documented meaning of each edit applied step by step.", "§5 C03"),
 "C18": ("vseq", "model_checking", "breadth-first search over the history tree; every (node, ancestor, value) old-version write compared with the downgrade model and read back by the older definition",
         "Every node writes every representable value at every ancestor version; the bytes must equal the older definition's reference encoding (single and Vec) and the older definition must read the downgraded value; packed=yes at an old version is checked against the memory image by the shared sweep.", "§5 C18"),
})
CHECKS.update({
 "C05": ("vseq", "model_checking", "exhaustive enumeration of all ordered pairs (saved type, loaded type) and of all single-byte header replacements against a three-valued wire-grammar oracle",
         "Every ordered pair of enumerated types is saved as one and loaded as the other with schema checking: pairs whose wire grammars differ must fail with a schema error before the payload is interpreted, pairs with identical schema-shaped grammars must load the value, the rest makes no claim; every header byte x 255 replacement values must be rejected before any payload byte is read when magic/lib version/data version are wrong.", "§5 C05"),
})
TODO = {}
props = [json.loads(l)["id"] for l in open("/verif/properties.jsonl")]
checks = []
for pid in props:
    if pid not in CHECKS: continue
    eng, cat, tech, text, ref = CHECKS[pid]
    checks.append({
        "property_id": pid,
        "quick_cmd": f"./check {pid} --tier quick",
        "thorough_cmd": f"./check {pid} --tier thorough",
        "evidence_file": f"/verif/evidence/{pid}.json",
        "replay_cmd_template": f"./check {pid} --replay {{path}}",
        "engine": eng,
        "level_claimed": {"category": cat, "text": text, "design_ref": f"DESIGN.md {ref}"},
        "level_note": "Trusted base: the reference model in engine/model (bound to the code on every state), rustc, the enumerated families and bounds stated in DESIGN.md §4 and in the evidence file.",
        "technique": tech,
    })
na = [{"property_id": p, "reason": TODO.get(p, "check not built yet in this revision (see DESIGN.md Appendix D for the build order); not claimed")} for p in props if p not in CHECKS]
hooks_commits = []
m = {
 "version": 1,
 "setup_cmd": "./setup.sh",
 "hooks": {
   "guard": "--cfg avl_savefile_verif",
   "enable": "engine/.cargo/config.toml sets rustflags = [\"--cfg\", \"avl_savefile_verif\"] for every build of /repo made by the checks",
   "baseline_off_cmd": "cd /repo && cargo nextest run --workspace --no-fail-fast --offline",
   "source_commits": hooks_commits,
   "add_only": True,
 },
 "engines": [
   {"name": "vseq", "path": "engine/seq", "serves_properties": [p for p in props if p in CHECKS and CHECKS[p][0]=="vseq"], "kind_free_text": "sequential explicit-state enumeration on the real code against the reference model; child-process isolation with crash attribution"},
 ],
 "checks": checks,
 "not_applicable": na,
 "notes": "All checks rebuild from /repo's working tree through path dependencies. known_findings.json lists recorded and fixed defects.",
}
json.dump(m, open("/verif/MANIFEST.json", "w"), indent=1)
print("wrote MANIFEST.json with", len(checks), "checks,", len(na), "not claimed")
