#!/usr/bin/env python3
"""Regenerates MANIFEST.json from the table below (kept in one place so it is always valid)."""
import json, subprocess
CHECKS = {
 "C01": ("vseq", "model_checking", "explicit-state enumeration of (type definition x version x value x container x bulk context) on the real derive output, compared with a reference model",
         "Every generated and catalogue type is saved and loaded in all five containers and ten bulk contexts; load(save(x)) must equal x and consume exactly the bytes written. Exhaustive over the stated families (DESIGN §4), which is the dimension unit tests never vary.", "§5 C01"),
 "C02": ("vseq", "model_checking", "explicit-state enumeration against an independent reference encoder/decoder of the documented wire format",
         "Implementation bytes (header, schema extent, payload, bzip2 and AES-GCM containers decoded by independent code) must equal the reference encoder's bytes for every enumerated state, and the implementation must read the reference bytes.", "§5 C02"),
 "C04": ("vseq", "model_checking", "explicit-state enumeration of type definitions over size/alignment/repr classes; packed=yes implies memory image == field-wise reference bytes",
         "Bulk containers must produce the field-by-field reference bytes and load them; whenever a type answers packed at a version, size_of and the raw memory image must equal the reference encoding of every enumerated value.", "§5 C04"),
 "C12": ("vseq", "model_checking", "explicit-state enumeration; a generic reader driven only by the real Schema parses the real bytes",
         "For every enumerated (type, version, value) the schema-driven reader must consume the serialized bytes exactly and produce the token structure of the value.", "§5 C12"),
}
CHECKS.update({
 "C03": ("vseq", "model_checking", "breadth-first search over the history tree of schema-evolution edits; every (ancestor, node, value) load compared with the step-wise upgrade model",
         "Every node of the edit tree (depth 2 quick / 3 thorough) loads data saved by every ancestor definition, with and without schema and inside a Vec; the result must equal the documented meaning of each edit applied step by step.", "§5 C03"),
 "C18": ("vseq", "model_checking", "breadth-first search over the history tree; every (node, ancestor, value) old-version write compared with the downgrade model and read back by the older definition",
         "Every node writes every representable value at every ancestor version; the bytes must equal the older definition's reference encoding (single and Vec) and the older definition must read the downgraded value; packed=yes at an old version is checked against the memory image by the shared sweep.", "§5 C18"),
})
CHECKS.update({
 "C05": ("vseq", "model_checking", "exhaustive enumeration of all ordered pairs (saved type, loaded type) and of all single-byte header replacements against a three-valued wire-grammar oracle",
         "Every ordered pair of enumerated types is saved as one and loaded as the other with schema checking: pairs whose wire grammars differ must fail with a schema error before the payload is interpreted, pairs with identical schema-shaped grammars must load the value, the rest makes no claim; every header byte x 255 replacement values must be rejected before any payload byte is read when magic/lib version/data version are wrong.", "§5 C05"),
})
CHECKS.update({
 "C07": ("vseq", "fault_enumeration", "exhaustive enumeration of every cut offset of saved files in four containers, in-memory and file API",
         "Every strict prefix of every saved file (about 200 (type, value) cases x 4 containers, file API for 7 types, multi-block compressed/encrypted payloads with a stated subset of offsets) must load as an error or as the original value; never another value, never a panic.", "§5 C07"),
 "C08": ("vseq", "fault_enumeration", "deviation-bounded enumeration of environment answers of instrumented Read/Write streams (every call index x {short, Interrupted, 3 hard errors persistent and transient, Ok(0)}; files of the newest and of every older data version; 1 deviation quick, 2 thorough) plus chunk schedules",
         "Benign deviations and chunkings must give identical bytes / values; hard faults must surface as Err with the accepted bytes a prefix of the fault-free output; no panic (including Drop), no hang (call budget and watchdog).", "§5 C08"),
 "C13": ("vschema", "model_checking", "exhaustive enumeration of schema trees (depth 2 quick / 3 thorough) and of all single wire-altering mutations, against an independent schema codec for formats 0/1/2",
         "Every enumerated schema tree must persist exactly at formats 1 and 2 (real bytes == model bytes), format-0 bytes must decode to the tree minus layout, diff_schema must be reflexive and must report every single wire-altering mutation in both argument orders.", "§5 C13"),
 "C14": ("vseq", "fault_enumeration", "exhaustive enumeration of single-byte replacements (all 255 values on small files), truncations and the edit-distance-1 password neighbourhood of encrypted files",
         "Every modified or truncated encrypted file and every other password must yield Err: never a value, never a panic; in-memory CryptoReader and load_encrypted_file.", "§5 C14"),
 "C15": ("vabi15", "model_checking", "breadth-first search over sequences of ledger runs across a generated revision graph (5 interface kinds x ~20 edits), against a reference ledger model",
         "Every run sequence up to depth 3 (quick) / to the fixpoint (thorough) is executed on the real verify_compatiblity in a fresh directory; Ok/Err/no-panic and the resulting file set must match the model built from the edit labels.", "§5 C15"),
 "C16": ("vconc", "model_checking", "stateless exploration of all schedules of closed 2-3 thread harnesses up to a preemption bound (iterative context bounding) under shuttle with a custom DFS scheduler, lock operations of the real code hooked",
         "All schedules with at most 2 (quick) / 3..unbounded (thorough) preemptions of 15 scenarios on the real savefile-abi caches: no deadlock, livelock, panic or lock leak, results equal to every sequential order, caches consistent afterwards.", "§5 C16"),
})
CHECKS.update({
 "C09": ("vabi09", "model_checking", "exhaustive enumeration of a generated interface family (argument kinds x return kinds x values x buffer-straddling sizes x panic payloads x future schedules); direct-call log compared with ABI-call log",
         "Every method of the generated family is driven directly and through an AbiConnection for every enumerated state; observed arguments, callbacks, returned values, drop traces (exactly once), panic propagation and connection reuse must agree.", "§5 C09"),
})
CHECKS.update({
 "C06": ("vseq", "fault_enumeration", "complete enumeration of stated mutation sets of valid encodings (every byte x replacement values, every length field x boundary lengths, every tag x all values, every truncation, every structural single mutation of the schema tree) and of all byte strings of length <= 2, in crash-isolated child processes",
         "Every mutated input is loaded through bare_deserialize / load_noschema / load and through the bulk containers; outcome must be Ok or Err, no panic except allocation failures on absurd declared lengths, loaded values are inspected through raw memory for invalid bool/char/enum tags and for collections larger than the input could encode.", "§5 C06"),
 "C10": ("vabi10", "model_checking", "breadth-first history tree of ABI-usable edits; all ordered (caller version, implementation version) pairs x methods x values on the real AbiConnection against a down/up reference model",
         "For every ordered pair of definitions on a history path: negotiated version == min, the implementation observes up_j(down_min(x)), the caller receives up_i(down_min(r)), missing methods panic at call time, breaking signatures are refused at connect.", "§5 C10"),
 "C11": ("vabi10", "model_checking", "exhaustive enumeration of all ordered pairs of a generated POD definition family and of all single layout mutations; measured layouts vs layout_compatible; in-process calls; randomized-layout nightly plugins (thorough)",
         "layout_compatible == true must imply identical measured layouts (size, align, offsets, memory tags) and identical observed values; every single layout mutation must be detected; by-reference passing in real calls must only be chosen for identical layouts.", "§5 C11"),
 "C17": ("vintro", "model_checking", "exhaustive walk of every introspection node of every enumerated value, and breadth-first search over Introspector command sequences (depth 3 quick / 5 thorough)",
         "introspect_len must equal the number of consecutive children and nothing beyond; no navigator command sequence may panic; total_index(i) is defined exactly below total_len.", "§5 C17"),
})
TODO = {}
props = [json.loads(l)["id"] for l in open("/verif/properties.jsonl")]
checks = []
for pid in props:
    if pid not in CHECKS: continue
    eng, cat, tech, text, ref = CHECKS[pid]
    checks.append({
        "property_id": pid,
        "quick_cmd": f"./check {pid} --tier quick",
        "thorough_cmd": f"./check {pid} --tier thorough",
        "evidence_file": f"/verif/evidence/{pid}.json",
        "replay_cmd_template": f"./check {pid} --replay {{path}}",
        "engine": eng,
        "level_claimed": {"category": cat, "text": text, "design_ref": f"DESIGN.md {ref}"},
        "level_note": "Trusted base: the reference model in engine/model (bound to the code on every state), rustc, the enumerated families and bounds stated in DESIGN.md §4 and in the evidence file.",
        "technique": tech,
    })
na = [{"property_id": p, "reason": TODO.get(p, "check not built yet in this revision (see DESIGN.md Appendix D for the build order); not claimed")} for p in props if p not in CHECKS]
hooks_commits = ["55dc259"]
m = {
 "version": 1,
 "setup_cmd": "./setup.sh",
 "hooks": {
   "guard": "--cfg avl_savefile_verif",
   "enable": "engine/.cargo/config.toml sets rustflags = [\"--cfg\", \"avl_savefile_verif\"] for every build of /repo made by the checks",
   "baseline_off_cmd": "cd /repo && cargo nextest run --workspace --no-fail-fast --offline",
   "source_commits": hooks_commits,
   "add_only": True,
 },
 "engines": [
   {"name": "vseq", "path": "engine/seq", "serves_properties": [p for p in props if p in CHECKS and CHECKS[p][0]=="vseq"], "kind_free_text": "sequential explicit-state / fault enumeration on the real code against the reference model; child-process isolation with crash attribution"},
   {"name": "vabi09", "path": "engine/abi_call", "serves_properties": ["C09"], "kind_free_text": "generated interface family, direct vs ABI call log comparison, child-process workers"},
   {"name": "vabi10", "path": "engine/abi_ver", "serves_properties": ["C10", "C11"], "kind_free_text": "generated history/POD families, cross-version connections, measured layouts, nightly randomized-layout plugins"},
   {"name": "vintro", "path": "engine/intro", "serves_properties": ["C17"], "kind_free_text": "introspection tree walk + navigator BFS"},
   {"name": "vschema", "path": "engine/schema13", "serves_properties": ["C13"], "kind_free_text": "schema tree enumeration against the independent schema codec"},
   {"name": "vabi15", "path": "engine/abi_ledger", "serves_properties": ["C15"], "kind_free_text": "BFS over ledger run sequences"},
   {"name": "vconc", "path": "engine/conc", "serves_properties": ["C16"], "kind_free_text": "shuttle-based preemption-bounded schedule enumeration of the real savefile-abi lock operations"},
 ],
 "checks": checks,
 "not_applicable": na,
 "notes": "All checks rebuild from /repo's working tree through path dependencies. known_findings.json lists recorded and fixed defects.",
}
json.dump(m, open("/verif/MANIFEST.json", "w"), indent=1)
print("wrote MANIFEST.json with", len(checks), "checks,", len(na), "not claimed")
