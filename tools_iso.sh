#!/bin/bash
# tools_iso.sh make <name>          : private copy of /repo (git worktree at HEAD) and of /verif (no build
#                                     output) under /tmp/iso-<name>/, with the engines' path dependencies
#                                     pointing at the private repository copy
# tools_iso.sh back <name> <crate>  : copy engine/<crate> of the private copy back into /verif (paths restored)
# tools_iso.sh drop <name>          : remove the private copies
set -e
N="$2"; D=/tmp/iso-$N
case "$1" in
  make)
    mkdir -p $D
    git -C /repo worktree add -q --detach $D/repo HEAD
    rsync -a --exclude target --exclude 'target-*' --exclude .work --exclude .git --exclude replays /verif/ $D/verif/
    mkdir -p $D/verif/.work
    grep -rl '"/repo/' --include=Cargo.toml $D/verif/engine | xargs sed -i "s#\"/repo/#\"$D/repo/#g"
    echo "$D ready";;
  back)
    C="$3"
    rsync -a --delete --exclude target $D/verif/engine/$C/ /verif/engine/$C/
    grep -rl "\"$D/repo/" --include=Cargo.toml /verif/engine/$C | xargs -r sed -i "s#\"$D/repo/#\"/repo/#g"
    for f in $D/verif/known_findings.d/*.json; do cmp -s $f /verif/known_findings.d/$(basename $f) || cp $f /verif/known_findings.d/; done
    echo "copied back $C";;
  drop)
    git -C /repo worktree remove --force $D/repo || true
    rm -rf $D;;
esac
