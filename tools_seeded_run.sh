#!/bin/bash
# tools_seeded_run.sh <patch.diff> <check> [<check> ...]
# Applies the patch to /repo, runs the given checks, restores /repo. Prints one line per check.
P="$1"; shift
cd /repo && git diff --quiet || { echo "/repo is dirty"; exit 2; }
git apply "$P" || { echo "patch does not apply to /repo"; exit 2; }
cd "${VERIF_HOME:-/verif}"
for c in "$@"; do
  out=$(./check "$c" 2>&1); rc=$?
  first=$(echo "$out" | grep -m1 -A1 "^VIOLATION" | tail -1 | cut -c1-260)
  echo "$c exit=$rc $(echo "$out" | grep -E '^(OK|FAILED|MACHINERY)' | cut -c1-80) $first"
done
git -C /repo checkout -q -- .
