//! vgen: writes the generated shard sources (git-ignored) from the model's families.
//! Usage: vgen <engine-dir>
use std::path::PathBuf;
use vmodel::emit::{emit_module, PRELUDE_USES};
use vmodel::{families, shard_of, Ty, SHARDS};

fn write_if_changed(p: &PathBuf, content: &str) -> bool {
    if let Ok(old) = std::fs::read_to_string(p) {
        if old == content {
            return false;
        }
    }
    std::fs::create_dir_all(p.parent().unwrap()).unwrap();
    std::fs::write(p, content).unwrap();
    true
}

fn main() {
    let root = PathBuf::from(std::env::args().nth(1).expect("usage: vgen <engine-dir>"));
    let fams: Vec<(&str, Vec<Ty>)> = families::all_families();
    let mut written = 0;
    for (name, tys) in &fams {
        for s in 0..SHARDS {
            let mine: Vec<(usize, Ty)> = tys
                .iter()
                .enumerate()
                .filter(|(i, _)| shard_of(*i) == s)
                .map(|(i, t)| (i, t.clone()))
                .collect();
            let src = format!("{}\n{}", PRELUDE_USES, emit_module(&mine, "registry"));
            let p = root.join(format!("shards/shard{:02}/gen/{}.rs", s, name));
            if write_if_changed(&p, &src) {
                written += 1;
            }
        }
        println!("family {:<16} {:>5} types", name, tys.len());
    }
    println!("vgen: {} files updated", written);
}
