//! C10, object family: every ordered pair (caller revision, implementation revision) of every kind
//! of `vabi10fam::ospec` - revisions that differ only in the auto-trait bounds / the method set of
//! a nested trait object, closure or future in argument or return position - is connected on the
//! real savefile-abi code (`AbiConnection::from_raw`, the entry point of a separately declared
//! implementation) and compared with the reference model `ospec::verdict`:
//!   connection refused  <=>  the model says the pair is an incompatible signature change,
//! and on every accepted connection every use of the nested object the relier can express is
//! executed and compared with the model (values, who was invoked in which order, panics).
use crate::c10::{Outcome, Stats};
use std::collections::BTreeMap;
use vabi10ofam::ospec::{self, Fam, Kind, Pos, Rev, Verdict};
use vabi10ofam::support::{take_olog, ObjShim, RawImpl};
use vcommon::serde_json::{json, Value};
use vcommon::{Tier, Violation};

macro_rules! oshards {
    ($($k:literal => $c:ident),*) => {
        fn shard_make_impl(shard: usize, kind: &str, rev: &str) -> Option<RawImpl> {
            match shard { $($k => $c::make_impl(kind, rev),)* _ => None }
        }
        fn shard_connect(shard: usize, kind: &str, rev: &str, i: RawImpl) -> Option<Result<Box<dyn ObjShim>, String>> {
            match shard { $($k => $c::connect(kind, rev, i),)* _ => None }
        }
        fn shard_latest(shard: usize, kind: &str, rev: &str) -> Option<u32> {
            match shard { $($k => $c::latest_version(kind, rev),)* _ => None }
        }
    };
}
oshards!(0 => vabi10o00, 1 => vabi10o01, 2 => vabi10o02, 3 => vabi10o03);

/// caller revision `c` of kind `k` connected to a fresh implementation object of revision `j`
fn connect(k: &Kind, c: &Rev, j: &Rev) -> Option<Result<Box<dyn ObjShim>, String>> {
    let shard = ospec::oshard_of(k.id)?;
    let imp = shard_make_impl(shard, k.id, &j.id())?;
    shard_connect(shard, k.id, &c.id(), imp)
}

/// binding of the model to the generated code: every (kind, revision) exists and reports its version
pub fn check_binding() {
    for k in ospec::KINDS {
        let shard = ospec::oshard_of(k.id).unwrap_or_else(|| vcommon::machinery_error(&format!("object kind {} has no shard", k.id)));
        for r in ospec::revs(k) {
            if shard_latest(shard, k.id, &r.id()) != Some(r.version) {
                vcommon::machinery_error(&format!("binding: generated interface {} reports version {:?}, the model says {}", ospec::module(k, &r), shard_latest(shard, k.id, &r.id()), r.version));
            }
        }
    }
}

/// (kind index, caller revision index, implementation revision index) for all ordered pairs
pub fn entries() -> Vec<(usize, usize, usize)> {
    let mut v = vec![];
    for (ki, k) in ospec::KINDS.iter().enumerate() {
        let n = ospec::revs(k).len();
        for c in 0..n {
            for j in 0..n {
                v.push((ki, c, j));
            }
        }
    }
    v
}

#[derive(Clone, Debug, PartialEq)]
pub struct OCase {
    /// "connect" or "call"
    pub step: &'static str,
    pub base: u32,
    pub x: u32,
    pub sel: u32,
}

/// the cases of a pair: the connection, then every use of the object the RELIER's definition can express
pub fn cases(tier: Tier, k: &Kind, c: &Rev, j: &Rev) -> Vec<OCase> {
    let (_, relier) = ospec::provider_relier(k, c, j);
    let bases: &[u32] = tier.pick(&[3u32][..], &[0u32, 3, 4_000_001][..]);
    let xs: &[u32] = tier.pick(&[7u32, 0xffff_fff0][..], &[0u32, 7, 0xffff_fff0][..]);
    let mut out = vec![OCase { step: "connect", base: 0, x: 0, sel: 0 }];
    for base in bases {
        for x in xs {
            if k.fam == Fam::Future && *x != xs[0] {
                continue; // a future takes no argument
            }
            out.push(OCase { step: "call", base: *base, x: *x, sel: 0 });
            if relier.more {
                out.push(OCase { step: "call", base: *base, x: *x, sel: 1 });
            }
        }
    }
    out
}

pub fn case_json(k: &Kind, c: &Rev, j: &Rev, case: &OCase) -> Value {
    json!({"kind": "object", "object_kind": k.id, "interface": k.what, "position": pos_name(k), "caller": c.id(), "caller_revision": c.describe(k.fam),
           "impl": j.id(), "impl_revision": j.describe(k.fam), "step": case.step, "base": case.base, "x": case.x, "sel": case.sel})
}

fn pos_name(k: &Kind) -> &'static str {
    match k.pos {
        Pos::Arg => "argument",
        Pos::Ret => "return",
        Pos::Top => "interface",
    }
}
fn fam_name(k: &Kind) -> &'static str {
    match k.fam {
        Fam::Trait => "trait",
        Fam::Closure => "closure",
        Fam::Future => "future",
        Fam::Interface => "interface",
    }
}
/// how the object is held in the signature
fn carrier(k: &Kind) -> &'static str {
    if k.fam == Fam::Interface {
        "connection"
    } else if k.wrapped {
        "result_box"
    } else if k.ty.starts_with('&') {
        "reference"
    } else if k.ty.starts_with("Pin<") {
        "pin_box"
    } else {
        "box"
    }
}
fn direction(c: &Rev, j: &Rev) -> &'static str {
    if c.version > j.version {
        "caller_newer"
    } else if c.version < j.version {
        "impl_newer"
    } else {
        "same_version"
    }
}
fn verdict_name(v: &Verdict) -> &'static str {
    match v {
        Verdict::Compatible => "compatible",
        Verdict::MustRefuse(_) => "must_refuse",
        Verdict::MissingMethod(_) => "missing_method",
    }
}

/// structural features of a pair (known-findings predicates are matched on these)
pub fn tags(k: &Kind, c: &Rev, j: &Rev) -> BTreeMap<String, String> {
    let mb = ospec::missing_bounds(k, c, j);
    vcommon::tags(&[
        ("family", "objects".to_string()),
        ("kind", k.id.to_string()),
        ("position", pos_name(k).to_string()),
        ("object", fam_name(k).to_string()),
        ("carrier", carrier(k).to_string()),
        ("direction", direction(c, j).to_string()),
        // bounds the relier declares and the provider does not
        ("bounds_missing", if mb.is_empty() { "none".to_string() } else { mb.join(",") }),
        ("method_relation", ospec::method_relation(k, c, j).to_string()),
        ("model", verdict_name(&ospec::verdict(k, c, j)).to_string()),
    ])
}

fn summary(k: &Kind, c: &Rev, j: &Rev, detail: &str) -> String {
    format!("{} object in {} position [{}]: caller {{{}}} -> implementation {{{}}}: {}", fam_name(k), pos_name(k), k.what, c.describe(k.fam), j.describe(k.fam), detail)
}

/// Execute one case on the real code and judge it. The "connect" case creates the connection and
/// hands it back through `made`.
pub fn check_case(k: &Kind, c: &Rev, j: &Rev, shim: Option<&dyn ObjShim>, made: &mut Option<Box<dyn ObjShim>>, case: &OCase, st: &mut Stats) -> Outcome {
    let mut out = Outcome { violations: vec![], machinery: None, poisoned: false, no_connection: false };
    let verdict = ospec::verdict(k, c, j);
    let cj = case_json(k, c, j, case);
    let fail = |out: &mut Outcome, oracle: &str, outcome: &str, detail: String| {
        let mut t = tags(k, c, j);
        t.insert("outcome".into(), outcome.into());
        t.insert("step".into(), case.step.into());
        out.violations.push(Violation { oracle: oracle.to_string(), tags: t, summary: summary(k, c, j, &detail), case: cj.clone() });
    };
    let (provider, relier) = ospec::provider_relier(k, c, j);
    let roles = match k.pos {
        Pos::Arg => "the caller creates the object, the implementation uses it",
        Pos::Ret => "the implementation creates the object, the caller uses it",
        Pos::Top => "the implementation's side creates the implementing object, the caller holds it as AbiConnection<dyn Iface>",
    };
    let pos = pos_name(k);

    if case.step == "connect" {
        st.add("transitions", 1);
        st.add("evaluations", 1);
        st.add(&format!("obj.model.{}.{}", pos, verdict_name(&verdict)), 1);
        let res = vcommon::guarded(|| connect(k, c, j));
        match res {
            Err(p) => {
                st.add("oc.connect_panicked", 1);
                let oracle = if verdict == Verdict::Compatible { "nested_compatible_accepted" } else { "nested_incompatible_rejected" };
                fail(&mut out, oracle, "panic", format!("connection creation panicked instead of returning Ok / Err: {}", p));
                out.poisoned = true;
                out.no_connection = true;
            }
            Ok(None) => out.machinery = Some(format!("no generated module for {} {} -> {}", k.id, c.id(), j.id())),
            Ok(Some(Err(e))) => {
                out.no_connection = true;
                match &verdict {
                    Verdict::MustRefuse(_) => st.add("oc.nested_incompatible_bounds_refused", 1),
                    Verdict::MissingMethod(_) => {
                        st.add("oc.nested_missing_method_refused_at_connection", 1);
                        st.add(&format!("obj.missing_method.{}.refused_at_connection", pos), 1);
                    }
                    Verdict::Compatible => {
                        st.add("oc.nested_compatible_refused", 1);
                        fail(
                            &mut out,
                            "nested_compatible_accepted",
                            "err",
                            format!(
                                "connection creation returned Err although the pair is compatible ({}; bounds the user relies on {{{}}} are all promised by the creator's {{{}}}; the user's methods {{{}}} all exist in the creator's {{{}}}): {}",
                                roles,
                                relier.bounds().join(" + "),
                                provider.bounds().join(" + "),
                                relier.methods(k.fam).join(", "),
                                provider.methods(k.fam).join(", "),
                                e
                            ),
                        );
                    }
                }
            }
            Ok(Some(Ok(s))) => {
                st.add("evaluations", 1);
                let ev = s.effective_version();
                let m = c.version.min(j.version);
                if ev != m {
                    fail(&mut out, "negotiated_version", "connected", format!("negotiated version is {} but min({}, {}) = {}", ev, c.version, j.version, m));
                }
                match &verdict {
                    Verdict::MustRefuse(mb) => {
                        st.add("oc.nested_incompatible_bounds_accepted", 1);
                        fail(
                            &mut out,
                            "nested_incompatible_rejected",
                            "connected",
                            format!(
                                "connection creation succeeded although {}: the user's declaration requires {{{}}}, the creator's only promises {{{}}} - safe code of the user may now rely on {} for an object that is not",
                                roles,
                                relier.bounds().join(" + "),
                                provider.bounds().join(" + "),
                                mb.join(" + ")
                            ),
                        );
                        // the connection exists: its calls are exercised all the same
                    }
                    Verdict::MissingMethod(_) => {
                        st.add("oc.nested_missing_method_connected", 1);
                        st.add(&format!("obj.missing_method.{}.deferred_to_call_time", pos), 1);
                    }
                    Verdict::Compatible => st.add("oc.nested_compatible_connected", 1),
                }
                *made = Some(s);
            }
        }
        return out;
    }

    let Some(shim) = shim else {
        out.machinery = Some("object call case without a connection".into());
        return out;
    };
    let _ = take_olog();
    st.add("transitions", 2);
    st.add("evaluations", 1);
    st.add("validated", 1);
    let res = vcommon::guarded(|| shim.call(case.base, case.x, case.sel));
    let log = take_olog();
    if let Err(p) = &res {
        if p.contains("PoisonError") {
            out.machinery = Some(format!("a global lock of savefile-abi is poisoned in this worker: {}", p));
            return out;
        }
        if p.contains("harness:") {
            out.machinery = Some(format!("harness panic in the object family: {}", p));
            return out;
        }
    }
    let method_exists = case.sel == 0 || provider.more;
    if method_exists {
        let want = ospec::expected_result(k, case.base, case.x, case.sel);
        let want_log = ospec::expected_log(k, case.base, case.x, case.sel);
        match &res {
            Ok(r) if *r == want && log == want_log => st.add("oc.nested_call_as_modelled", 1),
            Ok(r) => {
                st.add("oc.nested_call_differs", 1);
                fail(&mut out, "nested_call", "value_mismatch", format!("use of the object (base {}, x {}, method #{}) returned {} with invocations {:?}; model: {} with {:?}", case.base, case.x, case.sel, r, log, want, want_log));
            }
            Err(p) => {
                st.add("oc.nested_call_panicked", 1);
                fail(&mut out, "nested_call", "caller_panic", format!("use of the object (base {}, x {}, method #{}) panicked after invocations {:?}: {}", case.base, case.x, case.sel, log, p));
            }
        }
    } else {
        // the relier invokes a method the provider's object lacks: a panic, and the object is not invoked
        let obj_invoked = log.iter().any(|e| e.0 == "obj");
        match &res {
            Err(msg) if !obj_invoked => {
                st.add("oc.nested_missing_method_panicked", 1);
                if msg.contains("more") {
                    st.add("obj.missing_method_panic_names_the_method", 1);
                }
            }
            Err(msg) => {
                st.add("oc.nested_missing_method_invoked_something", 1);
                fail(&mut out, "nested_missing_method", "invoked", format!("invoking a method the object lacks panicked, but the object was invoked (invocations {:?}): {}", log, msg));
            }
            Ok(r) => {
                st.add("oc.nested_missing_method_returned", 1);
                fail(&mut out, "nested_missing_method", "returned", format!("invoking a method the object lacks returned {} instead of panicking (invocations {:?})", r, log));
            }
        }
    }
    out
}
