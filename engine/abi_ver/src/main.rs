//! vabi10: engine for C10 and C11 (stub)
fn main() {
    vcommon::machinery_error("vabi10 not implemented yet");
}
