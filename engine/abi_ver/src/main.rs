//! vabi10: engine for C10 (ABI version tolerance) and C11 (by-reference argument passing only
//! between provably identical layouts).
//!
//! Process layout (both properties): the parent spawns worker processes
//! (`vcommon::child::run_workers`); a worker sweeps the entries `pos % n == k`. A worker that dies
//! is attributed to the state it was executing and restarted behind it. A worker that sees
//! connection creation panic abandons itself (the panic happens while savefile-abi holds a global
//! mutex, which stays poisoned) and is restarted behind that entry.
mod c10;
mod c10obj;
mod c11;
mod model10;
mod plugin;

use vcommon::{parse_args, Run};

/// `--replay`: the case runs in a child process, because a failing case may kill the process
fn replay_outer(property: &str, path: &std::path::Path) -> ! {
    let exe = std::env::current_exe().unwrap_or_else(|e| vcommon::machinery_error(&format!("current_exe: {}", e)));
    let status = std::process::Command::new(exe)
        .args([property, "--replay-inner"])
        .arg(path)
        .status()
        .unwrap_or_else(|e| vcommon::machinery_error(&format!("cannot spawn replay child: {}", e)));
    match status.code() {
        Some(c @ 0..=2) => std::process::exit(c),
        _ => {
            println!("REPLAY-FAIL oracle=process_abort the process executing the case died: {:?}", status);
            println!("replay: 1 violation(s) reproduced");
            std::process::exit(1)
        }
    }
}

fn main() {
    vcommon::quiet_panics();
    let args = parse_args();
    if args.property != "C10" && args.property != "C11" {
        vcommon::machinery_error(&format!("vabi10 does not serve property {}", args.property));
    }
    let c10 = args.property == "C10";
    if let Some(p) = &args.replay {
        replay_outer(&args.property, p);
    }
    if let Some(i) = args.extra.iter().position(|a| a == "--replay-inner") {
        let p = std::path::PathBuf::from(&args.extra[i + 1]);
        if c10 {
            c10::replay(&p)
        } else {
            c11::replay(&p)
        }
    }
    if let Some(i) = args.extra.iter().position(|a| a == "--plugin-child") {
        plugin::child(&args.extra[i + 1], args.extra[i + 2].parse().unwrap_or(0));
    }
    if let Some(i) = args.extra.iter().position(|a| a == "--child") {
        let k: usize = args.extra[i + 1].parse().unwrap();
        let n: usize = args.extra[i + 2].parse().unwrap();
        let num = |key: &str, d: i64| -> i64 { args.extra.iter().position(|a| a == key).map(|j| args.extra[j + 1].parse().unwrap()).unwrap_or(d) };
        let resume = (num("--resume-after", -1), num("--resume-sno", 0) as u64);
        if c10 {
            c10::child(args.tier, k, n, resume)
        } else {
            c11::child(args.tier, k, n, resume)
        }
    }
    let mut run = Run::new(&args, "model_checking");
    let (cov, assumptions) = if c10 { c10::parent(&mut run) } else { c11::parent(&mut run) };
    run.finish(cov, assumptions)
}
