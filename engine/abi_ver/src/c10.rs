//! C10 "ABI version tolerance": all ordered pairs (caller version i, implementation version j) on
//! every history path of the generated tree x all enumerated values x the methods of `Iface`,
//! executed on the real savefile-abi code and compared with the reference model of `model10`.
//! Methods with a callback (`with_cb`, `with_mut_cb`) check the NESTED connection too: what the
//! caller-side closure observes == up_i(down_min(p)) for the value p the implementation handed
//! to it, and what the implementation gets back == up_j(down_min(r)) for the closure's answer r.
use crate::c10obj as obj;
use crate::model10 as model;
use std::collections::{BTreeMap, HashSet};
use std::io::Write;
use vabi10ofam::ospec;
use vabi10fam::spec::{self, NVal, Node, Scalar};
use vabi10fam::support::{take_cb_log, take_log, CallerShim, Ret};
use vabi10ofam::support::ObjShim;
use vcommon::serde_json::{json, Map, Value};
use vcommon::{Run, Tier, Violation};

// ---------------------------------------------------------------------------------------------
// dispatch into the shard crates

macro_rules! shards {
    ($($k:literal => $c:ident),*) => {
        fn shard_connect(shard: usize, caller: &str, callee: &str) -> Option<Result<Box<dyn CallerShim>, String>> {
            match shard { $($k => $c::connect(caller, callee),)* _ => None }
        }
        fn shard_latest(shard: usize, node: &str) -> Option<u32> {
            match shard { $($k => $c::latest_version(node),)* _ => None }
        }
        fn shard_break(shard: usize, base: char, kind: &str, side: bool) -> Option<Result<u32, String>> {
            match shard { $($k => $c::break_connect(base, kind, side),)* _ => None }
        }
    };
}
shards!(0 => vabi10s00, 1 => vabi10s01, 2 => vabi10s02, 3 => vabi10s03, 4 => vabi10s04, 5 => vabi10s05, 6 => vabi10s06,
        7 => vabi10s07, 8 => vabi10s08, 9 => vabi10s09, 10 => vabi10s10, 11 => vabi10s11, 12 => vabi10s12, 13 => vabi10s13);

fn connect(caller: &str, callee: &str) -> Option<Result<Box<dyn CallerShim>, String>> {
    shard_connect(spec::shard_of(caller, callee)?, caller, callee)
}

// ---------------------------------------------------------------------------------------------
// work list

#[derive(Clone, Debug)]
pub enum Entry {
    /// caller node index, implementation node index (on a common path)
    Pair(usize, usize),
    /// base, kind of change, the changed definition is the caller
    Break(char, &'static str, bool),
    /// object family (`ospec`): kind index, caller revision index, implementation revision index
    Obj(usize, usize, usize),
}

pub struct Ctx {
    pub nodes: Vec<Node>,
    pub max_depth: u32,
    /// worker mode: report cross-version by-reference pairs to the parent
    pub report_pairs: bool,
    pub tier: Tier,
}
impl Ctx {
    pub fn new(tier: Tier) -> Ctx {
        Ctx { nodes: spec::tree(), max_depth: tier.pick(2, 3), report_pairs: false, tier }
    }
    pub fn entries(&self) -> Vec<Entry> {
        let mut v = vec![];
        for (c, cn) in self.nodes.iter().enumerate() {
            for (j, jn) in self.nodes.iter().enumerate() {
                if cn.depth <= self.max_depth && jn.depth <= self.max_depth && spec::on_same_path(cn, jn) {
                    v.push(Entry::Pair(c, j));
                }
            }
        }
        for (b, _) in spec::BASES {
            for (k, _) in spec::BREAKS {
                v.push(Entry::Break(*b, k, true));
                v.push(Entry::Break(*b, k, false));
            }
        }
        for (k, c, j) in obj::entries() {
            v.push(Entry::Obj(k, c, j));
        }
        v
    }
}

#[derive(Clone, Debug, PartialEq)]
pub struct Case {
    /// "connect" (connection-level checks) or a method of `Iface`
    pub method: String,
    pub args: Vec<NVal>,
    pub a: u32,
}

pub const SCALAR_ARGS: [u32; 3] = [0, 7, 0xffff_fff0];

pub fn pair_cases(ctx: &Ctx, c: usize) -> Vec<Case> {
    let cn = &ctx.nodes[c];
    let thorough = ctx.max_depth >= 3;
    let vals = model::values(cn, thorough);
    let mut out = vec![Case { method: "connect".into(), args: vec![], a: 0 }];
    for x in &vals {
        for m in ["echo", "by_ref", "observe", "with_cb", "with_mut_cb"] {
            out.push(Case { method: m.into(), args: vec![x.clone()], a: 0 });
        }
    }
    for xs in model::vec_cases(&vals, thorough) {
        out.push(Case { method: "vecs".into(), args: xs, a: 0 });
    }
    for m in spec::methods(cn.depth) {
        if spec::is_scalar_method(&m) {
            for a in SCALAR_ARGS {
                out.push(Case { method: m.clone(), args: vec![], a });
            }
        }
    }
    out
}

// ---------------------------------------------------------------------------------------------
// JSON forms (replay files, samples)

pub fn nval_json(x: &NVal) -> Value {
    let mut f = Map::new();
    for (k, v) in &x.f {
        f.insert(
            k.clone(),
            match v {
                Scalar::U(n) => json!(n),
                Scalar::S(s) => json!(s),
            },
        );
    }
    json!({"variant": x.variant, "fields": f})
}
pub fn nval_from_json(v: &Value) -> Option<NVal> {
    let mut x = NVal::new(v["variant"].as_str());
    for (k, s) in v["fields"].as_object()? {
        match s {
            Value::Number(n) => x.u(k, n.as_u64()?),
            Value::String(t) => x.s(k, t),
            _ => return None,
        }
    }
    Some(x)
}
pub fn case_json(ctx: &Ctx, c: usize, j: usize, case: &Case) -> Value {
    let (cn, jn) = (&ctx.nodes[c], &ctx.nodes[j]);
    let path = if cn.id.len() >= jn.id.len() { &cn.id } else { &jn.id };
    json!({"kind": "call", "path": path, "path_edits": path[1..].chars().map(spec::edit_label).collect::<Vec<_>>(),
           "caller": cn.id, "caller_version": cn.depth, "impl": jn.id, "impl_version": jn.depth,
           "method": case.method, "args": case.args.iter().map(nval_json).collect::<Vec<_>>(), "a": case.a})
}
pub fn break_json(base: char, kind: &str, side: bool) -> Value {
    json!({"kind": "break", "base": base.to_string(), "change": kind, "changed_side": if side { "caller" } else { "implementation" }})
}

// ---------------------------------------------------------------------------------------------
// statistics

#[derive(Default)]
pub struct Stats(pub BTreeMap<String, u64>);
impl Stats {
    pub fn add(&mut self, k: &str, n: u64) {
        *self.0.entry(k.to_string()).or_insert(0) += n;
    }
}

pub struct Outcome {
    pub violations: Vec<Violation>,
    pub machinery: Option<String>,
    /// a panic escaped from connection creation: savefile-abi's template cache is poisoned
    pub poisoned: bool,
    /// no connection: the remaining cases of the entry cannot run
    pub no_connection: bool,
}

fn direction(c: &Node, j: &Node) -> &'static str {
    if c.depth > j.depth {
        "caller_newer"
    } else if c.depth < j.depth {
        "impl_newer"
    } else {
        "same_version"
    }
}

/// structural features of a case (known-findings predicates are matched on these)
fn tags(c: &Node, j: &Node, case: &Case) -> BTreeMap<String, String> {
    let m = c.depth.min(j.depth);
    let longer = if c.id.len() >= j.id.len() { &c.id } else { &j.id };
    let between: Vec<String> = longer[1 + m as usize..].chars().map(|x| x.to_string()).collect();
    let variants: Vec<Option<String>> = if case.args.is_empty() { vec![None] } else { case.args.iter().map(|x| x.variant.clone()).collect() };
    let differs = |n: &Node| variants.iter().any(|v| model::wire_fields(n, v.as_deref(), n.depth) != model::wire_fields(n, v.as_deref(), m));
    let returns_t = case.method == "echo" || case.method == "vecs" || case.method == "with_cb";
    vcommon::tags(&[
        ("base", c.base.to_string()),
        ("direction", direction(c, j).to_string()),
        ("method", case.method.clone()),
        ("edits_between", if between.is_empty() { "none".into() } else { between.join(",") }),
        // the serialized form of T at the sender's own version differs from its form at the negotiated version
        ("arg_wire_differs", if !case.args.is_empty() && differs(c) { "yes" } else { "no" }.to_string()),
        ("ret_wire_differs", if returns_t && differs(j) { "yes" } else { "no" }.to_string()),
    ])
}

fn render_ret(r: &Ret) -> String {
    match r {
        Ret::Unit => "()".into(),
        Ret::U(x) => format!("{}", x),
        Ret::One(v) => v.render(),
        Ret::Many(vs) => format!("[{}]", vs.iter().map(|v| v.render()).collect::<Vec<_>>().join(", ")),
    }
}
fn render_vals(vs: &[NVal]) -> String {
    format!("[{}]", vs.iter().map(|v| v.render()).collect::<Vec<_>>().join(", "))
}

fn expected_method_map(c: &Node, j: &Node) -> Vec<(String, Option<u16>)> {
    let jm = spec::methods(j.depth);
    spec::methods(c.depth).into_iter().map(|m| { let n = jm.iter().position(|x| *x == m).map(|p| p as u16); (m, n) }).collect()
}

/// Execute one case on the real code and judge it. `shim` is the connection of the entry (None for
/// the "connect" case, which creates it and hands it back through `made`).
pub fn check_case(ctx: &Ctx, c: usize, j: usize, shim: Option<&dyn CallerShim>, made: &mut Option<Box<dyn CallerShim>>, case: &Case, st: &mut Stats) -> Outcome {
    let (cn, jn) = (&ctx.nodes[c], &ctx.nodes[j]);
    let m = cn.depth.min(jn.depth);
    let mut out = Outcome { violations: vec![], machinery: None, poisoned: false, no_connection: false };
    let cross = cn.depth != jn.depth;
    let cj = case_json(ctx, c, j, case);
    // how the `&T` argument of by_ref travels on this connection
    let by_reference = case.method == "by_ref" && shim.map(|s| vcommon::guarded(|| s.passable_by_ref("by_ref", 0)).unwrap_or(false)).unwrap_or(false);
    let fail = |out: &mut Outcome, oracle: &str, extra: &[(&str, String)], detail: String| {
        let mut t = tags(cn, jn, case);
        t.insert("cross_version".into(), if cross { "yes" } else { "no" }.into());
        t.insert("passed_by_reference".into(), if by_reference { "yes" } else { "no" }.into());
        for (k, v) in extra {
            t.insert(k.to_string(), v.clone());
        }
        out.violations.push(Violation {
            oracle: oracle.to_string(),
            tags: t,
            summary: format!("caller {} (v{}) -> implementation {} (v{}), negotiated v{}, {}: {}", cn.id, cn.depth, jn.id, jn.depth, m, case.method, detail),
            case: cj.clone(),
        });
    };

    if case.method == "connect" {
        st.add("transitions", 1);
        st.add("evaluations", 1);
        let res = vcommon::guarded(|| connect(&cn.id, &jn.id));
        match res {
            Err(p) => {
                st.add("oc.connect_panicked", 1);
                fail(&mut out, "connect", &[("outcome", "panic".into())], format!("connection creation panicked: {}", p));
                out.poisoned = true;
                out.no_connection = true;
            }
            Ok(None) => out.machinery = Some(format!("no connection table entry for {} -> {}", cn.id, jn.id)),
            Ok(Some(Err(e))) => {
                st.add("oc.connect_refused", 1);
                fail(&mut out, "connect", &[("outcome", "err".into())], format!("connection creation returned Err although the two definitions are versions of one history: {}", e));
                out.no_connection = true;
            }
            Ok(Some(Ok(s))) => {
                st.add("oc.connected", 1);
                st.add("evaluations", 2);
                let ev = s.effective_version();
                if ev != m {
                    fail(&mut out, "negotiated_version", &[], format!("negotiated version is {} but min({}, {}) = {}", ev, cn.depth, jn.depth, m));
                }
                let map = s.method_map();
                let want = expected_method_map(cn, jn);
                if map != want {
                    fail(&mut out, "method_map", &[], format!("caller methods are mapped to implementation methods as {:?}, expected {:?}", map, want));
                }
                let missing = want.iter().filter(|x| x.1.is_none()).count();
                if missing > 0 {
                    st.add("connected_with_methods_missing_in_impl", 1);
                }
                if spec::methods(jn.depth).iter().any(|x| !want.iter().any(|w| &w.0 == x)) {
                    st.add("connected_with_methods_unknown_to_caller", 1);
                }
                match vcommon::guarded(|| s.passable_by_ref("by_ref", 0)) {
                    Ok(b) => {
                        st.add(&format!("byref.{}.{}", direction(cn, jn), if b { "by_reference" } else { "serialized" }), 1);
                        if b && cross && ctx.report_pairs {
                            println!("R {} -> {}", cn.id, jn.id);
                        }
                    }
                    Err(p) => out.machinery = Some(format!("get_arg_passable_by_ref panicked: {}", p)),
                }
                *made = Some(s);
            }
        }
        return out;
    }

    let Some(shim) = shim else {
        out.machinery = Some("call case without a connection".into());
        return out;
    };
    let _ = take_log();
    let _ = take_cb_log();
    st.add("transitions", 1);
    let res = vcommon::guarded(|| shim.call(&case.method, &case.args, case.a));
    let log = take_log();
    let cblog = take_cb_log();
    if let Err(p) = &res {
        if p.contains("PoisonError") {
            out.machinery = Some(format!("a global lock of savefile-abi is poisoned in this worker (earlier panic inside connection creation): {}", p));
            return out;
        }
    }

    if spec::is_scalar_method(&case.method) {
        let exists = spec::methods(jn.depth).contains(&case.method);
        st.add("evaluations", 1);
        if exists {
            let want = spec::scalar_result(&case.method, case.a);
            let ok_log = log.len() == 1 && log[0].method == case.method && log[0].scalar == Some(case.a);
            match &res {
                Ok(Ret::U(r)) if *r == want && ok_log => st.add("oc.scalar_method_ok", 1),
                _ => {
                    st.add("oc.scalar_method_wrong", 1);
                    fail(&mut out, "method_dispatch", &[], format!("{}({}) should reach the implementation's method of that name and return {}; implementation log {:?}, caller got {:?}", case.method, case.a, want, log, res.as_ref().map(render_ret)));
                }
            }
        } else {
            // a method the implementation lacks: a clear panic at call time, nothing invoked
            match &res {
                Err(msg) if log.is_empty() && msg.contains(&case.method) => {
                    st.add("oc.missing_method_panicked", 1);
                    // informational only (message texts decide nothing)
                    if msg.contains("does not exist in implementation") {
                        st.add("missing_method_panic_with_usual_wording", 1);
                    }
                }
                Err(msg) => {
                    st.add("oc.missing_method_unclear_panic", 1);
                    fail(&mut out, "missing_method_panic", &[("outcome", "unclear".into())], format!("calling a method the implementation lacks panicked, but the message does not name the method or the implementation was invoked (log {:?}): {}", log, msg));
                }
                Ok(r) => {
                    st.add("oc.missing_method_returned", 1);
                    fail(&mut out, "missing_method_panic", &[("outcome", "returned".into())], format!("calling a method the implementation lacks returned {} instead of panicking (implementation log {:?})", render_ret(r), log));
                }
            }
        }
        return out;
    }

    // methods that carry T
    let expected_obs: Result<Vec<NVal>, String> = case.args.iter().map(|x| model::transmit(cn, jn, m, x)).collect();
    let expected_obs = match expected_obs {
        Ok(v) => v,
        Err(_) => {
            // not representable at the negotiated version (documented to panic at serialization):
            // outside the oracle, counted
            st.add("unrepresentable_cases", 1);
            st.add(if res.is_err() && log.is_empty() { "oc.unrepresentable_value_panicked_in_caller" } else if res.is_err() { "oc.unrepresentable_value_panicked_after_invocation" } else { "oc.unrepresentable_value_no_panic" }, 1);
            return out;
        }
    };
    st.add("validated", 1);
    st.add("evaluations", 2);
    if by_reference && cross {
        st.add("cross_version_calls_with_argument_passed_by_reference", 1);
    }
    // 1. what the implementation observed
    let invoked = log.len() == 1 && log[0].method == case.method;
    if !invoked {
        st.add("oc.implementation_not_invoked_properly", 1);
        let how = match &res {
            Err(p) => format!("the call panicked: {}", p),
            Ok(r) => format!("the call returned {}", render_ret(r)),
        };
        fail(
            &mut out,
            "argument_observed",
            &[("outcome", if res.is_err() { "caller_panic" } else { "not_invoked" }.to_string()), ("impl_invoked", "no".into())],
            format!("the implementation was invoked {} times instead of once ({}); argument {}", log.len(), how, render_vals(&case.args)),
        );
        return out;
    }
    let entry = &log[0];
    let arg_ok = entry.observed == expected_obs;
    if !arg_ok {
        fail(
            &mut out,
            "argument_observed",
            &[("outcome", "value_mismatch".into()), ("impl_invoked", "yes".into())],
            format!("sent {} ; the implementation observed {} ; model up_{}(down_{}(x)) = {}", render_vals(&case.args), render_vals(&entry.observed), jn.depth, m, render_vals(&expected_obs)),
        );
    }
    // methods with a callback: the nested connection (implementation -> caller's closure) must
    // speak the negotiated version as well
    let is_cb = case.method == "with_cb" || case.method == "with_mut_cb";
    if is_cb {
        st.add("evaluations", 2);
        st.add("transitions", 1);
        let passed = entry.cb_passed.clone().unwrap_or_default();
        if passed != model::bump(jn, &entry.observed[0]) {
            out.machinery = Some(format!("recording implementation {} handed {} to the callback, the model of it says {}", jn.id, passed.render(), model::bump(jn, &entry.observed[0]).render()));
            return out;
        }
        let want_cb = match model::transmit(jn, cn, m, &passed) {
            Ok(v) => v,
            Err(e) => {
                out.machinery = Some(format!("callback argument not representable: {}", e));
                return out;
            }
        };
        let panic_note = match &res {
            Err(p) => format!(" ; the call panicked: {}", p),
            Ok(_) => String::new(),
        };
        if cblog.len() != 1 {
            st.add("oc.callback_not_invoked_properly", 1);
            fail(&mut out, "callback_argument_observed", &[("outcome", if res.is_err() { "caller_panic" } else { "not_invoked" }.to_string()), ("impl_invoked", "yes".into())],
                format!("the implementation handed {} to the caller's closure, which was invoked {} times instead of once{}", passed.render(), cblog.len(), panic_note));
            return out;
        }
        let (cb_seen, cb_answer) = &cblog[0];
        let cb_arg_ok = *cb_seen == want_cb;
        if !cb_arg_ok {
            fail(&mut out, "callback_argument_observed", &[("outcome", "value_mismatch".into()), ("impl_invoked", "yes".into())],
                format!("the implementation handed {} to the caller's closure ; the closure observed {} ; model up_{}(down_{}(p)) = {}", passed.render(), cb_seen.render(), cn.depth, m, want_cb.render()));
        }
        let mut cb_ret_ok = true;
        if case.method == "with_cb" {
            let answer = cb_answer.clone().unwrap_or_default();
            if answer != model::bump(cn, cb_seen) {
                out.machinery = Some(format!("the caller-side closure answered {}, the model of it says {}", answer.render(), model::bump(cn, cb_seen).render()));
                return out;
            }
            let want_got = match model::transmit(cn, jn, m, &answer) {
                Ok(v) => v,
                Err(e) => {
                    out.machinery = Some(format!("callback answer not representable: {}", e));
                    return out;
                }
            };
            if !entry.finished {
                cb_ret_ok = false;
                fail(&mut out, "callback_return_observed", &[("outcome", "caller_panic".into()), ("impl_invoked", "yes".into())],
                    format!("the closure answered {} but the implementation never got it{}", answer.render(), panic_note));
            } else if entry.cb_got.as_ref() != Some(&want_got) {
                cb_ret_ok = false;
                fail(&mut out, "callback_return_observed", &[("outcome", "value_mismatch".into()), ("impl_invoked", "yes".into())],
                    format!("the caller's closure answered {} ; the implementation got {} ; model up_{}(down_{}(r)) = {}", answer.render(), entry.cb_got.as_ref().map(|x| x.render()).unwrap_or_default(), jn.depth, m, want_got.render()));
            }
        } else if !entry.finished {
            cb_ret_ok = false;
            fail(&mut out, "callback_return_observed", &[("outcome", "caller_panic".into()), ("impl_invoked", "yes".into())], format!("the implementation never came back from the callback{}", panic_note));
        }
        st.add(if cb_arg_ok && cb_ret_ok { "oc.callback_values_as_modelled" } else { "oc.callback_values_differ" }, 1);
        if cross && want_cb.f.len() != passed.f.len() {
            st.add("rule.callback_argument_crossed_versions_with_field_set_change", 1);
        }
        if !entry.finished {
            return out;
        }
    }
    // the recording implementation is our own code: it must have returned what the model says it does
    let impl_ret_model = match case.method.as_str() {
        "with_cb" => Ret::One(entry.cb_got.clone().unwrap_or_default()),
        "echo" => Ret::One(model::bump(jn, &entry.observed[0])),
        "by_ref" => Ret::U(spec::checksum(&entry.observed[0])),
        "vecs" => Ret::Many(entry.observed.iter().map(|x| model::bump(jn, x)).collect()),
        _ => Ret::Unit,
    };
    if impl_ret_model != entry.returned {
        out.machinery = Some(format!("recording implementation {} returned {} but the model of it says {}", jn.id, render_ret(&entry.returned), render_ret(&impl_ret_model)));
        return out;
    }
    // 2. what the caller received: up_i(down_m(r)), r = what the implementation really returned
    let back = |r: &NVal| model::transmit(jn, cn, m, r);
    let expected_ret: Result<Ret, String> = match &entry.returned {
        Ret::Unit => Ok(Ret::Unit),
        Ret::U(x) => Ok(Ret::U(*x)),
        Ret::One(r) => back(r).map(Ret::One),
        Ret::Many(rs) => rs.iter().map(back).collect::<Result<Vec<_>, _>>().map(Ret::Many),
    };
    let expected_ret = match expected_ret {
        Ok(r) => r,
        Err(e) => {
            out.machinery = Some(format!("the implementation returned a value that is not representable at the negotiated version: {}", e));
            return out;
        }
    };
    let ret_ok = matches!(&res, Ok(r) if *r == expected_ret);
    if !ret_ok {
        // classification only: does the failure look like "return value written in the format of
        // the implementation's own version, parsed as the negotiated one"?
        let explained = match &entry.returned {
            Ret::One(r) => Some((std::slice::from_ref(r), false)),
            Ret::Many(rs) => Some((rs.as_slice(), true)),
            _ => None,
        }
        .map(|(rs, as_vec)| {
            let predicted = model::cross_format(jn, cn, jn.depth, m, rs, as_vec);
            match (&predicted, &res) {
                (Err(_), Err(_)) => true,
                (Ok(p), Ok(Ret::One(v))) => p.len() == 1 && p[0] == *v,
                (Ok(p), Ok(Ret::Many(vs))) => p == vs,
                _ => false,
            }
        })
        .unwrap_or(false);
        let (outcome, got) = match &res {
            Ok(r) => ("value_mismatch", format!("the caller received {}", render_ret(r))),
            Err(p) => ("caller_panic", format!("the call panicked in the caller: {}", p)),
        };
        fail(
            &mut out,
            "return_value",
            &[("outcome", outcome.to_string()), ("impl_invoked", "yes".into()), ("explained_by", if explained { "return_written_at_impl_version" } else { "nothing_known" }.to_string())],
            format!("the implementation returned {} ; {} ; model up_{}(down_{}(r)) = {}", render_ret(&entry.returned), got, cn.depth, m, render_ret(&expected_ret)),
        );
    }
    st.add(
        match (arg_ok, ret_ok, res.is_ok()) {
            (true, true, _) => "oc.argument_and_return_as_modelled",
            (true, false, true) => "oc.return_value_differs",
            (true, false, false) => "oc.caller_panicked_after_invocation",
            (false, true, _) => "oc.argument_differs",
            (false, false, _) => "oc.argument_and_return_differ",
        },
        1,
    );
    if cross {
        // which of the model's rules the case exercised (to expose vacuity)
        let sent = &case.args;
        if expected_obs.iter().zip(sent).any(|(o, s)| o.f.keys().any(|k| !s.f.contains_key(k))) {
            st.add("rule.receiver_filled_default_or_ctor_value", 1);
        }
        if expected_obs.iter().zip(sent).any(|(o, s)| s.f.keys().any(|k| !o.f.contains_key(k))) {
            st.add("rule.sender_field_dropped", 1);
        }
    }
    out
}

pub fn check_break(base: char, kind: &str, side: bool, st: &mut Stats) -> Outcome {
    let mut out = Outcome { violations: vec![], machinery: None, poisoned: false, no_connection: false };
    st.add("transitions", 1);
    st.add("evaluations", 1);
    let shard = spec::first_shard_of_base(base);
    let res = vcommon::guarded(|| shard_break(shard, base, kind, side));
    let t = vcommon::tags(&[("base", base.to_string()), ("change", kind.to_string()), ("changed_side", if side { "caller" } else { "implementation" }.to_string())]);
    let what = spec::BREAKS.iter().find(|b| b.0 == kind).map(|b| b.1).unwrap_or("");
    let mut viol: Vec<Violation> = vec![];
    let mut fail = |oracle: &str, outcome: &str, detail: String| {
        let mut t = t.clone();
        t.insert("outcome".into(), outcome.into());
        viol.push(Violation { oracle: oracle.into(), tags: t, summary: format!("base {} version 0 against a definition where {} (changed side: {}): {}", base, what, if side { "caller" } else { "implementation" }, detail), case: break_json(base, kind, side) });
    };
    match (kind == "same", res) {
        (_, Ok(None)) => out.machinery = Some(format!("no breaking variant {} {}", base, kind)),
        (true, Ok(Some(Ok(0)))) => st.add("oc.redeclared_interface_connected", 1),
        (true, Ok(Some(Ok(v)))) => fail("negotiated_version", "ok", format!("negotiated version {} instead of 0", v)),
        (true, Ok(Some(Err(e)))) => {
            st.add("oc.connect_refused", 1);
            fail("connect", "err", format!("an identical re-declaration was refused: {}", e))
        }
        (false, Ok(Some(Err(_)))) => st.add("oc.incompatible_signature_refused", 1),
        (false, Ok(Some(Ok(_)))) => {
            st.add("oc.incompatible_signature_accepted", 1);
            fail("incompatible_rejected", "connected", "connection creation succeeded".into())
        }
        (_, Err(p)) => {
            st.add("oc.connect_panicked", 1);
            fail(if kind == "same" { "connect" } else { "incompatible_rejected" }, "panic", format!("connection creation panicked instead of returning Err: {}", p));
            out.poisoned = true;
        }
    }
    out.violations = viol;
    out
}

// ---------------------------------------------------------------------------------------------
// child process: sweeps the entries pos % n == k

const SKIP_ENTRY: u64 = 1 << 40;

fn fnv(s: &str) -> u64 {
    let mut h: u64 = 0xcbf29ce484222325;
    for b in s.bytes() {
        h ^= b as u64;
        h = h.wrapping_mul(0x100000001b3);
    }
    h
}

pub fn child(tier: Tier, k: usize, n: usize, resume: (i64, u64)) -> ! {
    vcommon::child::install_crash_handler();
    vcommon::child::limit_memory(6 << 30);
    let mut ctx = Ctx::new(tier);
    ctx.report_pairs = true;
    let es = ctx.entries();
    let out = std::io::stdout();
    for (pos, e) in es.iter().enumerate() {
        if pos % n != k || (pos as i64) < resume.0 {
            continue;
        }
        println!("B {}", pos);
        let mut st = Stats::default();
        let mut poisoned = false;
        match e {
            Entry::Break(b, kind, side) => {
                if !(pos as i64 == resume.0 && resume.1 >= 1) {
                    vcommon::child::set_state(&format!("pos={} sno=1", pos));
                    let o = check_break(*b, kind, *side, &mut st);
                    st.add("states", 1);
                    st.add("break_cases", 1);
                    st.add("validated", 1);
                    if *kind != "same" {
                        st.add("nontrivial", 1);
                    }
                    for v in &o.violations {
                        println!("F {}", json!({"oracle": v.oracle, "tags": v.tags, "summary": v.summary, "case": v.case}));
                    }
                    if let Some(m) = o.machinery {
                        println!("E {}", m);
                    }
                    println!("X {}", json!({"pos": pos, "sno": 1, "case": break_json(*b, kind, *side)}));
                    poisoned = o.poisoned;
                }
            }
            Entry::Obj(ki, oc, oj) => {
                let k = &ospec::KINDS[*ki];
                let rs = ospec::revs(k);
                let (cr, jr) = (&rs[*oc], &rs[*oj]);
                let cases = obj::cases(ctx.tier, k, cr, jr);
                let total = cases.len();
                let mut shim: Option<Box<dyn ObjShim>> = None;
                let differ = cr != jr;
                if pos as i64 == resume.0 && resume.1 >= 1 {
                    // the connection of this entry was made by the process that died: make it again
                    let mut made = None;
                    let mut scratch = Stats::default();
                    let _ = obj::check_case(k, cr, jr, None, &mut made, &cases[0], &mut scratch);
                    if made.is_none() {
                        println!("E cannot re-create the connection of object entry {} after a restart", pos);
                    }
                    shim = made;
                }
                for (ci, case) in cases.iter().enumerate() {
                    let sno = ci as u64 + 1;
                    if pos as i64 == resume.0 && sno <= resume.1 {
                        continue;
                    }
                    vcommon::child::set_state(&format!("pos={} sno={}", pos, sno));
                    let mut made = None;
                    let o = obj::check_case(k, cr, jr, shim.as_deref(), &mut made, case, &mut st);
                    if made.is_some() {
                        shim = made;
                    }
                    st.add("states", 1);
                    st.add("obj.states", 1);
                    if differ {
                        st.add("nontrivial", 1);
                        st.add("obj.nontrivial", 1);
                    }
                    for v in &o.violations {
                        println!("F {}", json!({"oracle": v.oracle, "tags": v.tags, "summary": v.summary, "case": v.case}));
                    }
                    if let Some(m) = o.machinery {
                        println!("E {}", m);
                    }
                    if (ci == 0 && pos % 97 == 0) || (ci == 1 && pos % 89 == 0) {
                        println!("X {}", json!({"pos": pos, "sno": sno, "case": obj::case_json(k, cr, jr, case)}));
                    }
                    if o.poisoned {
                        poisoned = true;
                        break;
                    }
                    if o.no_connection {
                        st.add("obj.cases_without_connection", (total - ci - 1) as u64);
                        break;
                    }
                }
                st.add("obj.pairs", 1);
                if differ {
                    st.add("obj.pairs_of_different_revisions", 1);
                }
                drop(shim);
            }
            Entry::Pair(c, j) => {
                let cases = pair_cases(&ctx, *c);
                let total = cases.len();
                let mut seen: HashSet<u64> = HashSet::new();
                let mut shim: Option<Box<dyn CallerShim>> = None;
                let cross = ctx.nodes[*c].depth != ctx.nodes[*j].depth;
                let resumed_inside = pos as i64 == resume.0 && resume.1 >= 1;
                if resumed_inside {
                    // the connection of this entry was made by the process that died: make it again
                    match vcommon::guarded(|| connect(&ctx.nodes[*c].id, &ctx.nodes[*j].id)) {
                        Ok(Some(Ok(s))) => shim = Some(s),
                        _ => {
                            println!("E cannot re-create the connection of entry {} after a restart", pos);
                        }
                    }
                }
                for (ci, case) in cases.iter().enumerate() {
                    let sno = ci as u64 + 1;
                    if pos as i64 == resume.0 && sno <= resume.1 {
                        continue;
                    }
                    if ci % 500 == 499 && !st.0.is_empty() {
                        println!("T {}", json!(st.0));
                        st = Stats::default();
                    }
                    vcommon::child::set_state(&format!("pos={} sno={}", pos, sno));
                    let mut made = None;
                    let o = check_case(&ctx, *c, *j, shim.as_deref(), &mut made, case, &mut st);
                    if made.is_some() {
                        shim = made;
                    }
                    if seen.insert(fnv(&format!("{}|{}|{}|{}", case.method, render_vals(&case.args), case.a, pos))) {
                        st.add("states", 1);
                        if cross {
                            st.add("nontrivial", 1);
                        }
                    }
                    for v in &o.violations {
                        println!("F {}", json!({"oracle": v.oracle, "tags": v.tags, "summary": v.summary, "case": v.case}));
                    }
                    if let Some(m) = o.machinery {
                        println!("E {}", m);
                    }
                    if ci == 1 || ci + 1 == total {
                        println!("X {}", json!({"pos": pos, "sno": sno, "case": case_json(&ctx, *c, *j, case)}));
                    }
                    if o.poisoned {
                        poisoned = true;
                        break;
                    }
                    if o.no_connection {
                        st.add("cases_skipped_without_connection", (total - ci - 1) as u64);
                        break;
                    }
                }
                st.add("pairs", 1);
                if cross {
                    st.add("pairs_cross_version", 1);
                }
                drop(shim);
            }
        }
        if poisoned {
            println!("T {}", json!(st.0));
            let _ = out.lock().flush();
            eprintln!("\nCRASH-STATE pos={} sno={} selfexit=1", pos, SKIP_ENTRY);
            std::process::exit(3);
        }
        st.add("entries", 1);
        println!("T {}", json!(st.0));
    }
    let _ = out.lock().flush();
    std::process::exit(0)
}

fn violation_from_json(j: &Value) -> Violation {
    Violation {
        oracle: j["oracle"].as_str().unwrap_or("").to_string(),
        tags: j["tags"].as_object().map(|m| m.iter().map(|(k, v)| (k.clone(), v.as_str().unwrap_or("").to_string())).collect()).unwrap_or_default(),
        summary: j["summary"].as_str().unwrap_or("").to_string(),
        case: j["case"].clone(),
    }
}

// ---------------------------------------------------------------------------------------------
// parent

pub fn parent(run: &mut Run) -> (Map<String, Value>, Vec<String>) {
    let ctx = Ctx::new(run.tier);
    let es = ctx.entries();
    let n_entries = es.len();
    // binding of the tree to the generated code: every node's interface reports its depth as version
    for n in ctx.nodes.iter() {
        let shard = spec::shard_of(&n.id, &n.id).unwrap_or_else(|| vcommon::machinery_error("node without shard"));
        if shard_latest(shard, &n.id) != Some(n.depth) {
            vcommon::machinery_error(&format!("binding: generated interface of node {} reports version {:?}, the tree says {}", n.id, shard_latest(shard, &n.id), n.depth));
        }
    }
    obj::check_binding();
    let workers = run.tier.pick(8, 14);
    let base = vec![run.property.clone(), "--tier".to_string(), run.tier.name().to_string()];
    let mut stats = Stats::default();
    let mut machinery: Vec<String> = vec![];
    let mut samples: Vec<(u64, u64, Value)> = vec![];
    let byref_pairs: std::sync::Mutex<Vec<String>> = std::sync::Mutex::new(vec![]);
    {
        let cell = std::sync::Mutex::new((&mut *run, &mut stats, &mut machinery, &mut samples));
        let ctx = &ctx;
        let es = &es;
        vcommon::child::run_workers(
            workers,
            &base,
            |_k, line| {
                let mut g = cell.lock().unwrap();
                if let Some(j) = line.strip_prefix("F ") {
                    match vcommon::serde_json::from_str::<Value>(j) {
                        Ok(v) => g.0.violation(violation_from_json(&v)),
                        Err(e) => g.2.push(format!("unparsable finding line: {}", e)),
                    }
                } else if let Some(j) = line.strip_prefix("T ") {
                    if let Ok(Value::Object(m)) = vcommon::serde_json::from_str::<Value>(j) {
                        for (k, v) in m {
                            g.1.add(&k, v.as_u64().unwrap_or(0));
                        }
                    }
                } else if let Some(j) = line.strip_prefix("X ") {
                    if let Ok(v) = vcommon::serde_json::from_str::<Value>(j) {
                        g.3.push((v["pos"].as_u64().unwrap_or(0), v["sno"].as_u64().unwrap_or(0), v["case"].clone()));
                    }
                } else if let Some(m) = line.strip_prefix("E ") {
                    g.2.push(m.to_string());
                } else if let Some(m) = line.strip_prefix("R ") {
                    byref_pairs.lock().unwrap().push(m.to_string());
                }
            },
            |c| {
                let mut g = cell.lock().unwrap();
                if c.state.contains("selfexit=1") {
                    g.1.add("workers_abandoned_after_connect_panic", 1);
                    return;
                }
                let num = |key: &str| -> Option<u64> { c.state.split_whitespace().find_map(|w| w.strip_prefix(key)).and_then(|x| x.parse().ok()) };
                let (Some(pos), Some(sno)) = (num("pos="), num("sno=")) else {
                    g.2.push(format!("worker {} died without a recorded state: {} {}", c.worker, c.status, c.stderr_tail));
                    return;
                };
                let msg = c.stderr_tail.lines().filter(|l| !l.starts_with("CRASH-STATE") && !l.trim().is_empty()).last().unwrap_or("").to_string();
                g.1.add("oc.process_died", 1);
                g.1.add("states", 1);
                g.1.add("evaluations", 1);
                match es.get(pos as usize) {
                    Some(Entry::Pair(ci, ji)) => {
                        let cases = pair_cases(ctx, *ci);
                        let Some(case) = cases.get(sno as usize - 1) else {
                            g.2.push(format!("worker {} died in unknown state {}/{}", c.worker, pos, sno));
                            return;
                        };
                        let (cn, jn) = (&ctx.nodes[*ci], &ctx.nodes[*ji]);
                        let mut t = tags(cn, jn, case);
                        t.insert("outcome".into(), "process_died".into());
                        g.0.violation(Violation {
                            oracle: "process_abort".into(),
                            tags: t,
                            summary: format!("process died ({}) during caller {} (v{}) -> implementation {} (v{}) {}({}): {}", c.status, cn.id, cn.depth, jn.id, jn.depth, case.method, render_vals(&case.args), msg),
                            case: case_json(ctx, *ci, *ji, case),
                        });
                    }
                    Some(Entry::Break(b, kind, side)) => {
                        g.0.violation(Violation {
                            oracle: "process_abort".into(),
                            tags: vcommon::tags(&[("base", b.to_string()), ("change", kind.to_string()), ("outcome", "process_died".into())]),
                            summary: format!("process died ({}) while connecting base {} to the '{}' variant: {}", c.status, b, kind, msg),
                            case: break_json(*b, kind, *side),
                        });
                    }
                    Some(Entry::Obj(ki, oc, oj)) => {
                        let k = &ospec::KINDS[*ki];
                        let rs = ospec::revs(k);
                        let (cr, jr) = (&rs[*oc], &rs[*oj]);
                        let cases = obj::cases(ctx.tier, k, cr, jr);
                        let Some(case) = cases.get(sno as usize - 1) else {
                            g.2.push(format!("worker {} died in unknown state {}/{}", c.worker, pos, sno));
                            return;
                        };
                        let mut t = obj::tags(k, cr, jr);
                        t.insert("outcome".into(), "process_died".into());
                        t.insert("step".into(), case.step.into());
                        g.0.violation(Violation {
                            oracle: "process_abort".into(),
                            tags: t,
                            summary: format!("process died ({}) during object family {} caller {} -> implementation {} {} (base {}, x {}, method #{}): {}", c.status, k.id, cr.id(), jr.id(), case.step, case.base, case.x, case.sel, msg),
                            case: obj::case_json(k, cr, jr, case),
                        });
                    }
                    None => g.2.push(format!("worker {} died in unknown entry {}", c.worker, pos)),
                }
            },
            400,
        );
    }
    if !machinery.is_empty() {
        vcommon::machinery_error(&format!("{} harness problem(s), first: {}", machinery.len(), machinery[0]));
    }
    let g = |k: &str| stats.0.get(k).copied().unwrap_or(0);
    let completed = g("entries") + g("workers_abandoned_after_connect_panic");
    if completed < n_entries as u64 {
        if run.violations_found() == 0 {
            vcommon::machinery_error(&format!("only {} of {} entries were completed and no violation explains it", completed, n_entries));
        }
        run.exhaustive = false;
        run.notes.push(format!("only {} of {} entries were completed: workers kept dying", completed, n_entries));
    }
    let sub = |prefix: &str| -> Map<String, Value> { stats.0.iter().filter(|(k, _)| k.starts_with(prefix)).map(|(k, v)| (k[prefix.len()..].to_string(), json!(v))).collect() };
    let oc = sub("oc.");
    // vacuity guards
    if g("pairs_cross_version") < 2 || g("nontrivial") < 2 || oc.len() < 2 || g("rule.receiver_filled_default_or_ctor_value") == 0 || g("rule.sender_field_dropped") == 0 || g("oc.missing_method_panicked") + g("oc.missing_method_unclear_panic") + g("oc.missing_method_returned") == 0 || g("oc.callback_values_as_modelled") + g("oc.callback_values_differ") == 0 || g("rule.callback_argument_crossed_versions_with_field_set_change") == 0 {
        vcommon::machinery_error(&format!("vacuous exploration: {:?}", stats.0));
    }
    // vacuity guards of the object family: every class of the model occurs in both positions, refusals and
    // connections both happen, nested objects are really invoked, missing methods really panic
    for key in ["obj.model.argument.compatible", "obj.model.argument.must_refuse", "obj.model.argument.missing_method", "obj.model.return.compatible", "obj.model.return.must_refuse", "obj.model.return.missing_method", "obj.model.interface.compatible", "obj.model.interface.must_refuse", "oc.nested_incompatible_bounds_refused", "oc.nested_compatible_connected", "oc.nested_call_as_modelled", "obj.pairs_of_different_revisions"] {
        if g(key) == 0 {
            vcommon::machinery_error(&format!("vacuous exploration of the object family: {} = 0: {:?}", key, stats.0));
        }
    }
    let mut cov = Map::new();
    samples.sort_by(|a, b| (a.0, a.1).cmp(&(b.0, b.1)));
    if !samples.is_empty() {
        // a few evenly spread cases of the history family and of the object family
        let (objs, hist): (Vec<_>, Vec<_>) = samples.iter().partition(|s| s.2["kind"] == "object");
        let mut picked: Vec<Value> = vec![];
        for (set, want) in [(&hist, 7usize), (&objs, 5usize)] {
            let n = set.len();
            if n == 0 {
                continue;
            }
            let mut idx: Vec<usize> = (0..want).map(|i| i * (n - 1) / (want - 1)).collect();
            idx.dedup();
            picked.extend(idx.into_iter().map(|i| set[i].2.clone()));
        }
        cov.insert("samples".into(), Value::Array(picked));
    }
    let in_tier: Vec<&Node> = ctx.nodes.iter().filter(|n| n.depth <= ctx.max_depth).collect();
    cov.insert("states".into(), json!(g("states")));
    cov.insert("transitions".into(), json!(g("transitions")));
    cov.insert("traces_validated_against_impl".into(), json!(g("validated")));
    cov.insert("evaluations".into(), json!(g("evaluations")));
    cov.insert("distinct_nontrivial".into(), json!(g("nontrivial")));
    cov.insert(
        "rule".into(),
        json!("history tree: 3 base definitions x all sequences of ABI-usable edits up to the depth bound; node at depth n = definition of T and of trait Iface at version n. For every ordered pair (caller node, implementation node) on a common path, incl. i == j: one connection (from_boxed_trait_for_test) checked for negotiated version and method mapping, then every enumerated value of the caller's T x {echo, by_ref, observe, with_cb (closure Fn(T) -> T), with_mut_cb (closure FnMut(T))}, every vector case x vecs, every plain method (legacy / added_k) x 3 arguments; plus breaking re-declarations of the version-0 interface in both roles; plus the object family: for every kind of nested object (trait object / closure / future, in argument / return position, see object_family.kinds) every ordered pair of revisions (bounds x method set x version) connected with AbiConnection::from_raw and judged against the provider/relier model (refused <=> the relier relies on a bound the provider does not promise), then every use of the nested object the relier can express. A state is a distinct (caller, implementation, method, arguments); it is non-trivial when caller and implementation versions differ (i != j), every breaking variant is non-trivial, and a state of the object family is non-trivial when the two revisions differ."),
    );
    cov.insert("history_depth_bound".into(), json!(ctx.max_depth));
    cov.insert("nodes".into(), json!(in_tier.len()));
    cov.insert("history_paths".into(), json!(in_tier.len()));
    cov.insert("bases".into(), json!(spec::BASES.iter().map(|b| b.1).collect::<Vec<_>>()));
    cov.insert("edit_alphabet".into(), json!(spec::STRUCT_EDITS.iter().chain(spec::ENUM_EDITS.iter()).map(|(c, _)| format!("{} = {}", c, spec::edit_label(*c))).collect::<Vec<_>>()));
    cov.insert("ordered_pairs".into(), json!(g("pairs")));
    cov.insert("ordered_pairs_cross_version".into(), json!(g("pairs_cross_version")));
    cov.insert("breaking_variant_connections".into(), json!(g("break_cases")));
    cov.insert("entries".into(), json!(n_entries));
    cov.insert("unrepresentable_cases_excluded".into(), json!(g("unrepresentable_cases")));
    cov.insert("distinct_outcomes".into(), json!(oc.len()));
    cov.insert("outcome_classes".into(), Value::Object(oc));
    cov.insert("model_rules_exercised".into(), Value::Object(sub("rule.")));
    cov.insert("by_ref_argument_passing".into(), Value::Object(sub("byref.")));
    let mut brp = byref_pairs.into_inner().unwrap();
    brp.sort();
    cov.insert("cross_version_pairs_passing_by_reference".into(), json!(brp));
    cov.insert("cross_version_calls_with_argument_passed_by_reference".into(), json!(g("cross_version_calls_with_argument_passed_by_reference")));
    cov.insert("connected_with_methods_missing_in_impl".into(), json!(g("connected_with_methods_missing_in_impl")));
    cov.insert("connected_with_methods_unknown_to_caller".into(), json!(g("connected_with_methods_unknown_to_caller")));
    cov.insert("missing_method_panic_with_usual_wording".into(), json!(g("missing_method_panic_with_usual_wording")));
    cov.insert("cases_skipped_without_connection".into(), json!(g("cases_skipped_without_connection")));
    cov.insert("workers_abandoned_after_connect_panic".into(), json!(g("workers_abandoned_after_connect_panic")));
    // object family
    let mut of = sub("obj.");
    of.insert("kinds".into(), json!(ospec::KINDS.iter().map(|k| format!("{} = {} ({} revisions, {} ordered pairs)", k.id, k.what, ospec::revs(k).len(), ospec::revs(k).len() * ospec::revs(k).len())).collect::<Vec<_>>()));
    of.insert("revision_alphabet".into(), json!("bounds: every subset of {Send, Sync} (futures: of {Send, Sync, Unpin}) x method set of the nested trait {work} | {work, more} (trait objects only) x interface version {0, 1}"));
    of.insert("modules_generated".into(), json!(ospec::KINDS.iter().map(|k| ospec::revs(k).len()).sum::<usize>()));
    cov.insert("object_family".into(), Value::Object(of));
    let assumptions = vec![
        "caller and implementation live in one process and one compilation (from_boxed_trait_for_test with the other definition's ABI_ENTRY), exactly as the repository's own cross-version tests connect two definitions; layouts differing between compilations are C11".to_string(),
        "the history family is 3 bases x the 6-letter (struct) / 4-letter (enum) edit alphabet; Removed (non-ABI) and type conversions are not ABI-usable edits and are C03's subject".to_string(),
        "values: boundary lists per leaf (3 choices quick, 5 thorough), full product while it has at most 128 values, beyond that all assignments with at most two deviating leaves plus the uniform ones; vectors of length 0..3 (thorough: also 17, 64, 65)".to_string(),
        "values using an enum variant newer than the negotiated version are documented to panic at serialization: executed, counted (unrepresentable_cases_excluded), not judged".to_string(),
        "the recording implementation is generated code of this harness; that it returns what the model says (every integer + 1, every string + '!') is checked on every call (machinery error otherwise)".to_string(),
        "a panic for a missing method is judged on: it is a panic, the implementation was not invoked, the message names the method; the exact wording is only counted".to_string(),
        "object family: the nested object sits one level deep (an argument / the return value of a method of Iface, directly or as the Ok value of a returned Result); objects nested in the methods of nested objects, `&dyn Fn + bounds` (not expressible in the macro's syntax) and argument types other than u32 inside the nested methods are not enumerated".to_string(),
        "object family, model: the side that creates the object (argument: caller, return value: implementation) is the provider, the other side the relier; refusal is required exactly when the relier's declaration has a Send/Sync/Unpin bound the provider's lacks; a method only the relier knows may be answered by refusal at connection time or by a panic at the moment it is invoked (both counted); a method only the provider knows must not prevent the connection".to_string(),
        "the tag explained_by is a classification computed with the harness' own encoder/decoder of the serialized form; it decides no verdict, only which known finding a failure is attributed to".to_string(),
    ];
    (cov, assumptions)
}

// ---------------------------------------------------------------------------------------------
// replay (runs in a child process of its own: a failing case may kill the process)

pub fn replay(path: &std::path::Path) -> ! {
    let text = std::fs::read_to_string(path).unwrap_or_else(|e| vcommon::machinery_error(&format!("replay file: {}", e)));
    let doc: Value = vcommon::serde_json::from_str(&text).unwrap_or_else(|e| vcommon::machinery_error(&format!("replay json: {}", e)));
    let case = &doc["case"];
    vcommon::child::install_crash_handler();
    vcommon::child::set_state("replay");
    let ctx = Ctx::new(Tier::Thorough);
    let mut st = Stats::default();
    let mut viol: Vec<Violation> = vec![];
    match case["kind"].as_str() {
        Some("break") => {
            let base = case["base"].as_str().and_then(|s| s.chars().next()).unwrap_or_else(|| vcommon::machinery_error("replay: no base"));
            let kind = case["change"].as_str().unwrap_or("");
            let Some((kind, _)) = spec::BREAKS.iter().find(|b| b.0 == kind) else { vcommon::machinery_error("replay: unknown change") };
            let side = case["changed_side"].as_str() == Some("caller");
            println!("replaying: base {} version 0 against the '{}' variant (changed side: {})", base, kind, if side { "caller" } else { "implementation" });
            let o = check_break(base, kind, side, &mut st);
            if let Some(m) = o.machinery {
                vcommon::machinery_error(&m);
            }
            viol = o.violations;
        }
        Some("object") => {
            let k = ospec::kind(case["object_kind"].as_str().unwrap_or("")).unwrap_or_else(|| vcommon::machinery_error("replay: unknown object kind"));
            let rev = |key: &str| ospec::find_rev(k, case[key].as_str().unwrap_or("")).unwrap_or_else(|| vcommon::machinery_error(&format!("replay: unknown revision {:?}", case[key])));
            let (cr, jr) = (rev("caller"), rev("impl"));
            let num = |key: &str| case[key].as_u64().unwrap_or(0) as u32;
            println!("replaying: object family {} [{}]: caller {{{}}} -> implementation {{{}}}; model: {:?}", k.id, k.what, cr.describe(k.fam), jr.describe(k.fam), ospec::verdict(k, &cr, &jr));
            let mut made = None;
            let o = obj::check_case(k, &cr, &jr, None, &mut made, &obj::OCase { step: "connect", base: 0, x: 0, sel: 0 }, &mut st);
            if let Some(m) = o.machinery {
                vcommon::machinery_error(&m);
            }
            viol.extend(o.violations);
            if case["step"].as_str() == Some("call") {
                if let Some(shim) = made.as_deref() {
                    let the_case = obj::OCase { step: "call", base: num("base"), x: num("x"), sel: num("sel") };
                    if the_case.sel > 1 || (the_case.sel == 1 && !ospec::provider_relier(k, &cr, &jr).1.more) {
                        vcommon::machinery_error("replay: the user of the object has no such method");
                    }
                    let mut none = None;
                    let o = obj::check_case(k, &cr, &jr, Some(shim), &mut none, &the_case, &mut st);
                    if let Some(m) = o.machinery {
                        vcommon::machinery_error(&m);
                    }
                    viol.extend(o.violations);
                } else {
                    println!("no connection: the call cannot be made");
                }
            }
        }
        Some("call") => {
            let find = |key: &str| -> usize {
                let id = case[key].as_str().unwrap_or("");
                ctx.nodes.iter().position(|n| n.id == id).unwrap_or_else(|| vcommon::machinery_error(&format!("replay: unknown node {:?}", id)))
            };
            let (c, j) = (find("caller"), find("impl"));
            if !spec::on_same_path(&ctx.nodes[c], &ctx.nodes[j]) {
                vcommon::machinery_error("replay: the two nodes are not on one history path");
            }
            let args: Vec<NVal> = case["args"].as_array().map(|a| a.iter().map(|x| nval_from_json(x).unwrap_or_else(|| vcommon::machinery_error("replay: bad value"))).collect()).unwrap_or_default();
            let the_case = Case { method: case["method"].as_str().unwrap_or("").to_string(), args, a: case["a"].as_u64().unwrap_or(0) as u32 };
            if the_case.method != "connect" && !spec::methods(ctx.nodes[c].depth).contains(&the_case.method) {
                vcommon::machinery_error("replay: the caller has no such method");
            }
            println!("replaying: caller {} (v{}) -> implementation {} (v{}): {}({}{})", ctx.nodes[c].id, ctx.nodes[c].depth, ctx.nodes[j].id, ctx.nodes[j].depth, the_case.method, render_vals(&the_case.args), if spec::is_scalar_method(&the_case.method) { format!(" {}", the_case.a) } else { String::new() });
            let mut made = None;
            let o = check_case(&ctx, c, j, None, &mut made, &Case { method: "connect".into(), args: vec![], a: 0 }, &mut st);
            if let Some(m) = o.machinery {
                vcommon::machinery_error(&m);
            }
            viol.extend(o.violations);
            if the_case.method != "connect" {
                if let Some(shim) = made.as_deref() {
                    let mut none = None;
                    let o = check_case(&ctx, c, j, Some(shim), &mut none, &the_case, &mut st);
                    if let Some(m) = o.machinery {
                        vcommon::machinery_error(&m);
                    }
                    viol.extend(o.violations);
                } else {
                    println!("no connection: the call cannot be made");
                }
            }
        }
        _ => vcommon::machinery_error("replay: not a C10 case"),
    }
    for v in &viol {
        println!("REPLAY-FAIL oracle={} {}", v.oracle, v.summary);
    }
    if viol.is_empty() {
        println!("replay: the real code agrees with the model ({} oracle evaluations)", st.0.get("evaluations").copied().unwrap_or(0));
    }
    println!("replay: {} violation(s) reproduced", viol.len());
    std::process::exit(if viol.is_empty() { 0 } else { 1 })
}
