//! C10 reference model: what a receiver of one version holds after a sender of another version
//! transmitted a value in the format of the negotiated version; the enumerated values; and a plain
//! encoder / decoder used to classify failures. Derived from the edit list of the history tree
//! (`vabi10fam::spec`), independent of savefile.
#![allow(dead_code)]
use std::collections::BTreeMap;
use vabi10fam::spec::*;

// ---------------------------------------------------------------------------------------------
// reference model

/// What a `receiver` (version k) holds after a `sender` (version n) transmitted `x` in the format
/// of version `m` <= min(n, k): `up_k(down_m(x))`.
///
/// down_m: the serialized form of version m contains exactly the fields that exist at m; a field
/// the sender has removed since is written with its value constructor; fields added after m are
/// dropped. up_k: fields the receiver knows that do not exist at m take their declared default,
/// all others are taken over unchanged; fields the receiver has removed are skipped.
/// Err = the value is not representable at version m (an enum variant newer than m).
pub fn transmit(sender: &Node, receiver: &Node, m: u32, x: &NVal) -> Result<NVal, String> {
    assert!(on_same_path(sender, receiver) && m <= sender.depth && m <= receiver.depth);
    let variant = x.variant.as_deref();
    if let Some(vn) = variant {
        let v = sender.shape.variant(vn).unwrap_or_else(|| panic!("model: sender {} has no variant {}", sender.id, vn));
        if v.from > m {
            return Err(format!("variant {} does not exist in version {}", vn, m));
        }
    }
    let sf = sender.shape.fields_of(variant).unwrap_or_else(|| panic!("model: value does not fit sender {}", sender.id));
    // down_m
    let mut wire: BTreeMap<String, Scalar> = BTreeMap::new();
    for f in sf {
        if !f.on_wire(m) {
            continue;
        }
        let ctor = f.ctor_leaves();
        for (i, (leaf, _)) in f.leaves().into_iter().enumerate() {
            let v = if f.live() { x.f.get(&leaf).cloned().unwrap_or_else(|| panic!("model: value lacks leaf {}", leaf)) } else { ctor[i].clone() };
            wire.insert(leaf, v);
        }
    }
    // up_k
    let rf = receiver.shape.fields_of(variant).unwrap_or_else(|| panic!("model: receiver {} lacks the variant", receiver.id));
    let mut out = NVal::new(variant);
    for f in rf {
        if !f.live() {
            continue;
        }
        let dflt = f.default_leaves();
        for (i, (leaf, _)) in f.leaves().into_iter().enumerate() {
            let v = if f.from <= m { wire.get(&leaf).cloned().unwrap_or_else(|| panic!("model: wire of version {} lacks {}", m, leaf)) } else { dflt[i].clone() };
            out.f.insert(leaf, v);
        }
    }
    Ok(out)
}

/// What an implementation at `node` returns for the observed value `x`: every integer leaf + 1
/// (wrapping in its width), every string with "!" appended - over ITS OWN full field set.
pub fn bump(node: &Node, x: &NVal) -> NVal {
    let fields = node.shape.fields_of(x.variant.as_deref()).expect("model: bump of a value that does not fit");
    let mut out = NVal::new(x.variant.as_deref());
    for f in fields.iter().filter(|f| f.live()) {
        for (leaf, ty) in f.leaves() {
            let v = match (x.f.get(&leaf), ty) {
                (Some(Scalar::U(v)), t) if t.bits() > 0 => Scalar::U((v + 1) & ((1u64 << t.bits()) - 1)),
                (Some(Scalar::S(s)), FTy::Str) => Scalar::S(format!("{}!", s)),
                other => panic!("model: bump: leaf {} is {:?}", leaf, other),
            };
            out.f.insert(leaf, v);
        }
    }
    out
}

/// serialized field names of `T` (for `variant`) at version v - used to tag cases structurally
pub fn wire_fields(node: &Node, variant: Option<&str>, v: u32) -> Vec<String> {
    node.shape.fields_of(variant).map(|fs| fs.iter().filter(|f| f.on_wire(v)).map(|f| f.name.clone()).collect()).unwrap_or_default()
}

// ---------------------------------------------------------------------------------------------
// a plain encoder / decoder of the serialized form (used only to CLASSIFY failures: it predicts
// what the caller would see if a value were written in the format of one version and parsed as
// the format of another, which is the signature of a known defect; it decides no verdict)

fn put_scalar(ty: FTy, v: &Scalar, out: &mut Vec<u8>) {
    match (ty, v) {
        (FTy::U8, Scalar::U(x)) => out.push(*x as u8),
        (FTy::U16, Scalar::U(x)) => out.extend_from_slice(&(*x as u16).to_le_bytes()),
        (FTy::U32, Scalar::U(x)) => out.extend_from_slice(&(*x as u32).to_le_bytes()),
        (FTy::Str, Scalar::S(s)) => {
            out.extend_from_slice(&(s.len() as u64).to_le_bytes());
            out.extend_from_slice(s.as_bytes());
        }
        other => panic!("model: cannot encode {:?}", other),
    }
}
fn get_scalar(ty: FTy, b: &[u8], pos: &mut usize) -> Result<Scalar, String> {
    let mut take = |n: usize| -> Result<&[u8], String> {
        if b.len() - *pos < n {
            return Err("short read".into());
        }
        let s = &b[*pos..*pos + n];
        *pos += n;
        Ok(s)
    };
    Ok(match ty {
        FTy::U8 => Scalar::U(take(1)?[0] as u64),
        FTy::U16 => Scalar::U(u16::from_le_bytes(take(2)?.try_into().unwrap()) as u64),
        FTy::U32 => Scalar::U(u32::from_le_bytes(take(4)?.try_into().unwrap()) as u64),
        FTy::Str => {
            let l = u64::from_le_bytes(take(8)?.try_into().unwrap());
            if l > 1_000_000 {
                return Err("string too large".into());
            }
            Scalar::S(String::from_utf8(take(l as usize)?.to_vec()).map_err(|_| "invalid utf-8".to_string())?)
        }
        FTy::P2 => unreachable!(),
    })
}
fn variant_index(node: &Node, name: &str) -> usize {
    match &node.shape {
        Shape::Enum { variants } => variants.iter().position(|v| v.name == name).expect("model: unknown variant"),
        _ => panic!("model: not an enum"),
    }
}
/// the bytes of `x` (a value of T as defined at `node`) in the format of version `v`
pub fn encode(node: &Node, x: &NVal, v: u32, out: &mut Vec<u8>) {
    if let Some(vn) = &x.variant {
        out.push(variant_index(node, vn) as u8);
    }
    for f in node.shape.fields_of(x.variant.as_deref()).expect("model: encode") {
        if !f.on_wire(v) {
            continue;
        }
        let ctor = f.ctor_leaves();
        for (i, (leaf, ty)) in f.leaves().into_iter().enumerate() {
            let val = if f.live() { x.f.get(&leaf).expect("model: leaf").clone() } else { ctor[i].clone() };
            put_scalar(ty, &val, out);
        }
    }
}
/// parse a T as defined at `node` from bytes in the format of version `v`
pub fn decode(node: &Node, b: &[u8], pos: &mut usize, v: u32) -> Result<NVal, String> {
    let variant: Option<String> = match &node.shape {
        Shape::Struct { .. } => None,
        Shape::Enum { variants } => {
            let idx = match get_scalar(FTy::U8, b, pos)? {
                Scalar::U(i) => i as usize,
                _ => unreachable!(),
            };
            let var = variants.get(idx).ok_or("unknown variant")?;
            if var.from > v {
                return Err("variant not in this version".into());
            }
            Some(var.name.clone())
        }
    };
    let mut out = NVal::new(variant.as_deref());
    for f in node.shape.fields_of(variant.as_deref()).unwrap() {
        let dflt = if f.live() { f.default_leaves() } else { vec![] };
        for (i, (leaf, ty)) in f.leaves().into_iter().enumerate() {
            if f.on_wire(v) {
                let val = get_scalar(ty, b, pos)?;
                if f.live() {
                    out.f.insert(leaf, val);
                }
            } else if f.live() {
                out.f.insert(leaf, dflt[i].clone());
            }
        }
    }
    Ok(out)
}
/// What the caller (definition `reader`) would end up with if the values `r` (of `writer`'s type)
/// were WRITTEN in the format of version `written_as` but PARSED as the format of version
/// `parsed_as`. `as_vec`: the values travel as one `Vec<T>` (length prefix), else `r` has one element.
pub fn cross_format(writer: &Node, reader: &Node, written_as: u32, parsed_as: u32, r: &[NVal], as_vec: bool) -> Result<Vec<NVal>, String> {
    let mut bytes = vec![];
    if as_vec {
        bytes.extend_from_slice(&(r.len() as u64).to_le_bytes());
    }
    for x in r {
        encode(writer, x, written_as, &mut bytes);
    }
    let mut pos = 0;
    let n = if as_vec {
        if bytes.len() < 8 {
            return Err("short read".into());
        }
        pos = 8;
        u64::from_le_bytes(bytes[0..8].try_into().unwrap()) as usize
    } else {
        1
    };
    let mut out = vec![];
    for _ in 0..n {
        out.push(decode(reader, &bytes, &mut pos, parsed_as)?);
    }
    Ok(out)
}

pub const LONG: &str = "long string that spills the 64 byte stack buffer of the argument block: \u{e5}\u{e4}\u{f6} \u{20ac}";

fn leaf_choices(ty: FTy, k: usize, thorough: bool) -> Vec<Scalar> {
    let k = k as u64;
    let mut v = match ty {
        FTy::U8 => vec![Scalar::U(0x11 + k), Scalar::U(0), Scalar::U(0xff)],
        FTy::U16 => vec![Scalar::U(0x0201 + 0x0101 * k), Scalar::U(0), Scalar::U(0xffff)],
        FTy::U32 => vec![Scalar::U((0x04030201u64 + 0x10101010 * k) & 0xffff_ffff), Scalar::U(0), Scalar::U(0xffff_ffff)],
        FTy::Str => vec![Scalar::S(format!("s{}", k)), Scalar::S(String::new()), Scalar::S(LONG.to_string())],
        FTy::P2 => unreachable!(),
    };
    if thorough {
        v.extend(match ty {
            FTy::U8 => vec![Scalar::U(1), Scalar::U(0x80)],
            FTy::U16 => vec![Scalar::U(1), Scalar::U(0x8000)],
            FTy::U32 => vec![Scalar::U(1), Scalar::U(0x8000_0000)],
            // around the 64 byte stack buffer of the argument block (4 byte version + 8 byte length + text)
            FTy::Str => vec![Scalar::S("x".repeat(51)), Scalar::S("y".repeat(53))],
            FTy::P2 => unreachable!(),
        });
    }
    v
}

fn products(leaves: &[(String, FTy)], variant: Option<&str>, thorough: bool, out: &mut Vec<NVal>) {
    let choices: Vec<Vec<Scalar>> = leaves.iter().enumerate().map(|(k, (_, t))| leaf_choices(*t, k, thorough)).collect();
    let n = leaves.len();
    let nc = if thorough { 5 } else { 3 };
    // full product while it has at most 128 values; beyond that every assignment in which at
    // most two leaves deviate from their first choice, plus the uniform assignments
    let full = (nc as u64).checked_pow(n as u32).map(|x| x <= 128).unwrap_or(false);
    let mut idx = vec![0usize; n];
    loop {
        let deviating = idx.iter().filter(|i| **i != 0).count();
        let uniform = n > 0 && idx.iter().all(|i| *i == idx[0]);
        if full || deviating <= 2 || uniform {
            let mut v = NVal::new(variant);
            for (j, (leaf, _)) in leaves.iter().enumerate() {
                v.f.insert(leaf.clone(), choices[j][idx[j]].clone());
            }
            out.push(v);
        }
        let mut p = 0;
        loop {
            if p == n {
                return;
            }
            idx[p] += 1;
            if idx[p] < nc {
                break;
            }
            idx[p] = 0;
            p += 1;
        }
    }
}

/// the enumerated values of `T` as defined at `node`
pub fn values(node: &Node, thorough: bool) -> Vec<NVal> {
    let mut out = vec![];
    match &node.shape {
        Shape::Struct { fields, .. } => {
            let leaves: Vec<(String, FTy)> = fields.iter().filter(|f| f.live()).flat_map(|f| f.leaves()).collect();
            products(&leaves, None, thorough, &mut out);
        }
        Shape::Enum { variants } => {
            for v in variants {
                let leaves: Vec<(String, FTy)> = v.fields.iter().filter(|f| f.live()).flat_map(|f| f.leaves()).collect();
                products(&leaves, Some(&v.name), thorough, &mut out);
            }
        }
    }
    out
}

/// argument lists for `vecs`: the empty vector, every single value, every adjacent pair, one
/// triple; thorough: also vectors of 17, 64 and 65 elements
pub fn vec_cases(vals: &[NVal], thorough: bool) -> Vec<Vec<NVal>> {
    let mut out = vec![vec![]];
    let n = vals.len();
    for i in 0..n {
        out.push(vec![vals[i].clone()]);
    }
    if n >= 2 {
        for i in 0..n {
            out.push(vec![vals[i].clone(), vals[(i + 1) % n].clone()]);
        }
        out.push(vec![vals[n - 1].clone(), vals[0].clone(), vals[n / 2].clone()]);
    }
    if thorough && n >= 1 {
        // longer vectors (bulk paths copy in chunks): the values in rotation
        for len in [17usize, 64, 65] {
            out.push((0..len).map(|i| vals[(i * 7 + len) % n].clone()).collect());
        }
    }
    out
}

