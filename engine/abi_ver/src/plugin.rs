//! C11 layer 3 (thorough tier): the implementation side is a SEPARATELY COMPILED cdylib, built at
//! run time by another compiler (`cargo +nightly`) with `-Zrandomize-layout -Zlayout-seed=<s>`
//! for s in 0..4 and loaded with `AbiConnection::load_shared_library`. The plugin implements the
//! probe interface of `vabi11fam::spec::probe_methods()`: every method returns a rendering of the
//! argument it observed, and `layout_of` reports the layout the plugin's compiler chose.
//!
//! Oracles: the plugin observes exactly the value sent, for every argument kind; an argument is
//! passed by reference only if the layout measured in the plugin equals the one measured in the
//! host.
use crate::c11::{lv_from_json, lv_json, Stats};
use std::io::Write;
use std::path::{Path, PathBuf};
use vabi11fam::spec::{self, Pass, ProbeMethod};
use vabi11fam::support::{ProbeConn, LV};
use vcommon::serde_json::{json, Map, Value};
use vcommon::Violation;

pub const SEEDS: [u32; 4] = [0, 1, 2, 3];

fn plugin_src() -> PathBuf {
    vcommon::verif_root().join(".work").join("vabi10-plugin-src")
}
fn plugin_target(seed: u32) -> PathBuf {
    vcommon::verif_root().join(".work").join("vabi10-plugin-target").join(format!("seed{}", seed))
}

fn write_if_changed(p: &Path, text: &str) -> Result<(), String> {
    if std::fs::read_to_string(p).map(|t| t == text).unwrap_or(false) {
        return Ok(());
    }
    std::fs::write(p, text).map_err(|e| format!("cannot write {}: {}", p.display(), e))
}

/// write the plugin crate (sources are the very text the host compiled)
fn write_sources() -> Result<PathBuf, String> {
    let dir = plugin_src();
    std::fs::create_dir_all(dir.join("src")).map_err(|e| format!("cannot create {}: {}", dir.display(), e))?;
    let manifest = "[package]\nname = \"vabi10-plugin\"\nversion = \"0.1.0\"\nedition = \"2021\"\n\n[lib]\ncrate-type = [\"cdylib\"]\n\n[dependencies]\nsavefile = { path = \"/repo/savefile\", features = [\"derive\"], default-features = false }\nsavefile-abi = { path = \"/repo/savefile-abi\" }\nsavefile-derive = { path = \"/repo/savefile-derive\" }\n\n[profile.dev]\ndebug = false\nincremental = false\n\n[workspace]\n";
    write_if_changed(&dir.join("Cargo.toml"), manifest)?;
    let lib = format!(
        "#![allow(clippy::all, non_camel_case_types, dead_code, unused_imports, unused_variables)]\npub mod support {{\n{}\n}}\nuse savefile::prelude::*;\nuse savefile_derive::{{savefile_abi_export, savefile_abi_exportable, Savefile}};\nuse support::*;\n{}\n{}\n",
        vabi11fam::PLUGIN_SUPPORT_RS,
        vabi11fam::PLUGIN_PROBE_RS,
        vabi11fam::PLUGIN_EXPORTS_RS
    );
    write_if_changed(&dir.join("src").join("lib.rs"), &lib)?;
    if !dir.join("Cargo.lock").exists() {
        std::fs::copy("/repo/Cargo.lock", dir.join("Cargo.lock")).map_err(|e| format!("cannot copy /repo/Cargo.lock: {}", e))?;
    }
    Ok(dir)
}

/// build the plugin for one layout seed; returns the path of the shared library and how it was built
pub fn build_plugin(seed: u32) -> Result<(String, String), String> {
    let dir = write_sources()?;
    let target = plugin_target(seed);
    std::fs::create_dir_all(&target).map_err(|e| format!("cannot create {}: {}", target.display(), e))?;
    let flags = format!("-Zrandomize-layout -Zlayout-seed={}", seed);
    let attempt = |nightly: bool| -> Result<String, String> {
        let mut cmd = std::process::Command::new("cargo");
        if nightly {
            cmd.arg("+nightly");
        } else {
            cmd.env("RUSTC_BOOTSTRAP", "1");
        }
        let out = cmd
            .current_dir(&dir)
            .args(["build", "--offline", "-q", "-j", "6", "--target-dir"])
            .arg(&target)
            .env_remove("CARGO_TARGET_DIR")
            .env_remove("CARGO_ENCODED_RUSTFLAGS")
            .env_remove("RUSTC_WRAPPER")
            .env("RUSTFLAGS", &flags)
            .output()
            .map_err(|e| format!("cannot run cargo: {}", e))?;
        if !out.status.success() {
            let e = String::from_utf8_lossy(&out.stderr);
            let errs: Vec<&str> = e.lines().filter(|l| l.starts_with("error")).take(4).collect();
            return Err(format!("cargo build failed: {} ...{}", errs.join(" | "), e.chars().rev().take(300).collect::<String>().chars().rev().collect::<String>().replace('\n', " ")));
        }
        let so = target.join("debug").join("libvabi10_plugin.so");
        if !so.exists() {
            return Err(format!("{} not produced", so.display()));
        }
        Ok(so.to_string_lossy().to_string())
    };
    match attempt(true) {
        Ok(so) => Ok((so, format!("cargo +nightly, RUSTFLAGS={:?}", flags))),
        Err(e1) => match attempt(false) {
            Ok(so) => Ok((so, format!("stable toolchain with RUSTC_BOOTSTRAP=1 (nightly build failed: {}), RUSTFLAGS={:?}", e1, flags))),
            Err(e2) => Err(format!("nightly: {} ; stable+RUSTC_BOOTSTRAP: {}", e1, e2)),
        },
    }
}

fn traits_of(ms: &[ProbeMethod]) -> Vec<String> {
    let mut t: Vec<String> = ms.iter().map(|m| m.trait_name.clone()).collect();
    t.dedup();
    t
}

fn plugin_tags(seed: u32, m: &ProbeMethod, by_ref: bool, same_layout: bool) -> std::collections::BTreeMap<String, String> {
    vcommon::tags(&[
        ("layer", "plugin".to_string()),
        ("seed", seed.to_string()),
        ("argument_class", m.class.replace(' ', "_")),
        ("passed", if by_ref { "by_reference" } else { "serialized" }.to_string()),
        ("layout_in_plugin", if same_layout { "identical" } else { "different" }.to_string()),
    ])
}

/// one method of the probe interface against a loaded plugin
fn check_method(seed: u32, m: &ProbeMethod, conn: &dyn ProbeConn, k: &dyn ProbeConn, only: Option<&LV>, st: &mut Stats, viol: &mut Vec<Violation>) -> Result<(), String> {
    let host_layout = vabi11fam::gen::probe::layout_of(&m.pod);
    let plugin_layout = vcommon::guarded(|| k.call("layout_of", &LV::S(m.pod.clone()))).map_err(|p| format!("layout_of panicked: {}", p))?;
    if plugin_layout == "unknown type" || host_layout == "unknown type" {
        return Err(format!("layout_of does not know {}", m.pod));
    }
    let same = host_layout == plugin_layout;
    let by_ref = matches!(m.pass, Pass::Ref) && vcommon::guarded(|| conn.by_ref(&m.name)).map_err(|p| format!("get_arg_passable_by_ref panicked: {}", p))?;
    st.add("plugin_methods", 1);
    st.add("states", 1);
    st.add("evaluations", 1);
    st.add(&format!("plugin.{}.{}.{}", m.class, if same { "layout identical" } else { "layout differs" }, if by_ref { "by reference" } else { "serialized" }), 1);
    if !same {
        st.add("plugin_argument_types_laid_out_differently", 1);
    }
    if by_ref {
        st.add("plugin_methods_by_reference", 1);
        st.add("nontrivial", 1);
    }
    let case = |v: Option<&LV>| json!({"layer": "plugin", "seed": seed, "trait": m.trait_name, "method": m.name, "argument": m.arg(), "value": v.map(lv_json).unwrap_or(Value::Null)});
    if by_ref && !same {
        viol.push(Violation {
            oracle: "by_reference_implies_identical_layout".into(),
            tags: plugin_tags(seed, m, by_ref, same),
            summary: format!("layout seed {}: `{}` is passed by reference to the separately compiled implementation although it is laid out differently there: host {} ; plugin {}", seed, m.arg(), host_layout, plugin_layout),
            case: case(None),
        });
    }
    let vals = match only {
        Some(v) => vec![v.clone()],
        None => vabi11fam::gen::probe_values(&m.pod),
    };
    if vals.is_empty() {
        return Err(format!("no values for {}", m.pod));
    }
    for v in vals {
        st.add("plugin_calls", 1);
        st.add("transitions", 1);
        st.add("evaluations", 1);
        let got = vcommon::guarded(|| conn.call(&m.name, &v));
        let want = v.render();
        if matches!(&got, Ok(g) if *g == want) {
            st.add(if by_ref { "oc.plugin.by_reference_value_as_sent" } else { "oc.plugin.serialized_value_as_sent" }, 1);
            continue;
        }
        st.add(if by_ref { "oc.plugin.by_reference_value_differs" } else { "oc.plugin.serialized_value_differs" }, 1);
        viol.push(Violation {
            oracle: "plugin_observed_equals_sent".into(),
            tags: plugin_tags(seed, m, by_ref, same),
            summary: format!("layout seed {}: {}({}) sent {} ({}), the separately compiled implementation observed {:?}", seed, m.name, m.arg(), want, if by_ref { "by reference" } else { "serialized" }, got),
            case: case(Some(&v)),
        });
    }
    Ok(())
}

/// child process: load the plugin of one seed, sweep the probe interface
pub fn child(so: &str, seed: u32) -> ! {
    vcommon::child::install_crash_handler();
    let ms = spec::probe_methods();
    let mut st = Stats::default();
    let load = |t: &str| -> Result<Box<dyn ProbeConn>, String> {
        match vcommon::guarded(|| vabi11fam::gen::load_probe(t, so)) {
            Ok(Some(Ok(c))) => Ok(c),
            Ok(Some(Err(e))) => Err(format!("load_shared_library({}) for {}: {}", so, t, e)),
            Ok(None) => Err(format!("no probe trait {}", t)),
            Err(p) => Err(format!("load_shared_library panicked for {}: {}", t, p)),
        }
    };
    let k = match load("ProbeK") {
        Ok(k) => k,
        Err(e) => {
            println!("E {}", e);
            std::process::exit(0);
        }
    };
    let mut sampled = std::collections::BTreeSet::new();
    for t in traits_of(&ms) {
        st.add("transitions", 1);
        let conn = match load(&t) {
            Ok(c) => c,
            Err(e) => {
                println!("E {}", e);
                continue;
            }
        };
        for (i, m) in ms.iter().enumerate().filter(|(_, m)| m.trait_name == t) {
            vcommon::child::set_state(&format!("seed={} method={}", seed, i));
            let mut viol = vec![];
            if let Err(e) = check_method(seed, m, conn.as_ref(), k.as_ref(), None, &mut st, &mut viol) {
                println!("E {}", e);
            }
            for v in &viol {
                println!("F {}", json!({"oracle": v.oracle, "tags": v.tags, "summary": v.summary, "case": v.case}));
            }
            if sampled.insert(m.class) {
                println!("X {}", json!({"layer": "plugin", "seed": seed, "method": format!("{}::{}({})", m.trait_name, m.name, m.arg()), "passed_by_reference": matches!(m.pass, Pass::Ref) && conn.by_ref(&m.name),
                    "layout_identical_in_plugin": vabi11fam::gen::probe::layout_of(&m.pod) == k.call("layout_of", &LV::S(m.pod.clone()))}));
            }
        }
    }
    println!("T {}", json!(st.0));
    let _ = std::io::stdout().lock().flush();
    std::process::exit(0)
}

pub fn run_layer3(run: &mut vcommon::Run, stats: &mut Stats) -> Value {
    let started = std::time::Instant::now();
    // the four builds run side by side
    let builds: Vec<(u32, Result<(String, String), String>)> = std::thread::scope(|s| {
        let hs: Vec<_> = SEEDS.iter().map(|seed| s.spawn(move || (*seed, build_plugin(*seed)))).collect();
        hs.into_iter().map(|h| h.join().unwrap_or((u32::MAX, Err("build thread panicked".into())))).collect()
    });
    let build_s = started.elapsed().as_secs_f64();
    let mut report = Map::new();
    let mut per_seed = Map::new();
    let mut how = String::new();
    let exe = std::env::current_exe().unwrap_or_else(|e| vcommon::machinery_error(&format!("current_exe: {}", e)));
    let mut ran = 0;
    for (seed, b) in builds {
        let (so, built) = match b {
            Ok(x) => x,
            Err(e) => {
                per_seed.insert(seed.to_string(), json!({"skipped": format!("the plugin could not be built offline: {}", e)}));
                continue;
            }
        };
        how = built;
        let out = std::process::Command::new(&exe)
            .args(["C11", "--plugin-child", &so, &seed.to_string()])
            .output()
            .unwrap_or_else(|e| vcommon::machinery_error(&format!("cannot spawn plugin child: {}", e)));
        let text = String::from_utf8_lossy(&out.stdout).to_string();
        let mut local = Stats::default();
        let mut samples = vec![];
        for line in text.lines() {
            if let Some(j) = line.strip_prefix("F ") {
                if let Ok(v) = vcommon::serde_json::from_str::<Value>(j) {
                    run.violation(Violation {
                        oracle: v["oracle"].as_str().unwrap_or("").to_string(),
                        tags: v["tags"].as_object().map(|m| m.iter().map(|(k, v)| (k.clone(), v.as_str().unwrap_or("").to_string())).collect()).unwrap_or_default(),
                        summary: v["summary"].as_str().unwrap_or("").to_string(),
                        case: v["case"].clone(),
                    });
                }
            } else if let Some(j) = line.strip_prefix("T ") {
                if let Ok(Value::Object(m)) = vcommon::serde_json::from_str::<Value>(j) {
                    for (k, v) in m {
                        local.add(&k, v.as_u64().unwrap_or(0));
                    }
                }
            } else if let Some(j) = line.strip_prefix("X ") {
                if let Ok(v) = vcommon::serde_json::from_str::<Value>(j) {
                    samples.push(v);
                }
            } else if let Some(m) = line.strip_prefix("E ") {
                vcommon::machinery_error(&format!("layer 3, seed {}: {}", seed, m));
            }
        }
        if !out.status.success() {
            let err = String::from_utf8_lossy(&out.stderr);
            let state = err.rsplit("CRASH-STATE ").next().filter(|_| err.contains("CRASH-STATE ")).map(|s| s.lines().next().unwrap_or("").to_string()).unwrap_or_default();
            let idx: Option<usize> = state.split_whitespace().find_map(|w| w.strip_prefix("method=")).and_then(|x| x.parse().ok());
            let ms = spec::probe_methods();
            let m = idx.and_then(|i| ms.get(i));
            run.violation(Violation {
                oracle: "process_abort".into(),
                tags: vcommon::tags(&[("layer", "plugin".into()), ("seed", seed.to_string()), ("argument_class", m.map(|m| m.class.replace(' ', "_")).unwrap_or_default())]),
                summary: format!("layout seed {}: the process died ({:?}) while calling {} of the separately compiled implementation", seed, out.status, m.map(|m| format!("{}({})", m.name, m.arg())).unwrap_or_else(|| "?".into())),
                case: json!({"layer": "plugin", "seed": seed, "trait": m.map(|m| m.trait_name.clone()), "method": m.map(|m| m.name.clone()), "value": Value::Null}),
            });
            run.exhaustive = false;
        }
        ran += 1;
        let classes: Map<String, Value> = local.0.iter().filter(|(k, _)| k.starts_with("plugin.")).map(|(k, v)| (k["plugin.".len()..].to_string(), json!(v))).collect();
        per_seed.insert(
            seed.to_string(),
            json!({"methods": local.0.get("plugin_methods"), "calls": local.0.get("plugin_calls"), "methods_passed_by_reference": local.0.get("plugin_methods_by_reference").copied().unwrap_or(0),
                   "argument_types_laid_out_differently_than_in_host": local.0.get("plugin_argument_types_laid_out_differently").copied().unwrap_or(0), "methods_by_class_layout_and_passing": classes, "samples": samples}),
        );
        for (k, v) in local.0 {
            if !k.starts_with("plugin.") {
                stats.add(&k, v);
            }
        }
    }
    if ran > 0 && stats.0.get("plugin_argument_types_laid_out_differently").copied().unwrap_or(0) == 0 {
        vcommon::machinery_error("layer 3 is vacuous: no type is laid out differently in any of the randomised plugin builds");
    }
    if ran < SEEDS.len() {
        run.notes.push(format!("C11 layer 3: only {} of {} plugin builds could be made and run (see layer3_separately_compiled_plugin)", ran, SEEDS.len()));
    }
    report.insert("seeds".into(), json!(SEEDS));
    report.insert("seeds_run".into(), json!(ran));
    report.insert("built_with".into(), json!(how));
    report.insert("build_wall_s".into(), json!((build_s * 10.0).round() / 10.0));
    report.insert("probe_methods".into(), json!(spec::probe_methods().len()));
    report.insert("per_seed".into(), Value::Object(per_seed));
    Value::Object(report)
}

pub fn replay(case: &Value) -> ! {
    let seed = case["seed"].as_u64().unwrap_or(0) as u32;
    let ms = spec::probe_methods();
    let Some(m) = ms.iter().find(|m| Some(m.name.as_str()) == case["method"].as_str()) else { vcommon::machinery_error("replay: unknown probe method") };
    let value = if case["value"].is_null() { None } else { Some(lv_from_json(&case["value"]).unwrap_or_else(|| vcommon::machinery_error("replay: bad value"))) };
    println!("replaying layer 3: layout seed {}, {}::{}({})", seed, m.trait_name, m.name, m.arg());
    let (so, how) = build_plugin(seed).unwrap_or_else(|e| vcommon::machinery_error(&format!("the plugin cannot be built: {}", e)));
    println!("  plugin built with {}", how);
    let load = |t: &str| -> Box<dyn ProbeConn> {
        match vabi11fam::gen::load_probe(t, &so) {
            Some(Ok(c)) => c,
            other => vcommon::machinery_error(&format!("cannot load {}: {:?}", t, other.map(|r| r.err()))),
        }
    };
    let (k, conn) = (load("ProbeK"), load(&m.trait_name));
    let mut st = Stats::default();
    let mut viol = vec![];
    if let Err(e) = check_method(seed, m, conn.as_ref(), k.as_ref(), value.as_ref(), &mut st, &mut viol) {
        vcommon::machinery_error(&e);
    }
    for v in &viol {
        println!("REPLAY-FAIL oracle={} {}", v.oracle, v.summary);
    }
    if viol.is_empty() {
        println!("replay: no oracle fails ({} evaluations)", st.0.get("evaluations").copied().unwrap_or(0));
    }
    println!("replay: {} violation(s) reproduced", viol.len());
    std::process::exit(if viol.is_empty() { 0 } else { 1 })
}
