//! C11 "by-reference argument passing only between provably identical layouts".
//!
//! Layer 1 (schema level): for ALL ordered pairs (A, B) of the generated definition family:
//!   `schema(A).layout_compatible(schema(B))`  =>  the MEASURED layouts are identical (size,
//!   alignment, every field offset, tag width, the bytes of every variant's tag in memory,
//!   collection word order, recursively, nothing unspecified)  =>  for every enumerated value of A
//!   its memory read as a B equals `deserialize_B(serialize_A(a))`.
//!   Plus: the schema records exactly the measured layout, and every single mutation of a
//!   layout annotation of a real schema makes `layout_compatible` false in both directions.
//! Layer 2 (in-process call): `IA { fn f(&self, x: &A) }` connected to an implementation of
//!   `IB { fn f(&self, x: &B) }` for all pairs with the same serialized structure: by-reference
//!   passing is chosen only between identical measured layouts, and the implementation observes
//!   the value the serialized path gives.
//! Layer 3 (thorough): see `plugin.rs`.
use savefile::{Field, Schema, SchemaArray, SchemaEnum, SchemaPrimitive, SchemaStruct, Variant, VecOrStringLayout};
use std::collections::{BTreeMap, HashSet};
use std::io::Write;
use vabi11fam::spec::{self, Def, TypeDef};
use vabi11fam::support::{take_observed, Entry as Reg, Facts, LV};
use vcommon::serde_json::{json, Map, Value};
use vcommon::{Run, Tier, Violation};

pub struct Ctx {
    pub fam: Vec<TypeDef>,
    pub reg: Vec<Reg>,
    pub active: Vec<usize>,
    pub schemas: Vec<Schema>,
    pub facts: Vec<Facts>,
    pub call_pairs: Vec<(usize, usize)>,
}
impl Ctx {
    pub fn new(tier: Tier) -> Ctx {
        let fam = spec::family();
        let reg = vabi11fam::gen::registry();
        if fam.len() != reg.len() || fam.iter().zip(reg.iter()).any(|(f, r)| f.name != r.name) {
            vcommon::machinery_error("C11: the generated registry does not match the family description");
        }
        let active: Vec<usize> = (0..fam.len()).filter(|i| tier == Tier::Thorough || fam[*i].quick).collect();
        let schemas = reg.iter().map(|r| (r.schema)()).collect();
        let facts = reg.iter().map(|r| (r.facts)()).collect();
        let act: HashSet<usize> = active.iter().copied().collect();
        let call_pairs = spec::call_pairs(&fam).into_iter().filter(|(a, b)| act.contains(a) && act.contains(b)).collect();
        Ctx { fam, reg, active, schemas, facts, call_pairs }
    }
    pub fn index(&self, name: &str) -> Option<usize> {
        self.fam.iter().position(|d| d.name == name)
    }
}

#[derive(Clone, Debug)]
pub enum Entry {
    /// layer 1: type a against every active b; binding and mutations of a
    Row(usize),
    /// layer 2: caller type a against every implementation type of its signature class
    Calls(usize),
}
pub fn entries(ctx: &Ctx) -> Vec<Entry> {
    let mut v: Vec<Entry> = ctx.active.iter().map(|a| Entry::Row(*a)).collect();
    let mut callers: Vec<usize> = ctx.call_pairs.iter().map(|p| p.0).collect();
    callers.dedup();
    v.extend(callers.into_iter().map(Entry::Calls));
    v
}

// ---------------------------------------------------------------------------------------------
// JSON

pub fn lv_json(v: &LV) -> Value {
    match v {
        LV::U(x) => json!({"U": x}),
        LV::B(b) => json!({"B": b}),
        LV::S(s) => json!({"S": s}),
        LV::Rec(r) => json!({"Rec": r.iter().map(lv_json).collect::<Vec<_>>()}),
        LV::Var(i, r) => json!({"Var": [json!(i), Value::Array(r.iter().map(lv_json).collect())]}),
        LV::List(r) => json!({"List": r.iter().map(lv_json).collect::<Vec<_>>()}),
    }
}
pub fn lv_from_json(v: &Value) -> Option<LV> {
    let o = v.as_object()?;
    let (k, x) = o.iter().next()?;
    let list = |x: &Value| -> Option<Vec<LV>> { x.as_array()?.iter().map(lv_from_json).collect() };
    Some(match k.as_str() {
        "U" => LV::U(x.as_u64()?),
        "B" => LV::B(x.as_bool()?),
        "S" => LV::S(x.as_str()?.to_string()),
        "Rec" => LV::Rec(list(x)?),
        "List" => LV::List(list(x)?),
        "Var" => LV::Var(x.get(0)?.as_u64()? as u32, list(x.get(1)?)?),
        _ => return None,
    })
}

fn describe(d: &TypeDef) -> String {
    match &d.def {
        Def::Alias(t) => t.rust(),
        Def::Struct { repr_c, align8, fields } => format!("{}struct {{ {} }}", if *align8 { "#[repr(C, align(8))] " } else if *repr_c { "#[repr(C)] " } else { "" }, fields.iter().map(|f| f.rust()).collect::<Vec<_>>().join(", ")),
        Def::Tuple { repr_c, fields, ignored } => format!("{}struct({})", if *repr_c { "#[repr(C)] " } else { "" }, fields.iter().enumerate().map(|(i, f)| format!("{}{}", if i == *ignored { "#[savefile_ignore] " } else { "" }, f.rust())).collect::<Vec<_>>().join(", ")),
        Def::Enum { repr, variants } => format!(
            "{} enum {{ {} }}",
            repr.attr(),
            variants
                .iter()
                .map(|v| {
                    let fl = v.fields.iter().enumerate().map(|(i, f)| format!("{}{}", if Some(i) == v.ignored { "#[savefile_ignore] " } else { "" }, f.rust())).collect::<Vec<_>>().join(", ");
                    format!("{}{}{}", v.name, if v.fields.is_empty() { String::new() } else { format!("({})", fl) }, v.discr.map(|x| format!(" = {}", x)).unwrap_or_default())
                })
                .collect::<Vec<_>>()
                .join(", ")
        ),
    }
}

/// does the definition have a `#[savefile_ignore]`d field?
fn has_ignored_field(d: &TypeDef) -> bool {
    match &d.def {
        Def::Tuple { .. } => true,
        Def::Enum { variants, .. } => variants.iter().any(|v| v.ignored.is_some()),
        _ => false,
    }
}

/// structural features of one definition (for known-findings predicates): does it (or a type it
/// contains) have explicit discriminants that differ from the variant positions?
fn has_permuted_discriminants(fam: &[TypeDef], d: &TypeDef) -> bool {
    let ty = |t: &spec::Ty| match t {
        spec::Ty::Named(n) => has_permuted_discriminants(fam, fam.iter().find(|x| &x.name == n).unwrap()),
        _ => false,
    };
    match &d.def {
        Def::Alias(t) => ty(t),
        Def::Struct { fields, .. } | Def::Tuple { fields, .. } => fields.iter().any(ty),
        Def::Enum { variants, .. } => variants.iter().enumerate().any(|(i, v)| v.discr.map(|x| x != i as u32).unwrap_or(false)) || variants.iter().any(|v| v.fields.iter().any(ty)),
    }
}

fn pair_tags(ctx: &Ctx, a: usize, b: usize, layer: &str, diff_kind: &str) -> BTreeMap<String, String> {
    let perm = has_permuted_discriminants(&ctx.fam, &ctx.fam[a]) || has_permuted_discriminants(&ctx.fam, &ctx.fam[b]);
    vcommon::tags(&[
        ("layer", layer.to_string()),
        ("difference", diff_kind.to_string()),
        ("explicit_discriminants_differ_from_variant_positions", if perm { "yes" } else { "no" }.to_string()),
        ("same_definition", if a == b { "yes" } else { "no" }.to_string()),
        ("ignored_field", if has_ignored_field(&ctx.fam[a]) || has_ignored_field(&ctx.fam[b]) { "yes" } else { "no" }.to_string()),
    ])
}

// ---------------------------------------------------------------------------------------------
// rebuilding a schema from the public parts of the real one + the measured facts, optionally
// with ONE layout annotation changed

#[derive(Clone, Copy, PartialEq, Eq, Debug)]
pub enum MutKind {
    /// another concrete value
    Change,
    /// "not known" (None / Unknown / no explicit repr)
    Unknown,
}
pub struct Mutator {
    pub target: Option<(usize, MutKind)>,
    pub counter: usize,
    pub applied: Option<String>,
}
impl Mutator {
    pub fn none() -> Mutator {
        Mutator { target: None, counter: 0, applied: None }
    }
    fn hit(&mut self, what: &str) -> Option<MutKind> {
        let here = self.counter;
        self.counter += 1;
        match self.target {
            Some((t, k)) if t == here => {
                self.applied = Some(what.to_string());
                Some(k)
            }
            _ => None,
        }
    }
    fn usize_site(&mut self, v: usize, what: &str, double: bool) -> Option<usize> {
        match self.hit(what) {
            None => Some(v),
            Some(MutKind::Change) => Some(if double { (v * 2).max(2) } else { v + 1 }),
            Some(MutKind::Unknown) => None,
        }
    }
}

fn other_layout(l: VecOrStringLayout) -> VecOrStringLayout {
    if l == VecOrStringLayout::DataCapacityLength {
        VecOrStringLayout::DataLengthCapacity
    } else {
        VecOrStringLayout::DataCapacityLength
    }
}

pub fn rebuild(s: &Schema, f: &Facts, m: &mut Mutator, path: &str) -> Result<Schema, String> {
    let fields = |sf: &[Field], ff: &[(usize, Facts)], m: &mut Mutator, path: &str, offsets_known: bool| -> Result<Vec<Field>, String> {
        if sf.len() != ff.len() {
            return Err(format!("{}: schema has {} fields, {} measured", path, sf.len(), ff.len()));
        }
        let mut out = vec![];
        for (i, (x, (off, xf))) in sf.iter().zip(ff.iter()).enumerate() {
            let p = format!("{}.{}", path, i);
            let off = if offsets_known { m.usize_site(*off, &format!("{} offset", p), false) } else { None };
            let v = rebuild(&x.value, xf, m, &p)?;
            out.push(unsafe { Field::unsafe_new(x.name.clone(), Box::new(v), off) });
        }
        Ok(out)
    };
    match (s, f) {
        (Schema::Struct(ss), Facts::Struct { size, align, fields: ff }) => {
            let size = m.usize_site(*size, &format!("{} size", path), false);
            let align = m.usize_site(*align, &format!("{} alignment", path), true);
            let fl = fields(&ss.fields, ff, m, path, true)?;
            Ok(Schema::Struct(SchemaStruct::new_unsafe(ss.dbg_name.clone(), fl, size, align)))
        }
        (Schema::Enum(se), Facts::Enum { size, align, tag_width, variants }) => {
            if se.variants.len() != variants.len() {
                return Err(format!("{}: schema has {} variants, {} measured", path, se.variants.len(), variants.len()));
            }
            // The schema may be more conservative than the measurement: "no explicit repr" and
            // unknown field offsets are legitimate answers. Which of the forms the real node has
            // is found by comparing candidates with it (its annotations are private).
            let build = |explicit0: bool, offsets: bool, m: &mut Mutator| -> Result<Schema, String> {
                let size = m.usize_site(*size, &format!("{} size", path), false);
                let align = m.usize_site(*align, &format!("{} alignment", path), true);
                let mut explicit = explicit0;
                if explicit && m.hit(&format!("{} has_explicit_repr", path)).is_some() {
                    explicit = false;
                }
                let dsize = match m.hit(&format!("{} discriminant_size", path)) {
                    None => se.discriminant_size,
                    Some(_) => match se.discriminant_size {
                        1 => 2,
                        2 => 4,
                        _ => 1,
                    },
                };
                let mut vs = vec![];
                for (i, (v, (_tag, vf))) in se.variants.iter().zip(variants.iter()).enumerate() {
                    let p = format!("{}#{}", path, i);
                    let d = match m.hit(&format!("{} serialized discriminant", p)) {
                        None => v.discriminant,
                        Some(_) => v.discriminant.wrapping_add(1),
                    };
                    let fl = fields(&v.fields, vf, m, &p, offsets)?;
                    vs.push(Variant { name: v.name.clone(), discriminant: d, fields: fl });
                }
                Ok(Schema::Enum(SchemaEnum::new_unsafe(se.dbg_name.clone(), vs, dsize, explicit, size, align)))
            };
            let measured_explicit = tag_width.is_some();
            let mut style = (measured_explicit, measured_explicit);
            for cand in [(measured_explicit, measured_explicit), (false, false), (false, measured_explicit)] {
                if build(cand.0, cand.1, &mut Mutator::none())? == *s {
                    style = cand;
                    break;
                }
            }
            build(style.0, style.1, m)
        }
        (Schema::Primitive(SchemaPrimitive::schema_string(l)), Facts::Seq { .. }) => {
            let l = match m.hit(&format!("{} string layout", path)) {
                None => *l,
                Some(MutKind::Change) => other_layout(*l),
                Some(MutKind::Unknown) => VecOrStringLayout::Unknown,
            };
            Ok(Schema::Primitive(SchemaPrimitive::schema_string(l)))
        }
        (Schema::Primitive(p), Facts::Prim { .. }) => Ok(Schema::Primitive(*p)),
        (Schema::Array(a), Facts::Array { elem, .. }) => {
            let count = match m.hit(&format!("{} array length", path)) {
                None => a.count,
                Some(_) => a.count + 1,
            };
            Ok(Schema::Array(SchemaArray { item_type: Box::new(rebuild(&a.item_type, elem, m, &format!("{}[]", path))?), count }))
        }
        (Schema::Vector(e, l), Facts::Seq { elem, .. }) => {
            let l = match m.hit(&format!("{} vector layout", path)) {
                None => *l,
                Some(MutKind::Change) => other_layout(*l),
                Some(MutKind::Unknown) => VecOrStringLayout::Unknown,
            };
            Ok(Schema::Vector(Box::new(rebuild(e, elem, m, &format!("{}[]", path))?), l))
        }
        (s, f) => Err(format!("{}: schema node '{}' does not correspond to the measured '{}'", path, s.top_level_description(), f.kind())),
    }
}

// ---------------------------------------------------------------------------------------------
// statistics / outcome

#[derive(Default)]
pub struct Stats(pub BTreeMap<String, u64>);
impl Stats {
    pub fn add(&mut self, k: &str, n: u64) {
        *self.0.entry(k.to_string()).or_insert(0) += n;
    }
}

#[derive(Default)]
pub struct Outcome {
    pub violations: Vec<Violation>,
    pub machinery: Option<String>,
    pub poisoned: bool,
}

fn guarded_compat(a: &Schema, b: &Schema) -> Result<bool, String> {
    vcommon::guarded(|| a.layout_compatible(b))
}

/// layer 1, one ordered pair. `only_value`: restrict the value sweep (replay).
pub fn check_schema_pair(ctx: &Ctx, a: usize, b: usize, only_value: Option<&LV>, st: &mut Stats, out: &mut Outcome) {
    st.add("transitions", 1);
    st.add("evaluations", 1);
    let compat = match guarded_compat(&ctx.schemas[a], &ctx.schemas[b]) {
        Ok(c) => c,
        Err(p) => {
            out.violations.push(Violation {
                oracle: "layout_compatible_panicked".into(),
                tags: pair_tags(ctx, a, b, "schema", "none"),
                summary: format!("layout_compatible({}, {}) panicked: {}", ctx.fam[a].name, ctx.fam[b].name, p),
                case: json!({"layer": "schema", "a": ctx.fam[a].name, "b": ctx.fam[b].name}),
            });
            return;
        }
    };
    let diff = ctx.facts[a].difference(&ctx.facts[b], "T");
    match (compat, &diff) {
        (false, None) => st.add(if a == b { "oc.schema.same_definition_declared_incompatible" } else { "oc.schema.identical_layout_declared_incompatible" }, 1),
        (false, Some(_)) => st.add("oc.schema.different_layout_declared_incompatible", 1),
        (true, None) => st.add(if a == b { "oc.schema.same_definition_declared_compatible" } else { "oc.schema.identical_layout_declared_compatible" }, 1),
        (true, Some(_)) => st.add("oc.schema.different_layout_declared_compatible", 1),
    }
    if !compat {
        return;
    }
    st.add("schema_pairs_declared_compatible", 1);
    if a != b {
        st.add("schema_pairs_declared_compatible_distinct_definitions", 1);
    }
    if let Some((kind, text)) = &diff {
        out.violations.push(Violation {
            oracle: "compatible_implies_identical_layout".into(),
            tags: pair_tags(ctx, a, b, "schema", kind),
            summary: format!("layout_compatible says true for caller {} = {} and implementation {} = {}, but the measured layouts differ: {}", ctx.fam[a].name, describe(&ctx.fam[a]), ctx.fam[b].name, describe(&ctx.fam[b]), text),
            case: json!({"layer": "schema", "a": ctx.fam[a].name, "b": ctx.fam[b].name, "value": Value::Null}),
        });
        return; // reading the memory as B is not known to be safe
    }
    // identical measured layouts: the memory of every value of A read as B == the serialized path
    let vals = match only_value {
        Some(v) => vec![v.clone()],
        None => (ctx.reg[a].values)(),
    };
    for v in vals {
        st.add("evaluations", 1);
        st.add("transitions", 3);
        st.add("values_reinterpreted", 1);
        let mut via_mem = None;
        (ctx.reg[a].with_mem)(&v, &mut |p| via_mem = Some(unsafe { (ctx.reg[b].read_mem)(p) }));
        let via_ser = (ctx.reg[a].ser)(&v).and_then(|bytes| (ctx.reg[b].deser)(&bytes));
        let ok = matches!((&via_mem, &via_ser), (Some(m), Ok(s)) if m == s);
        if !ok {
            out.violations.push(Violation {
                oracle: "by_reference_value_equals_serialized_value".into(),
                tags: pair_tags(ctx, a, b, "schema", "none"),
                summary: format!(
                    "{} value {} : read in place as {} gives {}, the serialized path gives {}",
                    ctx.fam[a].name,
                    v.render(),
                    ctx.fam[b].name,
                    via_mem.as_ref().map(|x| x.render()).unwrap_or_default(),
                    match &via_ser {
                        Ok(s) => s.render(),
                        Err(e) => format!("Err({})", e),
                    }
                ),
                case: json!({"layer": "schema", "a": ctx.fam[a].name, "b": ctx.fam[b].name, "value": lv_json(&v)}),
            });
        }
    }
}

/// the schema of `a` records exactly the measured layout
pub fn check_binding(ctx: &Ctx, a: usize, st: &mut Stats, out: &mut Outcome) -> Option<usize> {
    st.add("evaluations", 1);
    let mut m = Mutator::none();
    match rebuild(&ctx.schemas[a], &ctx.facts[a], &mut m, "T") {
        Ok(s) if s == ctx.schemas[a] => {
            st.add("schemas_equal_to_measured_layout", 1);
            Some(m.counter)
        }
        Ok(s) => {
            let (real, meas) = (format!("{:?}", ctx.schemas[a]), format!("{:?}", s));
            let at = real.bytes().zip(meas.bytes()).position(|(x, y)| x != y).unwrap_or(0);
            let from = real[..at].rfind("Field {").or_else(|| real[..at].rfind("SchemaEnum {")).or_else(|| real[..at].rfind("SchemaStruct {")).unwrap_or(at.saturating_sub(60));
            let cut = |t: &str| -> String { t[from..].chars().take(at - from + 40).collect() };
            out.violations.push(Violation {
                oracle: "schema_records_measured_layout".into(),
                tags: pair_tags(ctx, a, a, "schema", "schema_vs_measured"),
                summary: format!("the schema of {} = {} does not record the measured layout: schema has `{}...`, measured `{}...`", ctx.fam[a].name, describe(&ctx.fam[a]), cut(&real), cut(&meas)),
                case: json!({"layer": "binding", "a": ctx.fam[a].name}),
            });
            None
        }
        Err(e) => {
            out.machinery = Some(format!("cannot walk the schema of {}: {}", ctx.fam[a].name, e));
            None
        }
    }
}

pub fn check_mutation(ctx: &Ctx, a: usize, site: usize, kind: MutKind, st: &mut Stats, out: &mut Outcome) {
    let orig = &ctx.schemas[a];
    let mut m = Mutator { target: Some((site, kind)), counter: 0, applied: None };
    let mutated = match rebuild(orig, &ctx.facts[a], &mut m, "T") {
        Ok(s) => s,
        Err(e) => {
            out.machinery = Some(format!("mutation rebuild of {}: {}", ctx.fam[a].name, e));
            return;
        }
    };
    let Some(what) = m.applied else {
        out.machinery = Some(format!("mutation site {} of {} does not exist", site, ctx.fam[a].name));
        return;
    };
    if mutated == *orig {
        // e.g. "unknown" for a site that has no unknown form
        st.add("mutations_without_effect_on_the_schema", 1);
        return;
    }
    st.add("mutations", 1);
    st.add("transitions", 2);
    st.add("evaluations", 1);
    let self_compat = guarded_compat(orig, orig).unwrap_or(false);
    if self_compat {
        st.add("mutations_of_self_compatible_schemas", 1);
    }
    let r1 = guarded_compat(orig, &mutated);
    let r2 = guarded_compat(&mutated, orig);
    if matches!((&r1, &r2), (Ok(false), Ok(false))) {
        st.add("oc.mutation.reported_incompatible", 1);
        return;
    }
    st.add("oc.mutation.still_compatible", 1);
    out.violations.push(Violation {
        oracle: "layout_mutation_detected".into(),
        tags: vcommon::tags(&[("layer", "mutation".into()), ("mutation", what.split(' ').skip(1).collect::<Vec<_>>().join("_")), ("mutation_kind", format!("{:?}", kind).to_lowercase())]),
        summary: format!("schema of {} = {} with [{}] set to {}: layout_compatible(original, mutated) = {:?}, (mutated, original) = {:?}; both must be false", ctx.fam[a].name, describe(&ctx.fam[a]), what, if kind == MutKind::Change { "another value" } else { "unknown" }, r1, r2),
        case: json!({"layer": "mutation", "a": ctx.fam[a].name, "site": site, "kind": format!("{:?}", kind).to_lowercase()}),
    });
}

/// layer 2, one ordered pair (caller type a, implementation type b)
pub fn check_call_pair(ctx: &Ctx, a: usize, b: usize, only_value: Option<&LV>, st: &mut Stats, out: &mut Outcome) {
    st.add("transitions", 1);
    st.add("evaluations", 1);
    let case0 = json!({"layer": "call", "a": ctx.fam[a].name, "b": ctx.fam[b].name, "value": Value::Null});
    let shim = match vcommon::guarded(|| vabi11fam::gen::connect(a, b)) {
        Err(p) => {
            st.add("oc.call.connect_panicked", 1);
            out.violations.push(Violation { oracle: "connect_panicked".into(), tags: pair_tags(ctx, a, b, "call", "none"), summary: format!("connecting IA<{}> to an implementation of IB<{}> panicked: {}", ctx.fam[a].name, ctx.fam[b].name, p), case: case0 });
            out.poisoned = true;
            return;
        }
        Ok(None) => {
            out.machinery = Some(format!("no connection table entry {} -> {}", ctx.fam[a].name, ctx.fam[b].name));
            return;
        }
        Ok(Some(Err(_))) => {
            // refusing a connection is always acceptable for this property
            st.add("oc.call.connection_refused", 1);
            return;
        }
        Ok(Some(Ok(s))) => s,
    };
    let by_ref = match vcommon::guarded(|| shim.by_ref()) {
        Ok(x) => x,
        Err(p) => {
            out.machinery = Some(format!("get_arg_passable_by_ref panicked: {}", p));
            return;
        }
    };
    let diff = ctx.facts[a].difference(&ctx.facts[b], "T");
    st.add(if by_ref { "call_pairs_by_reference" } else { "call_pairs_serialized" }, 1);
    if by_ref && a != b {
        st.add("call_pairs_by_reference_distinct_definitions", 1);
    }
    st.add(
        match (by_ref, diff.is_some()) {
            (true, false) => "oc.call.by_reference_identical_layout",
            (true, true) => "oc.call.by_reference_different_layout",
            (false, false) => "oc.call.serialized_identical_layout",
            (false, true) => "oc.call.serialized_different_layout",
        },
        1,
    );
    let kind = diff.as_ref().map(|d| d.0).unwrap_or("none");
    if let (true, Some((_, text))) = (by_ref, &diff) {
        out.violations.push(Violation {
            oracle: "by_reference_implies_identical_layout".into(),
            tags: pair_tags(ctx, a, b, "call", kind),
            summary: format!("the connection passes `&{}` = {} by reference to an implementation taking `&{}` = {}, but the measured layouts differ: {}", ctx.fam[a].name, describe(&ctx.fam[a]), ctx.fam[b].name, describe(&ctx.fam[b]), text),
            case: case0.clone(),
        });
    }
    let vals = match only_value {
        Some(v) => vec![v.clone()],
        None => (ctx.reg[a].values)(),
    };
    for v in vals {
        st.add("evaluations", 1);
        st.add("transitions", 1);
        st.add("calls", 1);
        let expected = (ctx.reg[a].ser)(&v).and_then(|bytes| (ctx.reg[b].deser)(&bytes));
        let _ = take_observed();
        let res = vcommon::guarded(|| shim.call(&v));
        let obs = take_observed();
        let ok = res.is_ok() && obs.len() == 1 && matches!(&expected, Ok(e) if *e == obs[0]);
        if ok {
            st.add(if by_ref { "oc.call.by_reference_value_as_serialized_path" } else { "oc.call.serialized_value_as_expected" }, 1);
            continue;
        }
        st.add(if by_ref { "oc.call.by_reference_value_differs" } else { "oc.call.serialized_value_differs" }, 1);
        let mut tags = pair_tags(ctx, a, b, "call", kind);
        tags.insert("passed".into(), if by_ref { "by_reference" } else { "serialized" }.into());
        out.violations.push(Violation {
            oracle: "observed_value_equals_serialized_path_value".into(),
            tags,
            summary: format!(
                "caller passes &{} = {} ({}), the implementation (taking &{}) observed {} ; the serialized path gives {}{}",
                ctx.fam[a].name,
                v.render(),
                if by_ref { "by reference" } else { "serialized" },
                ctx.fam[b].name,
                format!("[{}]", obs.iter().map(|x| x.render()).collect::<Vec<_>>().join(", ")),
                match &expected {
                    Ok(e) => e.render(),
                    Err(e) => format!("Err({})", e),
                },
                match &res {
                    Ok(_) => String::new(),
                    Err(p) => format!(" ; the call panicked: {}", p),
                }
            ),
            case: json!({"layer": "call", "a": ctx.fam[a].name, "b": ctx.fam[b].name, "value": lv_json(&v)}),
        });
    }
}

// ---------------------------------------------------------------------------------------------
// child

const SKIP_ENTRY: u64 = 1 << 40;

fn emit(o: &mut Outcome) -> bool {
    for v in o.violations.drain(..) {
        println!("F {}", json!({"oracle": v.oracle, "tags": v.tags, "summary": v.summary, "case": v.case}));
    }
    if let Some(m) = o.machinery.take() {
        println!("E {}", m);
    }
    o.poisoned
}

pub fn child(tier: Tier, k: usize, n: usize, resume: (i64, u64)) -> ! {
    vcommon::child::install_crash_handler();
    let ctx = Ctx::new(tier);
    let es = entries(&ctx);
    let out = std::io::stdout();
    for (pos, e) in es.iter().enumerate() {
        if pos % n != k || (pos as i64) < resume.0 {
            continue;
        }
        println!("B {}", pos);
        let mut st = Stats::default();
        let mut o = Outcome::default();
        let mut sno = 0u64;
        let mut poisoned = false;
        let skip = |sno: u64| pos as i64 == resume.0 && sno <= resume.1;
        match e {
            Entry::Row(a) => {
                st.add("states", 1);
                let sites = check_binding(&ctx, *a, &mut st, &mut o);
                emit(&mut o);
                for b in &ctx.active {
                    sno += 1;
                    if skip(sno) {
                        continue;
                    }
                    vcommon::child::set_state(&format!("pos={} sno={}", pos, sno));
                    let before = st.0.get("schema_pairs_declared_compatible").copied().unwrap_or(0);
                    check_schema_pair(&ctx, *a, *b, None, &mut st, &mut o);
                    st.add("states", 1);
                    st.add("schema_pairs", 1);
                    if st.0.get("schema_pairs_declared_compatible").copied().unwrap_or(0) > before {
                        st.add("nontrivial", 1);
                        if a != b && o.violations.is_empty() {
                            println!("X {}", json!({"pos": pos, "sno": sno, "case": {"layer": "schema", "a": ctx.fam[*a].name, "a_def": describe(&ctx.fam[*a]), "b": ctx.fam[*b].name, "b_def": describe(&ctx.fam[*b]), "layout_compatible": true}}));
                        }
                    }
                    emit(&mut o);
                }
                if let Some(sites) = sites {
                    for site in 0..sites {
                        for kind in [MutKind::Change, MutKind::Unknown] {
                            sno += 1;
                            if skip(sno) {
                                continue;
                            }
                            vcommon::child::set_state(&format!("pos={} sno={}", pos, sno));
                            let before = st.0.get("mutations").copied().unwrap_or(0);
                            check_mutation(&ctx, *a, site, kind, &mut st, &mut o);
                            if st.0.get("mutations").copied().unwrap_or(0) > before {
                                st.add("states", 1);
                            }
                            emit(&mut o);
                        }
                    }
                }
            }
            Entry::Calls(a) => {
                for (_, b) in ctx.call_pairs.iter().filter(|p| p.0 == *a) {
                    sno += 1;
                    if skip(sno) {
                        continue;
                    }
                    vcommon::child::set_state(&format!("pos={} sno={}", pos, sno));
                    let before = st.0.get("call_pairs_by_reference").copied().unwrap_or(0);
                    check_call_pair(&ctx, *a, *b, None, &mut st, &mut o);
                    st.add("states", 1);
                    st.add("call_pairs", 1);
                    let by_ref = st.0.get("call_pairs_by_reference").copied().unwrap_or(0) > before;
                    if by_ref {
                        st.add("nontrivial", 1);
                    }
                    if a != b && (by_ref || sno == 1) {
                        println!("X {}", json!({"pos": pos, "sno": sno, "case": {"layer": "call", "a": ctx.fam[*a].name, "a_def": describe(&ctx.fam[*a]), "b": ctx.fam[*b].name, "b_def": describe(&ctx.fam[*b]), "passed_by_reference": by_ref}}));
                    }
                    if emit(&mut o) {
                        poisoned = true;
                        break;
                    }
                }
            }
        }
        if poisoned {
            println!("T {}", json!(st.0));
            let _ = out.lock().flush();
            eprintln!("\nCRASH-STATE pos={} sno={} selfexit=1", pos, SKIP_ENTRY);
            std::process::exit(3);
        }
        st.add("entries", 1);
        println!("T {}", json!(st.0));
    }
    let _ = out.lock().flush();
    std::process::exit(0)
}

fn violation_from_json(j: &Value) -> Violation {
    Violation {
        oracle: j["oracle"].as_str().unwrap_or("").to_string(),
        tags: j["tags"].as_object().map(|m| m.iter().map(|(k, v)| (k.clone(), v.as_str().unwrap_or("").to_string())).collect()).unwrap_or_default(),
        summary: j["summary"].as_str().unwrap_or("").to_string(),
        case: j["case"].clone(),
    }
}

// ---------------------------------------------------------------------------------------------
// parent

pub fn parent(run: &mut Run) -> (Map<String, Value>, Vec<String>) {
    let ctx = Ctx::new(run.tier);
    let es = entries(&ctx);
    let n_entries = es.len();
    let workers = run.tier.pick(8, 14);
    let base = vec![run.property.clone(), "--tier".to_string(), run.tier.name().to_string()];
    let mut stats = Stats::default();
    let mut machinery: Vec<String> = vec![];
    let mut samples: Vec<(u64, u64, Value)> = vec![];
    {
        let cell = std::sync::Mutex::new((&mut *run, &mut stats, &mut machinery, &mut samples));
        let (ctx, es) = (&ctx, &es);
        vcommon::child::run_workers(
            workers,
            &base,
            |_k, line| {
                let mut g = cell.lock().unwrap();
                if let Some(j) = line.strip_prefix("F ") {
                    match vcommon::serde_json::from_str::<Value>(j) {
                        Ok(v) => g.0.violation(violation_from_json(&v)),
                        Err(e) => g.2.push(format!("unparsable finding line: {}", e)),
                    }
                } else if let Some(j) = line.strip_prefix("T ") {
                    if let Ok(Value::Object(m)) = vcommon::serde_json::from_str::<Value>(j) {
                        for (k, v) in m {
                            g.1.add(&k, v.as_u64().unwrap_or(0));
                        }
                    }
                } else if let Some(j) = line.strip_prefix("X ") {
                    if let Ok(v) = vcommon::serde_json::from_str::<Value>(j) {
                        g.3.push((v["pos"].as_u64().unwrap_or(0), v["sno"].as_u64().unwrap_or(0), v["case"].clone()));
                    }
                } else if let Some(m) = line.strip_prefix("E ") {
                    g.2.push(m.to_string());
                }
            },
            |c| {
                let mut g = cell.lock().unwrap();
                if c.state.contains("selfexit=1") {
                    g.1.add("workers_abandoned_after_connect_panic", 1);
                    return;
                }
                let num = |key: &str| -> Option<u64> { c.state.split_whitespace().find_map(|w| w.strip_prefix(key)).and_then(|x| x.parse().ok()) };
                let (Some(pos), Some(sno)) = (num("pos="), num("sno=")) else {
                    g.2.push(format!("worker {} died without a recorded state: {} {}", c.worker, c.status, c.stderr_tail));
                    return;
                };
                let msg = c.stderr_tail.lines().filter(|l| !l.starts_with("CRASH-STATE") && !l.trim().is_empty()).last().unwrap_or("").to_string();
                g.1.add("oc.process_died", 1);
                g.1.add("states", 1);
                g.1.add("evaluations", 1);
                match es.get(pos as usize) {
                    Some(Entry::Calls(a)) => {
                        let Some((_, b)) = ctx.call_pairs.iter().filter(|p| p.0 == *a).nth(sno as usize - 1) else {
                            g.2.push(format!("worker {} died in unknown state {}/{}", c.worker, pos, sno));
                            return;
                        };
                        let kind = ctx.facts[*a].difference(&ctx.facts[*b], "T").map(|d| d.0).unwrap_or("none");
                        g.0.violation(Violation {
                            oracle: "process_abort".into(),
                            tags: pair_tags(ctx, *a, *b, "call", kind),
                            summary: format!("process died ({}) while IA<{}> called an implementation of IB<{}>: {}", c.status, ctx.fam[*a].name, ctx.fam[*b].name, msg),
                            case: json!({"layer": "call", "a": ctx.fam[*a].name, "b": ctx.fam[*b].name, "value": Value::Null}),
                        });
                    }
                    Some(Entry::Row(a)) => {
                        g.0.violation(Violation {
                            oracle: "process_abort".into(),
                            tags: vcommon::tags(&[("layer", "schema".into())]),
                            summary: format!("process died ({}) in the schema-level checks of {} (step {}): {}", c.status, ctx.fam[*a].name, sno, msg),
                            case: json!({"layer": "row", "a": ctx.fam[*a].name}),
                        });
                    }
                    None => g.2.push(format!("worker {} died in unknown entry {}", c.worker, pos)),
                }
            },
            200,
        );
    }
    if !machinery.is_empty() {
        vcommon::machinery_error(&format!("{} harness problem(s), first: {}", machinery.len(), machinery[0]));
    }
    let g = |k: &str| stats.0.get(k).copied().unwrap_or(0);
    let completed = g("entries") + g("workers_abandoned_after_connect_panic");
    if completed < n_entries as u64 {
        if run.violations_found() == 0 {
            vcommon::machinery_error(&format!("only {} of {} entries were completed and no violation explains it", completed, n_entries));
        }
        run.exhaustive = false;
        run.notes.push(format!("only {} of {} entries were completed: workers kept dying", completed, n_entries));
    }
    // layer 3
    let plugin = if run.tier == Tier::Thorough { crate::plugin::run_layer3(run, &mut stats) } else { json!("thorough tier only") };
    let g = |k: &str| stats.0.get(k).copied().unwrap_or(0);
    let sub = |prefix: &str| -> Map<String, Value> { stats.0.iter().filter(|(k, _)| k.starts_with(prefix)).map(|(k, v)| (k[prefix.len()..].to_string(), json!(v))).collect() };
    let oc = sub("oc.");
    // vacuity guards: both answers of layout_compatible, both ways of passing, mutations seen
    if g("schema_pairs_declared_compatible_distinct_definitions") < 2 || g("oc.schema.different_layout_declared_incompatible") == 0 || g("call_pairs_by_reference") == 0 || g("call_pairs_serialized") == 0 || g("mutations_of_self_compatible_schemas") == 0 || g("values_reinterpreted") == 0 {
        vcommon::machinery_error(&format!("vacuous exploration: {:?}", stats.0));
    }
    let mut cov = Map::new();
    samples.sort_by(|a, b| (a.0, a.1).cmp(&(b.0, b.1)));
    if !samples.is_empty() {
        let n = samples.len();
        let mut idx: Vec<usize> = (0..10).map(|i| i * (n - 1) / 9).collect();
        idx.dedup();
        cov.insert("samples".into(), Value::Array(idx.into_iter().map(|i| samples[i].2.clone()).collect()));
    }
    cov.insert("states".into(), json!(g("states")));
    cov.insert("transitions".into(), json!(g("transitions")));
    cov.insert("traces_validated_against_impl".into(), json!(g("schema_pairs") + g("mutations") + g("call_pairs") + g("plugin_calls")));
    cov.insert("evaluations".into(), json!(g("evaluations")));
    cov.insert("distinct_nontrivial".into(), json!(g("nontrivial")));
    cov.insert(
        "rule".into(),
        json!("layer 1: all ordered pairs (A, B) of the definition family (one state each), plus one state per type (schema == measured layout) and per effective single mutation of a layout annotation; layer 2: all ordered pairs of POD definitions with the same serialized structure, connected as IA{f(&A)} -> implementation of IB{f(&B)} and called with every enumerated value; layer 3 (thorough): every method of the probe interface x layout seed. A pair is non-trivial when layout_compatible answered true (layer 1) or by-reference passing was chosen (layers 2, 3)."),
    );
    cov.insert("definitions".into(), json!(ctx.active.len()));
    cov.insert("definitions_by_kind".into(), {
        let mut m: BTreeMap<&str, u64> = BTreeMap::new();
        for i in &ctx.active {
            *m.entry(match ctx.fam[*i].def {
                Def::Alias(_) => "plain (primitive, array, tuple, collection)",
                Def::Struct { repr_c: true, .. } => "struct repr(C)",
                Def::Struct { repr_c: false, .. } => "struct repr(Rust)",
                Def::Tuple { .. } => "tuple struct with one #[savefile_ignore] field",
                Def::Enum { .. } => "enum",
            })
            .or_insert(0) += 1;
        }
        json!(m)
    });
    cov.insert("schema_pairs".into(), json!(g("schema_pairs")));
    cov.insert("schema_pairs_declared_compatible".into(), json!(g("schema_pairs_declared_compatible")));
    cov.insert("schema_pairs_declared_compatible_distinct_definitions".into(), json!(g("schema_pairs_declared_compatible_distinct_definitions")));
    cov.insert("values_reinterpreted_and_compared_with_serialized_path".into(), json!(g("values_reinterpreted")));
    cov.insert("schemas_equal_to_measured_layout".into(), json!(g("schemas_equal_to_measured_layout")));
    cov.insert("mutations".into(), json!(g("mutations")));
    cov.insert("mutations_of_self_compatible_schemas".into(), json!(g("mutations_of_self_compatible_schemas")));
    cov.insert("mutations_without_effect_on_the_schema".into(), json!(g("mutations_without_effect_on_the_schema")));
    cov.insert("call_pairs".into(), json!(g("call_pairs")));
    cov.insert("call_pairs_by_reference".into(), json!(g("call_pairs_by_reference")));
    cov.insert("call_pairs_by_reference_distinct_definitions".into(), json!(g("call_pairs_by_reference_distinct_definitions")));
    cov.insert("call_pairs_serialized".into(), json!(g("call_pairs_serialized")));
    cov.insert("calls".into(), json!(g("calls")));
    cov.insert("distinct_outcomes".into(), json!(oc.len()));
    cov.insert("outcome_classes".into(), Value::Object(oc));
    cov.insert("layer3_separately_compiled_plugin".into(), plugin);
    cov.insert("entries".into(), json!(n_entries));
    let assumptions = vec![
        "measured layout = size_of, align_of, offset_of! of every field, field addresses inside a constructed value of every enum variant, the first tag-width bytes of that value (enums with a primitive representation keep the tag at offset 0), the word order of Vec / String found by probing; an enum without a primitive representation and a VecDeque count as unspecified".to_string(),
        "memory is read as the other type only after the measured layouts were found identical; otherwise the violation is already established".to_string(),
        "'no' answers of layout_compatible are always acceptable (counted as identical_layout_declared_incompatible)".to_string(),
        "layer 2 runs in one compilation: layouts of identical definitions are trivially identical, the differences come from the definition family (field order, repr, discriminants, array lengths); another compiler and randomised layouts are layer 3 (thorough)".to_string(),
        "an ignored field (#[savefile_ignore]) is not part of the schema: the measured layout of such a definition is its size, alignment and the offsets of its SERIALIZED fields, and values are compared on the serialized fields only; definitions with versioned fields are not part of this family (C10 covers versions)".to_string(),
    ];
    (cov, assumptions)
}

// ---------------------------------------------------------------------------------------------
// replay

pub fn replay(path: &std::path::Path) -> ! {
    let text = std::fs::read_to_string(path).unwrap_or_else(|e| vcommon::machinery_error(&format!("replay file: {}", e)));
    let doc: Value = vcommon::serde_json::from_str(&text).unwrap_or_else(|e| vcommon::machinery_error(&format!("replay json: {}", e)));
    let case = &doc["case"];
    vcommon::child::install_crash_handler();
    vcommon::child::set_state("replay");
    if case["layer"].as_str() == Some("plugin") {
        crate::plugin::replay(case);
    }
    let ctx = Ctx::new(Tier::Thorough);
    let ty = |key: &str| -> usize {
        let n = case[key].as_str().unwrap_or("");
        ctx.index(n).unwrap_or_else(|| vcommon::machinery_error(&format!("replay: unknown definition {:?}", n)))
    };
    let value = if case["value"].is_null() { None } else { Some(lv_from_json(&case["value"]).unwrap_or_else(|| vcommon::machinery_error("replay: bad value"))) };
    let mut st = Stats::default();
    let mut o = Outcome::default();
    match case["layer"].as_str() {
        Some("schema") => {
            let (a, b) = (ty("a"), ty("b"));
            println!("replaying layer 1: A = {} = {} ; B = {} = {}", ctx.fam[a].name, describe(&ctx.fam[a]), ctx.fam[b].name, describe(&ctx.fam[b]));
            println!("  layout_compatible(A, B) = {:?}", guarded_compat(&ctx.schemas[a], &ctx.schemas[b]));
            println!("  measured layouts: {}", ctx.facts[a].difference(&ctx.facts[b], "T").map(|d| format!("DIFFER, {}", d.1)).unwrap_or_else(|| "identical".into()));
            check_schema_pair(&ctx, a, b, value.as_ref(), &mut st, &mut o);
        }
        Some("binding") => {
            let a = ty("a");
            println!("replaying: schema of {} against its measured layout", ctx.fam[a].name);
            check_binding(&ctx, a, &mut st, &mut o);
        }
        Some("mutation") => {
            let a = ty("a");
            let kind = if case["kind"].as_str() == Some("unknown") { MutKind::Unknown } else { MutKind::Change };
            let site = case["site"].as_u64().unwrap_or(0) as usize;
            println!("replaying: mutation {} ({:?}) of the schema of {} = {}", site, kind, ctx.fam[a].name, describe(&ctx.fam[a]));
            check_mutation(&ctx, a, site, kind, &mut st, &mut o);
        }
        Some("call") => {
            let (a, b) = (ty("a"), ty("b"));
            println!("replaying layer 2: caller IA {{ fn f(&self, x: &{}) }}, implementation of IB {{ fn f(&self, x: &{}) }}", describe(&ctx.fam[a]), describe(&ctx.fam[b]));
            check_call_pair(&ctx, a, b, value.as_ref(), &mut st, &mut o);
            println!("  passed by reference: {}", st.0.get("call_pairs_by_reference").copied().unwrap_or(0) == 1);
        }
        _ => vcommon::machinery_error("replay: not a C11 case"),
    }
    if let Some(m) = o.machinery {
        vcommon::machinery_error(&m);
    }
    for v in &o.violations {
        println!("REPLAY-FAIL oracle={} {}", v.oracle, v.summary);
    }
    if o.violations.is_empty() {
        println!("replay: no oracle fails ({} evaluations)", st.0.get("evaluations").copied().unwrap_or(0));
    }
    println!("replay: {} violation(s) reproduced", o.violations.len());
    std::process::exit(if o.violations.is_empty() { 0 } else { 1 })
}
