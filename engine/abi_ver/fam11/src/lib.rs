//! C11 family: the description of the type family (`spec`), runtime pieces (`support`) and the
//! generated definitions (`gen`, written by build.rs, expanded by the real savefile macros).
pub mod spec;
pub mod support;
#[allow(clippy::all, non_camel_case_types, dead_code, unused_imports, unused_variables)]
pub mod gen {
    use crate::support::*;
    use savefile::prelude::*;
    use savefile_abi::{AbiConnection, AbiExportable};
    use savefile_derive::{savefile_abi_exportable, Savefile};
    include!(concat!(env!("OUT_DIR"), "/types.rs"));
    include!(concat!(env!("OUT_DIR"), "/ifaces.rs"));
    /// layer 3: the probe interface as the host sees it
    pub mod probe {
        use crate::support::*;
        use savefile::prelude::*;
        use savefile_derive::{savefile_abi_exportable, Savefile};
        include!(concat!(env!("OUT_DIR"), "/probe.rs"));
    }
    include!(concat!(env!("OUT_DIR"), "/probe_host.rs"));
}

/// the sources of the plugin crate (written to /verif/.work and built by another compiler at run time)
pub const PLUGIN_SUPPORT_RS: &str = include_str!("support.rs");
pub const PLUGIN_PROBE_RS: &str = include_str!(concat!(env!("OUT_DIR"), "/probe.rs"));
pub const PLUGIN_EXPORTS_RS: &str = include_str!(concat!(env!("OUT_DIR"), "/probe_exports.rs"));
