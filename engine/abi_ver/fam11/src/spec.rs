// C11: the family of type definitions whose memory layouts are compared, and the Rust emitter.
// `include!`d by build.rs (emit) and a module of the library (metadata for the engine).
// Depends on nothing but std.

use std::fmt::Write as _;

#[derive(Clone, Debug, PartialEq, Eq, Hash)]
pub enum Ty {
    U8,
    U16,
    U32,
    U64,
    Bool,
    /// [u8; n]
    Arr(usize),
    /// (u8, u8)
    Tup,
    /// a definition of the family, by name
    Named(String),
    VecU32,
    VecU16,
    VecDequeU32,
    Str,
}

impl Ty {
    pub fn rust(&self) -> String {
        match self {
            Ty::U8 => "u8".into(),
            Ty::U16 => "u16".into(),
            Ty::U32 => "u32".into(),
            Ty::U64 => "u64".into(),
            Ty::Bool => "bool".into(),
            Ty::Arr(n) => format!("[u8; {}]", n),
            Ty::Tup => "(u8, u8)".into(),
            Ty::Named(n) => n.clone(),
            Ty::VecU32 => "Vec<u32>".into(),
            Ty::VecU16 => "Vec<u16>".into(),
            Ty::VecDequeU32 => "std::collections::VecDeque<u32>".into(),
            Ty::Str => "String".into(),
        }
    }
    pub fn code(&self) -> String {
        match self {
            Ty::U8 => "u8".into(),
            Ty::U16 => "u16".into(),
            Ty::U32 => "u32".into(),
            Ty::U64 => "u64".into(),
            Ty::Bool => "bool".into(),
            Ty::Arr(n) => format!("a{}", n),
            Ty::Tup => "tup".into(),
            Ty::Named(n) => n.to_lowercase(),
            Ty::VecU32 => "vec32".into(),
            Ty::VecU16 => "vec16".into(),
            Ty::VecDequeU32 => "deq32".into(),
            Ty::Str => "string".into(),
        }
    }
    pub fn is_heap(&self) -> bool {
        matches!(self, Ty::VecU32 | Ty::VecU16 | Ty::VecDequeU32 | Ty::Str)
    }
}

#[derive(Clone, Copy, Debug, PartialEq, Eq, Hash)]
pub enum Repr {
    None,
    U8,
    CU8,
    U16,
    CU16,
    U32,
}
impl Repr {
    pub fn attr(self) -> &'static str {
        match self {
            Repr::None => "",
            Repr::U8 => "#[repr(u8)]",
            Repr::CU8 => "#[repr(C, u8)]",
            Repr::U16 => "#[repr(u16)]",
            Repr::CU16 => "#[repr(C, u16)]",
            Repr::U32 => "#[repr(u32)]",
        }
    }
    pub fn code(self) -> &'static str {
        match self {
            Repr::None => "n",
            Repr::U8 => "u8",
            Repr::CU8 => "cu8",
            Repr::U16 => "u16",
            Repr::CU16 => "cu16",
            Repr::U32 => "u32",
        }
    }
    /// width of the tag in memory (None: the layout of the enum is unspecified)
    pub fn tag_width(self) -> Option<usize> {
        match self {
            Repr::None => None,
            Repr::U8 | Repr::CU8 => Some(1),
            Repr::U16 | Repr::CU16 => Some(2),
            Repr::U32 => Some(4),
        }
    }
}

#[derive(Clone, Debug)]
pub struct VariantDef {
    pub name: &'static str,
    pub discr: Option<u32>,
    pub fields: Vec<Ty>,
    /// position of a `#[savefile_ignore]` field (not serialized, not part of the schema)
    pub ignored: Option<usize>,
}

#[derive(Clone, Debug)]
pub enum Def {
    /// align8: `#[repr(C, align(8))]`
    Struct { repr_c: bool, align8: bool, fields: Vec<Ty> },
    /// tuple struct; field `ignored` carries `#[savefile_ignore]` (not serialized, not in the schema)
    Tuple { repr_c: bool, fields: Vec<Ty>, ignored: usize },
    Enum { repr: Repr, variants: Vec<VariantDef> },
    /// a type that is not derived (primitive, array, tuple, collection)
    Alias(Ty),
}

#[derive(Clone, Debug)]
pub struct TypeDef {
    pub name: String,
    pub def: Def,
    /// part of the quick tier
    pub quick: bool,
    /// member of the cross-compiler probe interface (layer 3)
    pub plugin: bool,
}

fn en(name: &str, repr: Repr, variants: Vec<VariantDef>) -> TypeDef {
    TypeDef { name: name.to_string(), def: Def::Enum { repr, variants }, quick: true, plugin: false }
}
fn var(name: &'static str, discr: Option<u32>, fields: &[Ty]) -> VariantDef {
    VariantDef { name, discr, fields: fields.to_vec(), ignored: None }
}

pub fn leaves() -> Vec<Ty> {
    let n = |s: &str| Ty::Named(s.to_string());
    vec![Ty::U8, Ty::U16, Ty::U32, Ty::U64, Ty::Bool, Ty::Arr(3), Ty::Arr(4), Ty::Tup, n("P"), n("F3"), n("F3x"), n("EC"), n("ECs"), n("EU")]
}

/// The whole family, helpers first (a definition only refers to earlier ones).
pub fn family() -> Vec<TypeDef> {
    let mut v: Vec<TypeDef> = vec![];
    // helpers that the leaf alphabet refers to
    v.push(TypeDef { name: "P".into(), def: Def::Struct { repr_c: true, align8: false, fields: vec![Ty::U16, Ty::U16] }, quick: true, plugin: true });
    v.push(en("F3", Repr::U8, vec![var("A", None, &[]), var("B", None, &[]), var("C", None, &[])]));
    v.push(en("F3x", Repr::U8, vec![var("A", Some(1), &[]), var("B", Some(2), &[]), var("C", Some(0), &[])]));
    v.push(en("EC", Repr::CU8, vec![var("X", None, &[Ty::U8]), var("Y", None, &[Ty::U8])]));
    v.push(en("ECs", Repr::CU8, vec![var("X", Some(1), &[Ty::U8]), var("Y", Some(0), &[Ty::U8])]));
    v.push(en("EU", Repr::U8, vec![var("X", None, &[Ty::U8]), var("Y", None, &[Ty::U16])]));
    // plain types
    for t in [Ty::U8, Ty::U16, Ty::U32, Ty::U64, Ty::Bool, Ty::Arr(3), Ty::Arr(4), Ty::Tup, Ty::VecU32, Ty::VecU16, Ty::VecDequeU32, Ty::Str] {
        v.push(TypeDef { name: format!("A_{}", t.code()), def: Def::Alias(t), quick: true, plugin: false });
    }
    // structs: all field sequences of length 1..=2 over the 14 leaves, length 3 over {u8,u16,u32,u64}, x {repr(Rust), repr(C)}
    let ls = leaves();
    let mut seqs: Vec<Vec<Ty>> = vec![];
    for a in &ls {
        seqs.push(vec![a.clone()]);
    }
    for a in &ls {
        for b in &ls {
            seqs.push(vec![a.clone(), b.clone()]);
        }
    }
    let small = [Ty::U8, Ty::U16, Ty::U32, Ty::U64];
    for a in &small {
        for b in &small {
            for c in &small {
                seqs.push(vec![a.clone(), b.clone(), c.clone()]);
            }
        }
    }
    // collections as fields (never POD: only the schema level looks at them)
    for x in [Ty::VecU32, Ty::VecU16, Ty::VecDequeU32, Ty::Str] {
        seqs.push(vec![x.clone()]);
        seqs.push(vec![x.clone(), Ty::U8]);
        seqs.push(vec![Ty::U8, x.clone()]);
    }
    for s in &seqs {
        for repr_c in [false, true] {
            let name = format!("S{}_{}", if repr_c { "c" } else { "r" }, s.iter().map(|t| t.code()).collect::<Vec<_>>().join("_"));
            // quick tier: 1- and 2-field structs over a reduced leaf set, all 3-field structs over {u8,u32,u64}
            let reduced = |t: &Ty| matches!(t, Ty::U8 | Ty::U16 | Ty::U32 | Ty::Bool | Ty::Arr(3) | Ty::Tup | Ty::VecU32 | Ty::Str | Ty::VecDequeU32) || matches!(t, Ty::Named(n) if n == "P" || n == "F3x" || n == "EC" || n == "ECs");
            let quick = if s.len() == 3 { s.iter().all(|t| matches!(t, Ty::U8 | Ty::U32 | Ty::U64)) } else { s.iter().all(reduced) };
            let plugin = s.iter().all(|t| matches!(t, Ty::U8 | Ty::U16 | Ty::U32 | Ty::U64)) && (s.len() == 3 || (s.len() == 2 && s[0] != s[1]));
            v.push(TypeDef { name, def: Def::Struct { repr_c, align8: false, fields: s.clone() }, quick, plugin });
        }
    }
    // over-aligned variants: same fields, same offsets, different alignment (and size)
    for s in [vec![Ty::U32, Ty::U32], vec![Ty::U16, Ty::U16], vec![Ty::U8, Ty::U32], vec![Ty::U64], vec![Ty::U32], vec![Ty::U64, Ty::U64]] {
        let name = format!("Sa_{}", s.iter().map(|t| t.code()).collect::<Vec<_>>().join("_"));
        v.push(TypeDef { name, def: Def::Struct { repr_c: true, align8: true, fields: s }, quick: true, plugin: false });
    }
    // tuple structs with ONE #[savefile_ignore] field at every position: the schema must record the
    // offsets of the serialized fields, wherever the ignored one sits
    {
        let tri = [Ty::U8, Ty::U16, Ty::U32];
        let mut tseqs: Vec<Vec<Ty>> = vec![];
        for a in &tri {
            for b in &tri {
                tseqs.push(vec![a.clone(), b.clone()]);
                for c in &tri {
                    tseqs.push(vec![a.clone(), b.clone(), c.clone()]);
                }
            }
        }
        for sq in &tseqs {
            for ignored in 0..sq.len() {
                for repr_c in [false, true] {
                    let name = format!("T{}_i{}_{}", if repr_c { "c" } else { "r" }, ignored, sq.iter().map(|t| t.code()).collect::<Vec<_>>().join("_"));
                    let quick = sq.iter().all(|t| matches!(t, Ty::U8 | Ty::U16));
                    v.push(TypeDef { name, def: Def::Tuple { repr_c, fields: sq.clone(), ignored }, quick, plugin: false });
                }
            }
        }
        // the same inside a tuple variant of an integer-repr enum
        let duo = [Ty::U8, Ty::U16];
        for a in &duo {
            for b in &duo {
                for c in &duo {
                    let sq = vec![a.clone(), b.clone(), c.clone()];
                    for ignored in 0..3 {
                        for repr in [Repr::CU8, Repr::U8] {
                            let name = format!("Ei_{}_i{}_{}", repr.code(), ignored, sq.iter().map(|t| t.code()).collect::<Vec<_>>().join("_"));
                            let variants = vec![VariantDef { name: "X", discr: None, fields: sq.clone(), ignored: Some(ignored) }, var("Y", None, &[Ty::U8])];
                            let mut t = en(&name, repr, variants);
                            t.quick = repr == Repr::CU8;
                            v.push(t);
                        }
                    }
                }
            }
        }
    }
    // enums with fields: shapes x reprs x discriminant assignments
    let shapes: Vec<(&str, Vec<(&'static str, Vec<Ty>)>)> = vec![
        ("a", vec![("X", vec![Ty::U8]), ("Y", vec![Ty::U8])]),
        ("b", vec![("X", vec![Ty::U8]), ("Y", vec![Ty::U16])]),
        ("c", vec![("X", vec![Ty::U32]), ("Y", vec![Ty::U8])]),
        ("d", vec![("X", vec![Ty::U8, Ty::U32]), ("Y", vec![])]),
    ];
    for (sc, sh) in &shapes {
        for repr in [Repr::None, Repr::U8, Repr::CU8, Repr::U16, Repr::CU16] {
            let assigns: Vec<(&str, Vec<Option<u32>>)> = if repr == Repr::None { vec![("i", vec![None, None])] } else { vec![("i", vec![None, None]), ("e01", vec![Some(0), Some(1)]), ("e10", vec![Some(1), Some(0)])] };
            for (ac, asg) in assigns {
                let variants = sh.iter().zip(asg.iter()).map(|((n, f), d)| VariantDef { name: n, discr: *d, fields: f.clone(), ignored: None }).collect();
                let mut t = en(&format!("E{}_{}_{}", sc, repr.code(), ac), repr, variants);
                t.quick = matches!(repr, Repr::None | Repr::U8 | Repr::CU8) && *sc != "c";
                v.push(t);
            }
        }
    }
    // three variants, every permutation of 0..3 as explicit discriminants
    for repr in [Repr::U8, Repr::CU8] {
        let perms: [[u32; 3]; 6] = [[0, 1, 2], [0, 2, 1], [1, 0, 2], [1, 2, 0], [2, 0, 1], [2, 1, 0]];
        let mk = |d: Option<[u32; 3]>| -> Vec<VariantDef> { ["X", "Y", "Z"].iter().enumerate().map(|(i, n)| VariantDef { name: n, discr: d.map(|d| d[i]), fields: vec![Ty::U8], ignored: None }).collect() };
        v.push(en(&format!("Et_{}_i", repr.code()), repr, mk(None)));
        for p in perms {
            let mut t = en(&format!("Et_{}_e{}{}{}", repr.code(), p[0], p[1], p[2]), repr, mk(Some(p)));
            t.quick = repr == Repr::CU8;
            v.push(t);
        }
    }
    // fieldless enums
    for repr in [Repr::U8, Repr::U16, Repr::U32] {
        for (ac, asg) in [("i", [None, None]), ("e01", [Some(0), Some(1)]), ("e10", [Some(1), Some(0)]), ("e5a", [Some(5), Some(10)])] {
            let mut t = en(&format!("Ef_{}_{}", repr.code(), ac), repr, vec![var("A", asg[0], &[]), var("B", asg[1], &[])]);
            t.quick = repr != Repr::U32;
            v.push(t);
        }
    }
    v.push(en("Ef_n_i", Repr::None, vec![var("A", None, &[]), var("B", None, &[])]));
    v
}

/// Structure of the serialized form (what `diff_schema` compares): two definitions with the same
/// signature are candidates for a connection between interfaces that differ only in this type.
pub fn wire_sig(fam: &[TypeDef], t: &Ty) -> String {
    match t {
        Ty::Named(n) => def_sig(fam, fam.iter().find(|d| &d.name == n).expect("named type")),
        Ty::Arr(n) => format!("[u8;{}]", n),
        Ty::Tup => "{u8,u8}".into(),
        Ty::VecU32 | Ty::VecDequeU32 => "vec<u32>".into(),
        Ty::VecU16 => "vec<u16>".into(),
        other => other.code(),
    }
}
pub fn def_sig(fam: &[TypeDef], d: &TypeDef) -> String {
    match &d.def {
        Def::Alias(t) => wire_sig(fam, t),
        Def::Struct { fields, .. } => format!("{{{}}}", fields.iter().map(|f| wire_sig(fam, f)).collect::<Vec<_>>().join(",")),
        Def::Tuple { fields, ignored, .. } => format!("{{{}}}", fields.iter().enumerate().filter(|(i, _)| i != ignored).map(|(_, f)| wire_sig(fam, f)).collect::<Vec<_>>().join(",")),
        Def::Enum { repr, variants } => format!(
            "enum{}<{}>",
            repr.tag_width().unwrap_or(1),
            variants.iter().map(|v| format!("{}({})", v.name, v.fields.iter().enumerate().filter(|(i, _)| Some(*i) != v.ignored).map(|(_, f)| wire_sig(fam, f)).collect::<Vec<_>>().join(","))).collect::<Vec<_>>().join("|")
        ),
    }
}

/// no heap data anywhere inside (a wrong by-reference decision yields a wrong value, not a crash)
pub fn is_pod(fam: &[TypeDef], d: &TypeDef) -> bool {
    let ty_pod = |t: &Ty| match t {
        Ty::Named(n) => is_pod(fam, fam.iter().find(|d| &d.name == n).expect("named type")),
        other => !other.is_heap(),
    };
    match &d.def {
        Def::Alias(t) => ty_pod(t),
        Def::Struct { fields, .. } | Def::Tuple { fields, .. } => fields.iter().all(ty_pod),
        Def::Enum { variants, .. } => variants.iter().all(|v| v.fields.iter().all(ty_pod)),
    }
}

/// ordered pairs (caller type, implementation type) for the in-process call layer: POD
/// definitions with the same serialized structure
pub fn call_pairs(fam: &[TypeDef]) -> Vec<(usize, usize)> {
    let sigs: Vec<String> = fam.iter().map(|d| def_sig(fam, d)).collect();
    let mut out = vec![];
    for a in 0..fam.len() {
        for b in 0..fam.len() {
            if sigs[a] == sigs[b] && is_pod(fam, &fam[a]) && is_pod(fam, &fam[b]) && matches!(fam[a].def, Def::Struct { .. } | Def::Tuple { .. } | Def::Enum { .. }) && matches!(fam[b].def, Def::Struct { .. } | Def::Tuple { .. } | Def::Enum { .. }) {
                out.push((a, b));
            }
        }
    }
    out
}

// ---------------------------------------------------------------------------------------------
// emitter

fn emit_def(d: &TypeDef, o: &mut String) {
    match &d.def {
        Def::Alias(t) => writeln!(o, "pub type {} = {};", d.name, t.rust()).unwrap(),
        Def::Struct { repr_c, align8, fields } => {
            writeln!(o, "#[derive(Savefile)]").unwrap();
            if *align8 {
                writeln!(o, "#[repr(C, align(8))]").unwrap();
            } else if *repr_c {
                writeln!(o, "#[repr(C)]").unwrap();
            }
            writeln!(o, "pub struct {} {{ {} }}", d.name, fields.iter().enumerate().map(|(i, f)| format!("pub f{}: {}", i, f.rust())).collect::<Vec<_>>().join(", ")).unwrap();
            // Pod
            writeln!(o, "impl Pod for {} {{", d.name).unwrap();
            writeln!(
                o,
                "    fn facts() -> Facts {{ Facts::Struct {{ size: std::mem::size_of::<Self>(), align: std::mem::align_of::<Self>(), fields: vec![{}] }} }}",
                fields.iter().enumerate().map(|(i, f)| format!("(std::mem::offset_of!({}, f{}), <{} as Pod>::facts())", d.name, i, f.rust())).collect::<Vec<_>>().join(", ")
            )
            .unwrap();
            writeln!(o, "    fn to_lv(&self) -> LV {{ LV::Rec(vec![{}]) }}", (0..fields.len()).map(|i| format!("self.f{}.to_lv()", i)).collect::<Vec<_>>().join(", ")).unwrap();
            writeln!(
                o,
                "    fn from_lv(v: &LV) -> Self {{ let r = v.rec(); {} {{ {} }} }}",
                d.name,
                fields.iter().enumerate().map(|(i, f)| format!("f{}: <{} as Pod>::from_lv(&r[{}])", i, f.rust(), i)).collect::<Vec<_>>().join(", ")
            )
            .unwrap();
            writeln!(o, "    fn values() -> Vec<LV> {{ product(vec![{}]).into_iter().map(LV::Rec).collect() }}", fields.iter().map(|f| format!("<{} as Pod>::values()", f.rust())).collect::<Vec<_>>().join(", ")).unwrap();
            writeln!(o, "}}").unwrap();
        }
        Def::Tuple { repr_c, fields, ignored } => {
            writeln!(o, "#[derive(Savefile)]").unwrap();
            if *repr_c {
                writeln!(o, "#[repr(C)]").unwrap();
            }
            writeln!(o, "pub struct {}({});", d.name, fields.iter().enumerate().map(|(i, f)| format!("{}pub {}", if i == *ignored { "#[savefile_ignore] " } else { "" }, f.rust())).collect::<Vec<_>>().join(", ")).unwrap();
            let ser: Vec<(usize, &Ty)> = fields.iter().enumerate().filter(|(i, _)| i != ignored).collect();
            writeln!(o, "impl Pod for {} {{", d.name).unwrap();
            writeln!(
                o,
                "    fn facts() -> Facts {{ Facts::Struct {{ size: std::mem::size_of::<Self>(), align: std::mem::align_of::<Self>(), fields: vec![{}] }} }}",
                ser.iter().map(|(i, f)| format!("(std::mem::offset_of!({}, {}), <{} as Pod>::facts())", d.name, i, f.rust())).collect::<Vec<_>>().join(", ")
            )
            .unwrap();
            writeln!(o, "    fn to_lv(&self) -> LV {{ LV::Rec(vec![{}]) }}", ser.iter().map(|(i, _)| format!("self.{}.to_lv()", i)).collect::<Vec<_>>().join(", ")).unwrap();
            let mut k = 0;
            let parts: Vec<String> = fields
                .iter()
                .enumerate()
                .map(|(i, f)| {
                    if i == *ignored {
                        "0xEE".to_string()
                    } else {
                        k += 1;
                        format!("<{} as Pod>::from_lv(&r[{}])", f.rust(), k - 1)
                    }
                })
                .collect();
            writeln!(o, "    fn from_lv(v: &LV) -> Self {{ let r = v.rec(); {}({}) }}", d.name, parts.join(", ")).unwrap();
            writeln!(o, "    fn values() -> Vec<LV> {{ product(vec![{}]).into_iter().map(LV::Rec).collect() }}", ser.iter().map(|(_, f)| format!("<{} as Pod>::values()", f.rust())).collect::<Vec<_>>().join(", ")).unwrap();
            writeln!(o, "}}").unwrap();
        }
        Def::Enum { repr, variants } => {
            writeln!(o, "#[derive(Savefile)]\n{}", repr.attr()).unwrap();
            writeln!(
                o,
                "pub enum {} {{ {} }}",
                d.name,
                variants
                    .iter()
                    .map(|v| {
                        let f = if v.fields.is_empty() { String::new() } else { format!("({})", v.fields.iter().enumerate().map(|(i, f)| format!("{}{}", if Some(i) == v.ignored { "#[savefile_ignore] " } else { "" }, f.rust())).collect::<Vec<_>>().join(", ")) };
                        let dsc = v.discr.map(|x| format!(" = {}", x)).unwrap_or_default();
                        format!("{}{}{}", v.name, f, dsc)
                    })
                    .collect::<Vec<_>>()
                    .join(", ")
            )
            .unwrap();
            let pat = |v: &VariantDef| -> String {
                if v.fields.is_empty() {
                    format!("{}::{}", d.name, v.name)
                } else {
                    format!("{}::{}({})", d.name, v.name, (0..v.fields.len()).map(|i| format!("g{}", i)).collect::<Vec<_>>().join(", "))
                }
            };
            writeln!(o, "impl Pod for {} {{", d.name).unwrap();
            // facts: a value of every variant is constructed; its tag bytes and field addresses are read
            writeln!(o, "    fn facts() -> Facts {{\n        let mut variants = vec![];").unwrap();
            for (vi, v) in variants.iter().enumerate() {
                writeln!(o, "        {{ let val = Self::from_lv(&Self::values().into_iter().find(|x| x.var().0 == {}).unwrap()); let base = &val as *const Self as usize;", vi).unwrap();
                match repr.tag_width() {
                    Some(w) => writeln!(o, "          let tag: Vec<u8> = unsafe {{ std::slice::from_raw_parts(&val as *const Self as *const u8, {}) }}.to_vec();", w).unwrap(),
                    None => writeln!(o, "          let tag: Vec<u8> = vec![];").unwrap(),
                }
                writeln!(
                    o,
                    "          #[allow(unreachable_patterns)] let fields = match &val {{ {} => vec![{}], _ => unreachable!() }};",
                    pat(v),
                    v.fields.iter().enumerate().filter(|(i, _)| Some(*i) != v.ignored).map(|(i, f)| format!("(g{} as *const {} as usize - base, <{} as Pod>::facts())", i, f.rust(), f.rust())).collect::<Vec<_>>().join(", ")
                )
                .unwrap();
                writeln!(o, "          let _ = base; variants.push((tag, fields)); }}").unwrap();
            }
            writeln!(o, "        Facts::Enum {{ size: std::mem::size_of::<Self>(), align: std::mem::align_of::<Self>(), tag_width: {:?}, variants }}\n    }}", repr.tag_width()).unwrap();
            writeln!(o, "    fn to_lv(&self) -> LV {{ match self {{").unwrap();
            for (vi, v) in variants.iter().enumerate() {
                writeln!(o, "        {} => LV::Var({}, vec![{}]),", pat(v), vi, (0..v.fields.len()).filter(|i| Some(*i) != v.ignored).map(|i| format!("g{}.to_lv()", i)).collect::<Vec<_>>().join(", ")).unwrap();
            }
            writeln!(o, "    }} }}").unwrap();
            writeln!(o, "    fn from_lv(v: &LV) -> Self {{ let (i, r) = v.var(); match i {{").unwrap();
            for (vi, v) in variants.iter().enumerate() {
                let build = if v.fields.is_empty() {
                    format!("{}::{}", d.name, v.name)
                } else {
                    {
                        let mut k = 0;
                        let parts: Vec<String> = v
                            .fields
                            .iter()
                            .enumerate()
                            .map(|(i, f)| {
                                if Some(i) == v.ignored {
                                    "0xEE".to_string()
                                } else {
                                    k += 1;
                                    format!("<{} as Pod>::from_lv(&r[{}])", f.rust(), k - 1)
                                }
                            })
                            .collect();
                        format!("{}::{}({})", d.name, v.name, parts.join(", "))
                    }
                };
                writeln!(o, "        {} => {},", vi, build).unwrap();
            }
            writeln!(o, "        _ => panic!(\"harness: no such variant\"), }} }}").unwrap();
            writeln!(o, "    fn values() -> Vec<LV> {{ let mut out = vec![];").unwrap();
            for (vi, v) in variants.iter().enumerate() {
                writeln!(o, "        out.extend(product(vec![{}]).into_iter().map(|r| LV::Var({}, r)));", v.fields.iter().enumerate().filter(|(i, _)| Some(*i) != v.ignored).map(|(_, f)| format!("<{} as Pod>::values()", f.rust())).collect::<Vec<_>>().join(", "), vi).unwrap();
            }
            writeln!(o, "        out }}\n}}").unwrap();
        }
    }
}

/// `types.rs`: definitions + Pod impls + registry
pub fn emit_types() -> String {
    let fam = family();
    let mut o = String::new();
    o.push_str("// generated by build.rs from src/spec.rs - do not edit\n");
    for d in &fam {
        emit_def(d, &mut o);
    }
    o.push_str("pub fn registry() -> Vec<Entry> {\n    vec![\n");
    for d in &fam {
        writeln!(o, "        entry::<{}>(\"{}\"),", d.name, d.name).unwrap();
    }
    o.push_str("    ]\n}\n");
    o
}

/// `ifaces.rs`: one exported trait per derived POD type, recording implementations, the
/// connection table over `call_pairs`
pub fn emit_ifaces() -> String {
    let fam = family();
    let pairs = call_pairs(&fam);
    let mut used: Vec<usize> = pairs.iter().flat_map(|(a, b)| [*a, *b]).collect();
    used.sort();
    used.dedup();
    let mut o = String::new();
    o.push_str("// generated by build.rs from src/spec.rs - do not edit\n");
    for i in &used {
        let n = &fam[*i].name;
        writeln!(o, "pub mod i_{} {{\n    use super::*;\n    #[savefile_abi_exportable(version = 0)]\n    pub trait Iface {{ fn f(&self, x: &{n}) -> u64; }}\n    pub struct Impl;\n    impl Iface for Impl {{ fn f(&self, x: &{n}) -> u64 {{ observe(x.to_lv()); 1 }} }}", n.to_lowercase(), n = n).unwrap();
        writeln!(o, "    pub struct Caller(pub AbiConnection<dyn Iface>);\n    impl CallShim for Caller {{\n        fn by_ref(&self) -> bool {{ self.0.get_arg_passable_by_ref(\"f\", 0) }}\n        fn call(&self, v: &LV) -> u64 {{ let x = <{n} as Pod>::from_lv(v); self.0.f(&x) }}\n    }}", n = n).unwrap();
        writeln!(o, "    pub fn connect(callee: usize) -> Option<Result<Box<dyn CallShim>, String>> {{\n        match callee {{").unwrap();
        for (a, b) in pairs.iter().filter(|(a, _)| a == i) {
            let _ = a;
            let m = fam[*b].name.to_lowercase();
            writeln!(
                o,
                "            {b} => Some(unsafe {{ AbiConnection::<dyn Iface>::from_boxed_trait_for_test(<dyn super::i_{m}::Iface as AbiExportable>::ABI_ENTRY, Box::new(super::i_{m}::Impl) as Box<dyn super::i_{m}::Iface>) }}.map(|c| Box::new(Caller(c)) as Box<dyn CallShim>).map_err(|e| format!(\"{{:?}}\", e))),",
                b = b,
                m = m
            )
            .unwrap();
        }
        writeln!(o, "            _ => None,\n        }}\n    }}\n}}").unwrap();
    }
    o.push_str("pub fn connect(caller: usize, callee: usize) -> Option<Result<Box<dyn CallShim>, String>> {\n    match caller {\n");
    for i in &used {
        writeln!(o, "        {} => i_{}::connect(callee),", i, fam[*i].name.to_lowercase()).unwrap();
    }
    o.push_str("        _ => None,\n    }\n}\n");
    o
}

// ---------------------------------------------------------------------------------------------
// layer 3: the probe interface implemented by a separately compiled cdylib

#[derive(Clone, Copy, Debug, PartialEq, Eq)]
pub enum Pass {
    Val,
    Ref,
    /// &str built from a String value
    Str,
    /// &[u32] built from a Vec<u32> value
    Slice,
}
#[derive(Clone, Debug)]
pub struct ProbeMethod {
    pub trait_name: String,
    pub name: String,
    /// the Pod type whose values are sent (its layout is compared between the two compilations)
    pub pod: String,
    pub pass: Pass,
    /// coarse class of the argument type, for the evidence
    pub class: &'static str,
}
impl ProbeMethod {
    pub fn arg(&self) -> String {
        match self.pass {
            Pass::Val => self.pod.clone(),
            Pass::Ref => format!("&{}", self.pod),
            Pass::Str => "&str".into(),
            Pass::Slice => "&[u32]".into(),
        }
    }
}

pub fn probe_types() -> Vec<TypeDef> {
    family().into_iter().filter(|d| d.plugin || ["EC", "EU", "F3"].contains(&d.name.as_str())).collect()
}

pub fn probe_methods() -> Vec<ProbeMethod> {
    let mut out = vec![];
    let structs: Vec<TypeDef> = probe_types().into_iter().filter(|d| matches!(d.def, Def::Struct { .. })).collect();
    for (i, d) in structs.iter().enumerate() {
        let Def::Struct { repr_c, .. } = &d.def else { unreachable!() };
        out.push(ProbeMethod { trait_name: format!("ProbeS{}", i / 24), name: format!("s_{}", d.name.to_lowercase()), pod: d.name.clone(), pass: Pass::Ref, class: if *repr_c { "struct repr(C)" } else { "struct repr(Rust)" } });
    }
    let k = |name: &str, pod: &str, pass: Pass, class: &'static str| ProbeMethod { trait_name: "ProbeK".into(), name: name.into(), pod: pod.into(), pass, class };
    out.push(k("k_u32", "u32", Pass::Val, "primitive"));
    out.push(k("k_ru32", "u32", Pass::Ref, "primitive"));
    out.push(k("k_ru64", "u64", Pass::Ref, "primitive"));
    out.push(k("k_rbool", "bool", Pass::Ref, "primitive"));
    out.push(k("k_string", "String", Pass::Val, "String"));
    out.push(k("k_rstring", "String", Pass::Ref, "String"));
    out.push(k("k_str", "String", Pass::Str, "&str"));
    out.push(k("k_slice", "Vec<u32>", Pass::Slice, "&[u32]"));
    out.push(k("k_vec", "Vec<u32>", Pass::Val, "Vec"));
    out.push(k("k_rvec", "Vec<u32>", Pass::Ref, "Vec"));
    out.push(k("k_rtup", "(u8, u8)", Pass::Ref, "tuple"));
    out.push(k("k_s_c", "Sc_u8_u32_u16", Pass::Val, "struct repr(C)"));
    out.push(k("k_s_r", "Sr_u8_u32_u16", Pass::Val, "struct repr(Rust)"));
    out.push(k("k_vecs_c", "Vec<Sc_u8_u32>", Pass::Val, "Vec of struct repr(C)"));
    out.push(k("k_vecs_r", "Vec<Sr_u8_u32>", Pass::Val, "Vec of struct repr(Rust)"));
    out.push(k("k_rvecs_c", "Vec<Sc_u8_u32>", Pass::Ref, "Vec of struct repr(C)"));
    out.push(k("k_rvecs_r", "Vec<Sr_u8_u32>", Pass::Ref, "Vec of struct repr(Rust)"));
    out.push(k("k_rec", "EC", Pass::Ref, "enum repr(C,u8)"));
    out.push(k("k_reu", "EU", Pass::Ref, "enum repr(u8)"));
    out.push(k("k_rf3", "F3", Pass::Ref, "fieldless enum repr(u8)"));
    out
}

/// `probe.rs`: type definitions, the probe traits and the recording implementation - compiled
/// into the host (module `gen::probe`) AND, verbatim, into the plugin crate.
pub fn emit_probe() -> String {
    let mut o = String::new();
    o.push_str("// generated by build.rs from src/spec.rs - do not edit\n");
    for d in probe_types() {
        emit_def(&d, &mut o);
    }
    let ms = probe_methods();
    let mut traits: Vec<String> = ms.iter().map(|m| m.trait_name.clone()).collect();
    traits.dedup();
    let mut pods: Vec<String> = ms.iter().map(|m| m.pod.clone()).collect();
    pods.sort();
    pods.dedup();
    writeln!(o, "pub fn layout_of(name: &str) -> String {{\n    match name {{").unwrap();
    for p in &pods {
        writeln!(o, "        {:?} => format!(\"{{:?}}\", <{} as Pod>::facts()),", p, p).unwrap();
    }
    writeln!(o, "        _ => \"unknown type\".to_string(),\n    }}\n}}").unwrap();
    for t in &traits {
        writeln!(o, "#[savefile_abi_exportable(version = 0)]\npub trait {} {{", t).unwrap();
        for m in ms.iter().filter(|m| &m.trait_name == t) {
            writeln!(o, "    fn {}(&self, x: {}) -> String;", m.name, m.arg()).unwrap();
        }
        if t == "ProbeK" {
            writeln!(o, "    fn layout_of(&self, name: String) -> String;").unwrap();
        }
        writeln!(o, "}}").unwrap();
        writeln!(o, "#[derive(Default)]\npub struct Impl{};\nimpl {} for Impl{} {{", t, t, t).unwrap();
        for m in ms.iter().filter(|m| &m.trait_name == t) {
            let body = match m.pass {
                Pass::Val | Pass::Ref => "x.to_lv().render()".to_string(),
                Pass::Str => "LV::S(x.to_string()).render()".to_string(),
                Pass::Slice => "LV::List(x.iter().map(|e| e.to_lv()).collect()).render()".to_string(),
            };
            writeln!(o, "    fn {}(&self, x: {}) -> String {{ {} }}", m.name, m.arg(), body).unwrap();
        }
        if t == "ProbeK" {
            writeln!(o, "    fn layout_of(&self, name: String) -> String {{ layout_of(&name) }}").unwrap();
        }
        writeln!(o, "}}").unwrap();
    }
    o
}

/// the exports of the plugin crate (not compiled into the host)
pub fn emit_probe_exports() -> String {
    let mut traits: Vec<String> = probe_methods().iter().map(|m| m.trait_name.clone()).collect();
    traits.dedup();
    traits.iter().map(|t| format!("savefile_abi_export!(Impl{}, {});\n", t, t)).collect()
}

/// `probe_host.rs`: type-erased access of the host to a loaded plugin
pub fn emit_probe_host() -> String {
    let ms = probe_methods();
    let mut traits: Vec<String> = ms.iter().map(|m| m.trait_name.clone()).collect();
    traits.dedup();
    let mut o = String::new();
    o.push_str("// generated by build.rs from src/spec.rs - do not edit\n");
    for t in &traits {
        writeln!(o, "pub struct Conn{}(pub AbiConnection<dyn probe::{}>);\nimpl ProbeConn for Conn{} {{", t, t, t).unwrap();
        writeln!(o, "    fn by_ref(&self, method: &str) -> bool {{ self.0.get_arg_passable_by_ref(method, 0) }}").unwrap();
        writeln!(o, "    fn call(&self, method: &str, v: &LV) -> String {{\n        use probe::{};\n        match method {{", t).unwrap();
        for m in ms.iter().filter(|m| &m.trait_name == t) {
            let pod = if probe_types().iter().any(|d| m.pod.contains(&d.name)) { m.pod.replace("Vec<", "Vec<probe::") } else { m.pod.clone() };
            let pod = if pod.starts_with("Vec<") || !probe_types().iter().any(|d| d.name == m.pod) { pod } else { format!("probe::{}", pod) };
            let call = match m.pass {
                Pass::Val => format!("self.0.{}(<{} as Pod>::from_lv(v))", m.name, pod),
                Pass::Ref => format!("{{ let x = <{} as Pod>::from_lv(v); self.0.{}(&x) }}", pod, m.name),
                Pass::Str => format!("{{ let x = <String as Pod>::from_lv(v); self.0.{}(&x) }}", m.name),
                Pass::Slice => format!("{{ let x = <Vec<u32> as Pod>::from_lv(v); self.0.{}(&x[..]) }}", m.name),
            };
            writeln!(o, "            {:?} => {},", m.name, call).unwrap();
        }
        if t == "ProbeK" {
            writeln!(o, "            \"layout_of\" => match v {{ LV::S(s) => self.0.layout_of(s.clone()), _ => panic!(\"harness: layout_of takes a name\") }},").unwrap();
        }
        writeln!(o, "            other => panic!(\"harness: no probe method {{}}\", other),\n        }}\n    }}\n}}").unwrap();
    }
    writeln!(o, "pub fn load_probe(trait_name: &str, path: &str) -> Option<Result<Box<dyn ProbeConn>, String>> {{\n    match trait_name {{").unwrap();
    for t in &traits {
        writeln!(o, "        {:?} => Some(AbiConnection::<dyn probe::{}>::load_shared_library(path).map(|c| Box::new(Conn{}(c)) as Box<dyn ProbeConn>).map_err(|e| format!(\"{{:?}}\", e))),", t, t, t).unwrap();
    }
    writeln!(o, "        _ => None,\n    }}\n}}").unwrap();
    // values and host-side layouts of the Pod types
    writeln!(o, "pub fn probe_values(pod: &str) -> Vec<LV> {{\n    match pod {{").unwrap();
    let mut pods: Vec<String> = ms.iter().map(|m| m.pod.clone()).collect();
    pods.sort();
    pods.dedup();
    for p in &pods {
        let q = if p.starts_with("Vec<S") { p.replace("Vec<", "Vec<probe::") } else if probe_types().iter().any(|d| &d.name == p) { format!("probe::{}", p) } else { p.clone() };
        writeln!(o, "        {:?} => <{} as Pod>::values(),", p, q).unwrap();
    }
    writeln!(o, "        _ => vec![],\n    }}\n}}").unwrap();
    o
}
