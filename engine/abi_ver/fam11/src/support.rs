//! Runtime pieces of the C11 family: neutral values, measured layout facts, the `Pod` trait that
//! every member implements, and the type-erased table entry.
use std::cell::RefCell;
use std::collections::VecDeque;

/// neutral value tree (positional: field names are not part of a layout)
#[derive(Clone, Debug, PartialEq, Eq, Hash)]
pub enum LV {
    U(u64),
    B(bool),
    S(String),
    Rec(Vec<LV>),
    /// variant by declaration index
    Var(u32, Vec<LV>),
    List(Vec<LV>),
}
impl LV {
    pub fn rec(&self) -> &[LV] {
        match self {
            LV::Rec(r) => r,
            other => panic!("harness: not a record: {:?}", other),
        }
    }
    pub fn var(&self) -> (u32, &[LV]) {
        match self {
            LV::Var(i, r) => (*i, r),
            other => panic!("harness: not a variant: {:?}", other),
        }
    }
    pub fn render(&self) -> String {
        match self {
            LV::U(x) => format!("{}", x),
            LV::B(b) => format!("{}", b),
            LV::S(s) => format!("{:?}", s),
            LV::Rec(r) => format!("{{{}}}", r.iter().map(|x| x.render()).collect::<Vec<_>>().join(",")),
            LV::Var(i, r) => format!("#{}({})", i, r.iter().map(|x| x.render()).collect::<Vec<_>>().join(",")),
            LV::List(r) => format!("[{}]", r.iter().map(|x| x.render()).collect::<Vec<_>>().join(",")),
        }
    }
}

/// cartesian product of value lists
pub fn product(lists: Vec<Vec<LV>>) -> Vec<Vec<LV>> {
    let mut out: Vec<Vec<LV>> = vec![vec![]];
    for l in lists {
        let mut next = vec![];
        for p in &out {
            for x in &l {
                let mut q = p.clone();
                q.push(x.clone());
                next.push(q);
            }
        }
        out = next;
    }
    out
}

/// MEASURED memory layout of a type in this compilation
#[derive(Clone, Debug, PartialEq, Eq)]
pub enum Facts {
    Prim { name: &'static str, size: usize, align: usize },
    Array { size: usize, align: usize, count: usize, elem: Box<Facts> },
    /// structs and tuples: (offset, layout) of every field
    Struct { size: usize, align: usize, fields: Vec<(usize, Facts)> },
    /// tag_width None: no primitive representation, the layout is unspecified.
    /// Per variant: the bytes of the tag as found in memory, (offset, layout) of every field.
    Enum { size: usize, align: usize, tag_width: Option<usize>, variants: Vec<(Vec<u8>, Vec<(usize, Facts)>)> },
    /// Vec / VecDeque / String: which word holds pointer, capacity, length (None: not the 3-word form)
    Seq { kind: &'static str, size: usize, align: usize, words: Option<[usize; 3]>, elem: Box<Facts> },
}

impl Facts {
    /// first difference between two layouts, or a part that is not specified at all
    pub fn difference(&self, other: &Facts, path: &str) -> Option<(&'static str, String)> {
        match (self, other) {
            (Facts::Prim { name: a, size: s1, align: a1 }, Facts::Prim { name: b, size: s2, align: a2 }) => {
                if a != b || s1 != s2 || a1 != a2 {
                    Some(("primitive", format!("{}: {} (size {}, align {}) vs {} (size {}, align {})", path, a, s1, a1, b, s2, a2)))
                } else {
                    None
                }
            }
            (Facts::Array { size: s1, align: a1, count: c1, elem: e1 }, Facts::Array { size: s2, align: a2, count: c2, elem: e2 }) => {
                if s1 != s2 || a1 != a2 || c1 != c2 {
                    return Some(("array", format!("{}: array of {} (size {}, align {}) vs array of {} (size {}, align {})", path, c1, s1, a1, c2, s2, a2)));
                }
                e1.difference(e2, &format!("{}[]", path))
            }
            (Facts::Struct { size: s1, align: a1, fields: f1 }, Facts::Struct { size: s2, align: a2, fields: f2 }) => {
                if s1 != s2 || a1 != a2 || f1.len() != f2.len() {
                    return Some(("struct_size_align_fields", format!("{}: struct size {} align {} with {} fields vs size {} align {} with {} fields", path, s1, a1, f1.len(), s2, a2, f2.len())));
                }
                for (i, ((o1, x1), (o2, x2))) in f1.iter().zip(f2.iter()).enumerate() {
                    if o1 != o2 {
                        return Some(("field_offset", format!("{}.{}: offset {} vs {}", path, i, o1, o2)));
                    }
                    if let Some(d) = x1.difference(x2, &format!("{}.{}", path, i)) {
                        return Some(d);
                    }
                }
                None
            }
            (Facts::Enum { size: s1, align: a1, tag_width: t1, variants: v1 }, Facts::Enum { size: s2, align: a2, tag_width: t2, variants: v2 }) => {
                let (Some(t1), Some(t2)) = (t1, t2) else {
                    return Some(("enum_layout_unspecified", format!("{}: an enum without a primitive representation has no specified layout", path)));
                };
                if s1 != s2 || a1 != a2 || t1 != t2 || v1.len() != v2.len() {
                    return Some(("enum_size_align_tagwidth_variants", format!("{}: enum size {} align {} tag width {} with {} variants vs size {} align {} tag width {} with {} variants", path, s1, a1, t1, v1.len(), s2, a2, t2, v2.len())));
                }
                for (i, ((tag1, f1), (tag2, f2))) in v1.iter().zip(v2.iter()).enumerate() {
                    if tag1 != tag2 {
                        return Some(("variant_tag_in_memory", format!("{}#{}: the variant's tag in memory is {:?} vs {:?}", path, i, tag1, tag2)));
                    }
                    if f1.len() != f2.len() {
                        return Some(("variant_field_count", format!("{}#{}: {} vs {} fields", path, i, f1.len(), f2.len())));
                    }
                    for (k, ((o1, x1), (o2, x2))) in f1.iter().zip(f2.iter()).enumerate() {
                        if o1 != o2 {
                            return Some(("field_offset", format!("{}#{}.{}: offset {} vs {}", path, i, k, o1, o2)));
                        }
                        if let Some(d) = x1.difference(x2, &format!("{}#{}.{}", path, i, k)) {
                            return Some(d);
                        }
                    }
                }
                None
            }
            (Facts::Seq { kind: k1, size: s1, align: a1, words: w1, elem: e1 }, Facts::Seq { kind: k2, size: s2, align: a2, words: w2, elem: e2 }) => {
                if k1 != k2 || s1 != s2 || a1 != a2 {
                    return Some(("collection_kind", format!("{}: {} (size {}, align {}) vs {} (size {}, align {})", path, k1, s1, a1, k2, s2, a2)));
                }
                let (Some(w1), Some(w2)) = (w1, w2) else {
                    return Some(("collection_layout_unknown", format!("{}: the collection is not of the probed pointer/capacity/length form", path)));
                };
                if w1 != w2 {
                    return Some(("collection_words", format!("{}: pointer/capacity/length words {:?} vs {:?}", path, w1, w2)));
                }
                e1.difference(e2, &format!("{}[]", path))
            }
            (a, b) => Some(("kind_of_type", format!("{}: different kinds of type: {} vs {}", path, a.kind(), b.kind()))),
        }
    }
    pub fn kind(&self) -> &'static str {
        match self {
            Facts::Prim { name, .. } => name,
            Facts::Array { .. } => "array",
            Facts::Struct { .. } => "struct",
            Facts::Enum { .. } => "enum",
            Facts::Seq { kind, .. } => kind,
        }
    }
    pub fn size(&self) -> usize {
        match self {
            Facts::Prim { size, .. } | Facts::Array { size, .. } | Facts::Struct { size, .. } | Facts::Enum { size, .. } | Facts::Seq { size, .. } => *size,
        }
    }
    pub fn align(&self) -> usize {
        match self {
            Facts::Prim { align, .. } | Facts::Array { align, .. } | Facts::Struct { align, .. } | Facts::Enum { align, .. } | Facts::Seq { align, .. } => *align,
        }
    }
}

/// member of the family
pub trait Pod: savefile::Serialize + savefile::Deserialize + savefile::WithSchema + savefile::Packed + Sized + 'static {
    fn facts() -> Facts;
    fn to_lv(&self) -> LV;
    fn from_lv(v: &LV) -> Self;
    fn values() -> Vec<LV>;
}

macro_rules! prim {
    ($t:ty, $name:literal, $vals:expr) => {
        impl Pod for $t {
            fn facts() -> Facts {
                Facts::Prim { name: $name, size: std::mem::size_of::<$t>(), align: std::mem::align_of::<$t>() }
            }
            fn to_lv(&self) -> LV {
                LV::U(*self as u64)
            }
            fn from_lv(v: &LV) -> Self {
                match v {
                    LV::U(x) => *x as $t,
                    other => panic!("harness: not an integer: {:?}", other),
                }
            }
            fn values() -> Vec<LV> {
                let v: Vec<u64> = $vals;
                v.into_iter().map(LV::U).collect()
            }
        }
    };
}
prim!(u8, "u8", vec![0x07, 0xff]);
prim!(u16, "u16", vec![0x0102, 0xffff]);
prim!(u32, "u32", vec![0x01020304, 0]);
prim!(u64, "u64", vec![0x0102030405060708, 1]);

impl Pod for bool {
    fn facts() -> Facts {
        Facts::Prim { name: "bool", size: 1, align: 1 }
    }
    fn to_lv(&self) -> LV {
        LV::B(*self)
    }
    fn from_lv(v: &LV) -> Self {
        match v {
            LV::B(b) => *b,
            other => panic!("harness: not a bool: {:?}", other),
        }
    }
    fn values() -> Vec<LV> {
        vec![LV::B(true), LV::B(false)]
    }
}

impl<const N: usize> Pod for [u8; N] {
    fn facts() -> Facts {
        Facts::Array { size: std::mem::size_of::<Self>(), align: std::mem::align_of::<Self>(), count: N, elem: Box::new(u8::facts()) }
    }
    fn to_lv(&self) -> LV {
        LV::List(self.iter().map(|x| x.to_lv()).collect())
    }
    fn from_lv(v: &LV) -> Self {
        match v {
            LV::List(l) => std::array::from_fn(|i| u8::from_lv(&l[i])),
            other => panic!("harness: not a list: {:?}", other),
        }
    }
    fn values() -> Vec<LV> {
        vec![LV::List((0..N).map(|i| LV::U(0x21 + i as u64)).collect()), LV::List((0..N).map(|_| LV::U(0)).collect())]
    }
}

impl Pod for (u8, u8) {
    fn facts() -> Facts {
        let u = std::mem::MaybeUninit::<(u8, u8)>::uninit();
        let p = u.as_ptr();
        let (o0, o1) = unsafe { (std::ptr::addr_of!((*p).0) as usize - p as usize, std::ptr::addr_of!((*p).1) as usize - p as usize) };
        Facts::Struct { size: std::mem::size_of::<Self>(), align: std::mem::align_of::<Self>(), fields: vec![(o0, u8::facts()), (o1, u8::facts())] }
    }
    fn to_lv(&self) -> LV {
        LV::Rec(vec![self.0.to_lv(), self.1.to_lv()])
    }
    fn from_lv(v: &LV) -> Self {
        let r = v.rec();
        (u8::from_lv(&r[0]), u8::from_lv(&r[1]))
    }
    fn values() -> Vec<LV> {
        vec![LV::Rec(vec![LV::U(0x31), LV::U(0x32)]), LV::Rec(vec![LV::U(0), LV::U(0xff)])]
    }
}

/// which of the three words of a Vec-like value holds pointer / capacity / length
fn probe_words<T>(make: impl FnOnce() -> (T, usize, usize, usize)) -> Option<[usize; 3]> {
    if std::mem::size_of::<T>() != 3 * std::mem::size_of::<usize>() {
        return None;
    }
    let (v, ptr, cap, len) = make();
    let w: [usize; 3] = unsafe { std::mem::transmute_copy(&v) };
    let find = |x: usize| -> Option<usize> {
        let hits: Vec<usize> = (0..3).filter(|i| w[*i] == x).collect();
        if hits.len() == 1 {
            Some(hits[0])
        } else {
            None
        }
    };
    let r = match (find(ptr), find(cap), find(len)) {
        (Some(a), Some(b), Some(c)) => Some([a, b, c]),
        _ => None,
    };
    drop(v);
    r
}

impl<T: Pod> Pod for Vec<T> {
    fn facts() -> Facts {
        let words = probe_words::<Vec<T>>(|| {
            let mut v: Vec<T> = Vec::with_capacity(7);
            v.push(T::from_lv(&T::values()[0]));
            let (p, c, l) = (v.as_ptr() as usize, v.capacity(), v.len());
            (v, p, c, l)
        });
        Facts::Seq { kind: "Vec", size: std::mem::size_of::<Self>(), align: std::mem::align_of::<Self>(), words, elem: Box::new(T::facts()) }
    }
    fn to_lv(&self) -> LV {
        LV::List(self.iter().map(|x| x.to_lv()).collect())
    }
    fn from_lv(v: &LV) -> Self {
        match v {
            LV::List(l) => l.iter().map(T::from_lv).collect(),
            other => panic!("harness: not a list: {:?}", other),
        }
    }
    fn values() -> Vec<LV> {
        let e = T::values();
        vec![LV::List(vec![e[0].clone(), e[e.len() - 1].clone(), e[0].clone()]), LV::List(vec![])]
    }
}

impl Pod for VecDeque<u32> {
    fn facts() -> Facts {
        Facts::Seq { kind: "VecDeque", size: std::mem::size_of::<Self>(), align: std::mem::align_of::<Self>(), words: None, elem: Box::new(u32::facts()) }
    }
    fn to_lv(&self) -> LV {
        LV::List(self.iter().map(|x| x.to_lv()).collect())
    }
    fn from_lv(v: &LV) -> Self {
        match v {
            LV::List(l) => l.iter().map(u32::from_lv).collect(),
            other => panic!("harness: not a list: {:?}", other),
        }
    }
    fn values() -> Vec<LV> {
        vec![LV::List(vec![LV::U(1), LV::U(2), LV::U(3)]), LV::List(vec![])]
    }
}

impl Pod for String {
    fn facts() -> Facts {
        let words = probe_words::<String>(|| {
            let mut v = String::with_capacity(7);
            v.push('x');
            let (p, c, l) = (v.as_ptr() as usize, v.capacity(), v.len());
            (v, p, c, l)
        });
        Facts::Seq { kind: "String", size: std::mem::size_of::<Self>(), align: std::mem::align_of::<Self>(), words, elem: Box::new(u8::facts()) }
    }
    fn to_lv(&self) -> LV {
        LV::S(self.clone())
    }
    fn from_lv(v: &LV) -> Self {
        match v {
            LV::S(s) => s.clone(),
            other => panic!("harness: not a string: {:?}", other),
        }
    }
    fn values() -> Vec<LV> {
        vec![LV::S("abc".into()), LV::S(String::new())]
    }
}

/// type-erased member of the family
pub struct Entry {
    pub name: &'static str,
    pub schema: fn() -> savefile::Schema,
    pub facts: fn() -> Facts,
    pub values: fn() -> Vec<LV>,
    /// serialized form (version 0) of the value
    pub ser: fn(&LV) -> Result<Vec<u8>, String>,
    pub deser: fn(&[u8]) -> Result<LV, String>,
    /// build the value and hand out the address of its memory
    pub with_mem: fn(&LV, &mut dyn FnMut(*const u8)),
    /// read the memory at the address as a value of this type
    pub read_mem: unsafe fn(*const u8) -> LV,
}

pub fn entry<T: Pod>(name: &'static str) -> Entry {
    fn ser<T: Pod>(v: &LV) -> Result<Vec<u8>, String> {
        let x = T::from_lv(v);
        let mut out = Vec::new();
        savefile::Serializer::bare_serialize(&mut out, 0, &x).map_err(|e| format!("{:?}", e))?;
        Ok(out)
    }
    fn deser<T: Pod>(b: &[u8]) -> Result<LV, String> {
        let mut c = std::io::Cursor::new(b);
        let x: T = savefile::Deserializer::bare_deserialize(&mut c, 0).map_err(|e| format!("{:?}", e))?;
        if c.position() as usize != b.len() {
            return Err(format!("{} of {} bytes consumed", c.position(), b.len()));
        }
        Ok(x.to_lv())
    }
    fn with_mem<T: Pod>(v: &LV, f: &mut dyn FnMut(*const u8)) {
        let x = T::from_lv(v);
        f(&x as *const T as *const u8);
        drop(x);
    }
    unsafe fn read_mem<T: Pod>(p: *const u8) -> LV {
        (*(p as *const T)).to_lv()
    }
    Entry { name, schema: || savefile::get_schema::<T>(0), facts: T::facts, values: T::values, ser: ser::<T>, deser: deser::<T>, with_mem: with_mem::<T>, read_mem: read_mem::<T> }
}

thread_local! {
    pub static OBSERVED: RefCell<Vec<LV>> = const { RefCell::new(Vec::new()) };
}
/// called by the recording implementations
pub fn observe(v: LV) {
    OBSERVED.with(|o| o.borrow_mut().push(v));
}
pub fn take_observed() -> Vec<LV> {
    OBSERVED.with(|o| std::mem::take(&mut *o.borrow_mut()))
}

/// type-erased caller side of one connection `IA -> IB`
pub trait CallShim {
    fn by_ref(&self) -> bool;
    fn call(&self, v: &LV) -> u64;
}

/// type-erased host side of one probe trait of a loaded plugin (layer 3)
pub trait ProbeConn {
    fn by_ref(&self, method: &str) -> bool;
    fn call(&self, method: &str, v: &LV) -> String;
}
