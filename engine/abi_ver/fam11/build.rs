// Emits the C11 family (src/spec.rs) into OUT_DIR/types.rs and OUT_DIR/ifaces.rs.
#[allow(dead_code)]
mod spec {
    include!("src/spec.rs");
}

fn write_if_changed(name: &str, text: String) {
    let out = std::path::PathBuf::from(std::env::var("OUT_DIR").unwrap()).join(name);
    let unchanged = std::fs::read_to_string(&out).map(|t| t == text).unwrap_or(false);
    if !unchanged {
        std::fs::write(&out, text).expect("write generated file");
    }
}

fn main() {
    println!("cargo:rerun-if-changed=src/spec.rs");
    println!("cargo:rerun-if-changed=build.rs");
    write_if_changed("types.rs", spec::emit_types());
    write_if_changed("ifaces.rs", spec::emit_ifaces());
    write_if_changed("probe.rs", spec::emit_probe());
    write_if_changed("probe_exports.rs", spec::emit_probe_exports());
    write_if_changed("probe_host.rs", spec::emit_probe_host());
}
