include!("../../fam10/shard_build.rs");
