include!("../../fam10o/oshard_build.rs");
