//! one shard of the generated C10 object family (written by build.rs, expanded by the real savefile macros)
#![allow(clippy::all)]
include!(concat!(env!("OUT_DIR"), "/ofamily.rs"));
