//! one shard of the generated C10 family (written by build.rs, expanded by the real savefile macros)
#![allow(clippy::all)]
include!(concat!(env!("OUT_DIR"), "/family.rs"));
