// C10, object family: interface revisions that differ ONLY in a nested object - the auto-trait
// bounds (Send, Sync; Unpin for futures) and the method set of a trait object, closure or future
// that a method of `Iface` takes as an argument or returns. This file is `include!`d by the build
// script of the object shard crates (which emit the family so that the REAL
// `#[savefile_abi_exportable]` macro expands it) and is a module of the library (where the engine
// uses the reference model). It depends on nothing but std.
//
// KIND     = where the object sits and what it is (one interface shape per kind).
// REVISION = (bounds, method set, interface version) of that one interface shape.
// The engine connects EVERY ordered pair (caller revision, implementation revision) of a kind.

use std::fmt::Write as _;

#[derive(Clone, Copy, Debug, PartialEq, Eq)]
pub enum Pos {
    /// the caller's code creates the object, the implementation receives and invokes it
    Arg,
    /// the implementation's code creates the object, the caller receives and invokes it
    Ret,
    /// the object is the implementation of `Iface` itself: created by the implementation's side,
    /// held by the caller as `AbiConnection<dyn Iface>`
    Top,
}

#[derive(Clone, Copy, Debug, PartialEq, Eq)]
pub enum Fam {
    /// `dyn W`, W a second exported trait: bounds are supertraits of W, the method set varies
    Trait,
    /// `dyn Fn(u32) -> u32 + bounds` / `dyn FnMut(u32) -> u32 + bounds`
    Closure,
    /// `Pin<Box<dyn Future<Output = u32> + bounds>>`
    Future,
    /// `dyn Iface` itself: bounds are supertraits of Iface
    Interface,
}

#[derive(Clone, Copy, Debug)]
pub struct Kind {
    pub id: &'static str,
    pub pos: Pos,
    pub fam: Fam,
    /// the object is the Ok value of a returned `Result<_, ()>`
    pub wrapped: bool,
    /// the type of the object with `{B}` where the bounds go (closures, futures)
    pub ty: &'static str,
    pub what: &'static str,
}

pub const KINDS: &[Kind] = &[
    Kind { id: "ab_t", pos: Pos::Arg, fam: Fam::Trait, wrapped: false, ty: "Box<dyn W>", what: "fn run(&self, w: Box<dyn W>, x: u32, sel: u32) -> u32" },
    Kind { id: "ar_t", pos: Pos::Arg, fam: Fam::Trait, wrapped: false, ty: "&dyn W", what: "fn run(&self, w: &dyn W, x: u32, sel: u32) -> u32" },
    Kind { id: "am_t", pos: Pos::Arg, fam: Fam::Trait, wrapped: false, ty: "&mut dyn W", what: "fn run(&self, w: &mut dyn W, x: u32, sel: u32) -> u32" },
    Kind { id: "rb_t", pos: Pos::Ret, fam: Fam::Trait, wrapped: false, ty: "Box<dyn W>", what: "fn make(&self, base: u32) -> Box<dyn W>" },
    Kind { id: "rr_t", pos: Pos::Ret, fam: Fam::Trait, wrapped: true, ty: "Result<Box<dyn W>, ()>", what: "fn make(&self, base: u32) -> Result<Box<dyn W>, ()>" },
    Kind { id: "ab_f", pos: Pos::Arg, fam: Fam::Closure, wrapped: false, ty: "Box<dyn Fn(u32) -> u32{B}>", what: "fn run(&self, f: Box<dyn Fn(u32) -> u32 + B>, x: u32, sel: u32) -> u32" },
    Kind { id: "ab_m", pos: Pos::Arg, fam: Fam::Closure, wrapped: false, ty: "Box<dyn FnMut(u32) -> u32{B}>", what: "fn run(&self, f: Box<dyn FnMut(u32) -> u32 + B>, x: u32, sel: u32) -> u32" },
    Kind { id: "rb_f", pos: Pos::Ret, fam: Fam::Closure, wrapped: false, ty: "Box<dyn Fn(u32) -> u32{B}>", what: "fn make(&self, base: u32) -> Box<dyn Fn(u32) -> u32 + B>" },
    Kind { id: "rb_m", pos: Pos::Ret, fam: Fam::Closure, wrapped: false, ty: "Box<dyn FnMut(u32) -> u32{B}>", what: "fn make(&self, base: u32) -> Box<dyn FnMut(u32) -> u32 + B>" },
    Kind { id: "rr_f", pos: Pos::Ret, fam: Fam::Closure, wrapped: true, ty: "Result<Box<dyn Fn(u32) -> u32{B}>, ()>", what: "fn make(&self, base: u32) -> Result<Box<dyn Fn(u32) -> u32 + B>, ()>" },
    Kind { id: "tp_i", pos: Pos::Top, fam: Fam::Interface, wrapped: false, ty: "dyn Iface", what: "trait Iface: B { fn work(&self, base: u32, x: u32) -> u32; } (the bounds of the interface itself)" },
    Kind { id: "rp_u", pos: Pos::Ret, fam: Fam::Future, wrapped: false, ty: "Pin<Box<dyn Future<Output = u32>{B}>>", what: "fn make(&self, base: u32) -> Pin<Box<dyn Future<Output = u32> + B>>" },
];

pub fn kind(id: &str) -> Option<&'static Kind> {
    KINDS.iter().find(|k| k.id == id)
}

#[derive(Clone, Copy, Debug, PartialEq, Eq, Hash, PartialOrd, Ord)]
pub struct Rev {
    pub send: bool,
    pub sync: bool,
    /// futures only
    pub unpin: bool,
    /// trait objects only: W has the second method `more`
    pub more: bool,
    /// `#[savefile_abi_exportable(version = ..)]` of both `Iface` and `W`
    pub version: u32,
}

pub const VERSIONS: &[u32] = &[0, 1];

impl Rev {
    /// e.g. "sy_m_v1" (Send + Sync, W has `more`, version 1), "n_v0" (no bounds)
    pub fn id(&self) -> String {
        let mut b = String::new();
        if self.send {
            b.push('s');
        }
        if self.sync {
            b.push('y');
        }
        if self.unpin {
            b.push('u');
        }
        if b.is_empty() {
            b.push('n');
        }
        format!("{}{}_v{}", b, if self.more { "_m" } else { "" }, self.version)
    }
    pub fn bounds(&self) -> Vec<&'static str> {
        let mut v = vec![];
        if self.send {
            v.push("Send");
        }
        if self.sync {
            v.push("Sync");
        }
        if self.unpin {
            v.push("Unpin");
        }
        v
    }
    pub fn methods(&self, fam: Fam) -> Vec<&'static str> {
        match fam {
            Fam::Trait if self.more => vec!["work", "more"],
            Fam::Trait | Fam::Interface => vec!["work"],
            Fam::Closure => vec!["call"],
            Fam::Future => vec!["poll"],
        }
    }
    pub fn describe(&self, fam: Fam) -> String {
        let b = self.bounds();
        format!("version {}, bounds {{{}}}, methods {{{}}}", self.version, b.join(" + "), self.methods(fam).join(", "))
    }
}

/// all revisions of a kind, in a fixed order
pub fn revs(k: &Kind) -> Vec<Rev> {
    let mut v = vec![];
    for version in VERSIONS {
        for more in [false, true] {
            if more && k.fam != Fam::Trait {
                continue;
            }
            for unpin in [false, true] {
                if unpin && k.fam != Fam::Future {
                    continue;
                }
                for sync in [false, true] {
                    for send in [false, true] {
                        v.push(Rev { send, sync, unpin, more, version: *version });
                    }
                }
            }
        }
    }
    v
}

pub fn find_rev(k: &Kind, id: &str) -> Option<Rev> {
    revs(k).into_iter().find(|r| r.id() == id)
}

// ---------------------------------------------------------------------------------------------
// reference model
//
// PROVIDER = the side whose code creates the object (argument position: the caller; return
// position and the interface's own implementation object: the implementation). RELIER = the side that receives the object and invokes it. The
// relier holds the object as a wrapper (`AbiConnection<dyn X>`) typed with the RELIER's declaration
// of X, and `AbiConnection<X>` is Send / Sync exactly when that declaration says so
// (savefile-abi: `unsafe impl<T: ?Sized> Send for AbiConnection<T> where T: Send`, same for Sync),
// while the object itself is only known to satisfy the PROVIDER's declaration. Hence:
//
//  * auto-trait bounds: every bound the relier declares must be declared by the provider, otherwise
//    safe code of the relier can move / share / unpin an object that is not Send / Sync / Unpin.
//    Such a pair is an incompatible signature change: the connection MUST be refused when it is
//    created. (savefile-abi words the same rule for futures: "Caller expects a future with an
//    X-bound, but implementation provides one without"; for trait objects and closures it is the
//    position-dependent bound check of AbiTraitDefinition::verify_backward_compatible.)
//    Bounds the provider declares in excess are harmless.
//  * method set: a method only the PROVIDER's definition has is never invoked: harmless, the pair
//    MUST connect and work (C10: "methods that exist on only one side do not prevent connecting").
//    A method only the RELIER's definition has could be invoked on an object that lacks it. C10
//    allows two treatments: refusal when the connection is created (what the documentation of
//    verify_backward_compatible describes: "flag an error if a method that used to exist, no longer
//    does"), or a connection on which exactly that invocation panics ("calling one the
//    implementation lacks fails at call time with a clear panic"). The model admits both and the
//    engine counts which one happened; everything else on such a connection must work.

#[derive(Clone, Debug, PartialEq, Eq)]
pub enum Verdict {
    /// must connect; every invocation the relier can express works
    Compatible,
    /// must be refused when the connection is created: bounds the relier relies on without the provider promising them
    MustRefuse(Vec<&'static str>),
    /// the relier knows methods the provider's objects lack: refused at connection time, or
    /// connected with a panic when one of those is invoked
    MissingMethod(Vec<&'static str>),
}

pub fn provider_relier<'a>(k: &Kind, caller: &'a Rev, imp: &'a Rev) -> (&'a Rev, &'a Rev) {
    match k.pos {
        Pos::Arg => (caller, imp),
        Pos::Ret | Pos::Top => (imp, caller),
    }
}

pub fn missing_bounds(k: &Kind, caller: &Rev, imp: &Rev) -> Vec<&'static str> {
    let (p, r) = provider_relier(k, caller, imp);
    r.bounds().into_iter().filter(|b| !p.bounds().contains(b)).collect()
}

/// "same" | "provider_has_extra" | "relier_has_extra"
pub fn method_relation(k: &Kind, caller: &Rev, imp: &Rev) -> &'static str {
    let (p, r) = provider_relier(k, caller, imp);
    match (p.more, r.more) {
        (true, false) => "provider_has_extra",
        (false, true) => "relier_has_extra",
        _ => "same",
    }
}

pub fn verdict(k: &Kind, caller: &Rev, imp: &Rev) -> Verdict {
    let mb = missing_bounds(k, caller, imp);
    if !mb.is_empty() {
        return Verdict::MustRefuse(mb);
    }
    let (p, r) = provider_relier(k, caller, imp);
    let mm: Vec<&'static str> = r.methods(k.fam).into_iter().filter(|m| !p.methods(k.fam).contains(m)).collect();
    if !mm.is_empty() {
        return Verdict::MissingMethod(mm);
    }
    Verdict::Compatible
}

/// what the objects compute (both sides' generated objects use these, the model too)
pub fn obj_work(base: u32, x: u32) -> u32 {
    base.wrapping_mul(1000).wrapping_add(x)
}
pub fn obj_more(base: u32, x: u32) -> u32 {
    base.wrapping_mul(1000).wrapping_add(x) ^ 0x4000_0000
}
/// what `Iface::run` makes of the object's answer
pub fn impl_ret(r: u32) -> u32 {
    r ^ 0x00a5_0000
}
/// the future is ready at its second poll (`Pending` + immediate wake-up at the first)
pub const POLLS_UNTIL_READY: u32 = 2;

/// `sel` = which method of the object the relier invokes: 0 = work / the closure / the future, 1 = more
pub fn expected_result(k: &Kind, base: u32, x: u32, sel: u32) -> u32 {
    let o = match (k.fam, sel) {
        (Fam::Future, _) => obj_work(base, POLLS_UNTIL_READY),
        (_, 1) => obj_more(base, x),
        _ => obj_work(base, x),
    };
    match k.pos {
        Pos::Arg => impl_ret(o),
        Pos::Ret | Pos::Top => o,
    }
}

/// the invocations (who, what, argument) a working call produces, in order
pub fn expected_log(k: &Kind, base: u32, x: u32, sel: u32) -> Vec<(&'static str, &'static str, u32)> {
    let m: &'static str = match (k.fam, sel) {
        (Fam::Trait, 1) => "more",
        (Fam::Trait, _) | (Fam::Interface, _) => "work",
        (Fam::Closure, _) => "call",
        (Fam::Future, _) => "poll",
    };
    match (k.pos, k.fam) {
        (Pos::Top, _) => vec![("obj", m, x)],
        (Pos::Arg, _) => vec![("impl", "run", x), ("obj", m, x)],
        (Pos::Ret, Fam::Future) => vec![("impl", "make", base), ("obj", "poll", 1), ("obj", "poll", 2)],
        (Pos::Ret, _) => vec![("impl", "make", base), ("obj", m, x)],
    }
}

// ---------------------------------------------------------------------------------------------
// emitter

pub fn module(k: &Kind, r: &Rev) -> String {
    format!("o_{}_{}", k.id, r.id())
}

const PRELUDE: &str = "    #![allow(non_camel_case_types, dead_code, unused_imports, unused_variables, unused_mut, clippy::all)]\n    use savefile::prelude::*;\n    use savefile_derive::savefile_abi_exportable;\n    use savefile_abi::{AbiConnection, AbiExportable, AbiProtocol, Owning, TraitObject};\n    use std::future::Future;\n    use std::pin::Pin;\n    use vabi10ofam::support::*;\n";

fn plus_bounds(r: &Rev) -> String {
    r.bounds().iter().map(|b| format!(" + {}", b)).collect()
}

pub fn emit_module(k: &Kind, r: &Rev) -> String {
    let mut o = String::new();
    let ty = k.ty.replace("{B}", &plus_bounds(r));
    writeln!(o, "/// kind {}: {} ; revision {}", k.id, k.what, r.describe(k.fam)).unwrap();
    writeln!(o, "pub mod {} {{\n{}", module(k, r), PRELUDE).unwrap();
    if k.fam == Fam::Interface {
        let sup = if r.bounds().is_empty() { String::new() } else { format!(": {}", r.bounds().join(" + ")) };
        writeln!(o, "    #[savefile_abi_exportable(version = {})]\n    pub trait Iface{} {{\n        fn work(&self, base: u32, x: u32) -> u32;\n    }}", r.version, sup).unwrap();
        writeln!(o, "    pub struct Impl;\n    impl Iface for Impl {{\n        fn work(&self, base: u32, x: u32) -> u32 {{ olog(\"obj\", \"work\", x); obj_work(base, x) }}\n    }}").unwrap();
        writeln!(o, "    pub fn make_impl() -> RawImpl {{ RawImpl {{ entry: <dyn Iface as AbiExportable>::ABI_ENTRY, object: TraitObject::new(Box::new(Impl) as Box<dyn Iface>) }} }}").unwrap();
        writeln!(o, "    pub struct Caller(pub AbiConnection<dyn Iface>);\n    impl ObjShim for Caller {{\n        fn effective_version(&self) -> u32 {{ self.0.template.effective_version }}\n        fn call(&self, base: u32, x: u32, sel: u32) -> u32 {{ self.0.work(base, x) }}\n    }}").unwrap();
        writeln!(o, "    pub fn connect(i: RawImpl) -> Result<Box<dyn ObjShim>, String> {{ unsafe {{ AbiConnection::<dyn Iface>::from_raw(i.entry, i.object, Owning::Owned) }}.map(|c| Box::new(Caller(c)) as Box<dyn ObjShim>).map_err(|e| format!(\"{{:?}}\", e)) }}").unwrap();
        writeln!(o, "    pub fn latest_version() -> u32 {{ <dyn Iface as AbiExportable>::get_latest_version() }}").unwrap();
        writeln!(o, "}}").unwrap();
        return o;
    }
    // the nested trait
    if k.fam == Fam::Trait {
        let sup = if r.bounds().is_empty() { String::new() } else { format!(": {}", r.bounds().join(" + ")) };
        writeln!(o, "    #[savefile_abi_exportable(version = {})]\n    pub trait W{} {{\n        fn work(&self, x: u32) -> u32;", r.version, sup).unwrap();
        if r.more {
            writeln!(o, "        fn more(&self, x: u32) -> u32;").unwrap();
        }
        writeln!(o, "    }}").unwrap();
        writeln!(o, "    pub struct Obj(pub u32);\n    impl W for Obj {{\n        fn work(&self, x: u32) -> u32 {{ olog(\"obj\", \"work\", x); obj_work(self.0, x) }}").unwrap();
        if r.more {
            writeln!(o, "        fn more(&self, x: u32) -> u32 {{ olog(\"obj\", \"more\", x); obj_more(self.0, x) }}").unwrap();
        }
        writeln!(o, "    }}").unwrap();
    }
    if k.fam == Fam::Future {
        // Send + Sync + Unpin by construction; not ready before the second poll
        writeln!(o, "    pub struct Fut {{ base: u32, polls: u32 }}\n    impl Future for Fut {{\n        type Output = u32;\n        fn poll(mut self: Pin<&mut Self>, cx: &mut std::task::Context<'_>) -> std::task::Poll<u32> {{\n            self.polls += 1;\n            olog(\"obj\", \"poll\", self.polls);\n            if self.polls < POLLS_UNTIL_READY {{ cx.waker().wake_by_ref(); std::task::Poll::Pending }} else {{ std::task::Poll::Ready(obj_work(self.base, self.polls)) }}\n        }}\n    }}").unwrap();
    }
    // the interface
    let sig = match k.pos {
        Pos::Arg => format!("fn run(&self, {}o: {}, x: u32, sel: u32) -> u32", if k.id == "ab_m" { "mut " } else { "" }, ty),
        Pos::Ret | Pos::Top => format!("fn make(&self, base: u32) -> {}", ty),
    };
    let decl = sig.replace("mut o:", "o:");
    writeln!(o, "    #[savefile_abi_exportable(version = {})]\n    pub trait Iface {{\n        {};\n    }}", r.version, decl).unwrap();
    // the recording implementation
    let closure = "move |x: u32| -> u32 { olog(\"obj\", \"call\", x); obj_work(base, x) }";
    let body = match (k.pos, k.fam) {
        (Pos::Arg, Fam::Trait) if r.more => "olog(\"impl\", \"run\", x); let r = if sel == 1 { o.more(x) } else { o.work(x) }; impl_ret(r)".to_string(),
        (Pos::Arg, Fam::Trait) => "olog(\"impl\", \"run\", x); if sel == 1 { panic!(\"harness: this revision of W has no second method\") } let r = o.work(x); impl_ret(r)".to_string(),
        (Pos::Arg, _) => "olog(\"impl\", \"run\", x); let r = o(x); impl_ret(r)".to_string(),
        (Pos::Ret, Fam::Trait) => format!("olog(\"impl\", \"make\", base); {}", if k.wrapped { "Ok(Box::new(Obj(base)))" } else { "Box::new(Obj(base))" }),
        (Pos::Ret, Fam::Closure) => format!("olog(\"impl\", \"make\", base); {}", if k.wrapped { format!("Ok(Box::new({}))", closure) } else { format!("Box::new({})", closure) }),
        (Pos::Ret, Fam::Future) => "olog(\"impl\", \"make\", base); Box::pin(Fut { base, polls: 0 })".to_string(),
        (Pos::Top, _) | (_, Fam::Interface) => unreachable!(),
    };
    writeln!(o, "    pub struct Impl;\n    impl Iface for Impl {{\n        {} {{ {} }}\n    }}", sig, body).unwrap();
    writeln!(o, "    pub fn make_impl() -> RawImpl {{ RawImpl {{ entry: <dyn Iface as AbiExportable>::ABI_ENTRY, object: TraitObject::new(Box::new(Impl) as Box<dyn Iface>) }} }}").unwrap();
    // the caller side
    let call = match (k.pos, k.fam, k.id) {
        (Pos::Arg, Fam::Trait, "ab_t") => "self.0.run(Box::new(Obj(base)), x, sel)".to_string(),
        (Pos::Arg, Fam::Trait, "ar_t") => "{ let w = Obj(base); self.0.run(&w, x, sel) }".to_string(),
        (Pos::Arg, Fam::Trait, _) => "{ let mut w = Obj(base); self.0.run(&mut w, x, sel) }".to_string(),
        (Pos::Arg, _, _) => format!("self.0.run(Box::new({}), x, sel)", closure),
        (Pos::Ret, Fam::Trait, _) => {
            let get = if k.wrapped { "self.0.make(base).expect(\"harness: the implementation returns Ok\")" } else { "self.0.make(base)" };
            if r.more {
                format!("{{ let w = {}; if sel == 1 {{ w.more(x) }} else {{ w.work(x) }} }}", get)
            } else {
                format!("{{ let w = {}; if sel == 1 {{ panic!(\"harness: this revision of W has no second method\") }} w.work(x) }}", get)
            }
        }
        (Pos::Ret, Fam::Closure, _) => {
            let get = if k.wrapped { "self.0.make(base).expect(\"harness: the implementation returns Ok\")" } else { "self.0.make(base)" };
            format!("{{ let mut f = {}; f(x) }}", get)
        }
        (Pos::Ret, Fam::Future, _) => "{ let mut f = self.0.make(base); poll_to_end(f.as_mut()) }".to_string(),
        (Pos::Top, _, _) | (_, Fam::Interface, _) => unreachable!(),
    };
    writeln!(o, "    pub struct Caller(pub AbiConnection<dyn Iface>);\n    impl ObjShim for Caller {{\n        fn effective_version(&self) -> u32 {{ self.0.template.effective_version }}\n        fn call(&self, base: u32, x: u32, sel: u32) -> u32 {{ {} }}\n    }}", call).unwrap();
    writeln!(o, "    pub fn connect(i: RawImpl) -> Result<Box<dyn ObjShim>, String> {{ unsafe {{ AbiConnection::<dyn Iface>::from_raw(i.entry, i.object, Owning::Owned) }}.map(|c| Box::new(Caller(c)) as Box<dyn ObjShim>).map_err(|e| format!(\"{{:?}}\", e)) }}").unwrap();
    writeln!(o, "    pub fn latest_version() -> u32 {{ <dyn Iface as AbiExportable>::get_latest_version() }}").unwrap();
    writeln!(o, "}}").unwrap();
    o
}

/// The object family is compiled in shards of whole kinds (every pair of a kind lives in one shard).
pub const OSHARDS: &[&[&str]] = &[&["ab_t", "rr_f", "ab_f"], &["ar_t", "rb_f", "ab_m"], &["am_t", "rp_u", "tp_i"], &["rb_t", "rr_t", "rb_m"]];

pub fn oshard_of(kind: &str) -> Option<usize> {
    OSHARDS.iter().position(|ks| ks.contains(&kind))
}

pub fn emit_oshard(shard: usize) -> String {
    let mut o = String::new();
    o.push_str("// generated by build.rs from fam10o/src/ospec.rs - do not edit\nuse vabi10ofam::support::{ObjShim, RawImpl};\n");
    let kinds: Vec<&Kind> = OSHARDS[shard].iter().map(|id| kind(id).expect("kind of shard")).collect();
    for k in &kinds {
        for r in revs(k) {
            o.push_str(&emit_module(k, &r));
        }
    }
    o.push_str("/// a fresh implementation object of (kind, revision): entry point + boxed `dyn Iface`\npub fn make_impl(kind: &str, rev: &str) -> Option<RawImpl> {\n    match (kind, rev) {\n");
    for k in &kinds {
        for r in revs(k) {
            writeln!(o, "        (\"{}\", \"{}\") => Some({}::make_impl()),", k.id, r.id(), module(k, &r)).unwrap();
        }
    }
    o.push_str("        _ => None,\n    }\n}\n");
    o.push_str("/// connect the caller of (kind, revision) to an implementation object (savefile-abi's from_raw)\npub fn connect(kind: &str, rev: &str, i: RawImpl) -> Option<Result<Box<dyn ObjShim>, String>> {\n    match (kind, rev) {\n");
    for k in &kinds {
        for r in revs(k) {
            writeln!(o, "        (\"{}\", \"{}\") => Some({}::connect(i)),", k.id, r.id(), module(k, &r)).unwrap();
        }
    }
    o.push_str("        _ => None,\n    }\n}\n");
    o.push_str("pub fn latest_version(kind: &str, rev: &str) -> Option<u32> {\n    match (kind, rev) {\n");
    for k in &kinds {
        for r in revs(k) {
            writeln!(o, "        (\"{}\", \"{}\") => Some({}::latest_version()),", k.id, r.id(), module(k, &r)).unwrap();
        }
    }
    o.push_str("        _ => None,\n    }\n}\n");
    o
}
