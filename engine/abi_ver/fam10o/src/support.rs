//! Runtime pieces shared by all generated modules of the C10 object family.
use std::cell::RefCell;

// ---------------------------------------------------------------------------------------------
// object family (`ospec`): nested trait objects, closures and futures

pub use crate::ospec::{impl_ret, obj_more, obj_work, POLLS_UNTIL_READY};

thread_local! {
    /// invocations of the object family in order: (who = "impl" | "obj", what, argument)
    pub static OLOG: RefCell<Vec<(&'static str, &'static str, u32)>> = const { RefCell::new(Vec::new()) };
}
pub fn olog(who: &'static str, what: &'static str, x: u32) {
    OLOG.with(|l| l.borrow_mut().push((who, what, x)));
}
pub fn take_olog() -> Vec<(&'static str, &'static str, u32)> {
    OLOG.with(|l| std::mem::take(&mut *l.borrow_mut()))
}

/// an implementation object as a shared library would hand it out: entry point + boxed trait object
pub struct RawImpl {
    pub entry: unsafe extern "C" fn(savefile_abi::AbiProtocol),
    pub object: savefile_abi::TraitObject,
}

/// type-erased caller side of one connection of the object family
pub trait ObjShim {
    fn effective_version(&self) -> u32;
    /// one complete use of the nested object (created with parameter `base`): the relier invokes
    /// method `sel` (0 = work / the closure / the future, 1 = more) with `x`; panics propagate
    fn call(&self, base: u32, x: u32, sel: u32) -> u32;
}

/// drive a future with a waker that only counts (the object family's future wakes itself before
/// returning Pending); gives up after 16 polls
pub fn poll_to_end<F: std::future::Future<Output = u32> + ?Sized>(mut f: std::pin::Pin<&mut F>) -> u32 {
    use std::sync::atomic::{AtomicU32, Ordering};
    use std::sync::Arc;
    struct CountingWaker(AtomicU32);
    impl std::task::Wake for CountingWaker {
        fn wake(self: Arc<Self>) {
            self.0.fetch_add(1, Ordering::SeqCst);
        }
    }
    let w = Arc::new(CountingWaker(AtomicU32::new(0)));
    let waker = std::task::Waker::from(w.clone());
    let mut cx = std::task::Context::from_waker(&waker);
    for _ in 0..16 {
        if let std::task::Poll::Ready(v) = f.as_mut().poll(&mut cx) {
            return v;
        }
    }
    panic!("harness: the future was not ready after 16 polls ({} wake-ups)", w.0.load(std::sync::atomic::Ordering::SeqCst));
}
