//! C10, object family: the model of interface revisions that differ only in the bounds / method set
//! of a nested trait object, closure or future (`ospec`) and the runtime pieces shared by the
//! generated shard crates (`support`). The generated modules live in the crates `../sh10/oNN`.
pub mod ospec;
pub mod support;
