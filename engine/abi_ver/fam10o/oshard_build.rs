// build script shared by the shard crates sh10/oNN: emits shard NN of the C10 object family.
#[allow(dead_code)]
mod ospec {
    include!("src/ospec.rs");
}

fn main() {
    let here = std::path::PathBuf::from(std::env::var("CARGO_MANIFEST_DIR").unwrap());
    println!("cargo:rerun-if-changed={}", here.join("../../fam10o/src/ospec.rs").display());
    println!("cargo:rerun-if-changed={}", here.join("../../fam10o/oshard_build.rs").display());
    println!("cargo:rerun-if-changed=build.rs");
    let name = std::env::var("CARGO_PKG_NAME").unwrap();
    let shard: usize = name.trim_start_matches("vabi10o").parse().expect("shard crate name vabi10oNN");
    let out = std::path::PathBuf::from(std::env::var("OUT_DIR").unwrap()).join("ofamily.rs");
    let text = ospec::emit_oshard(shard);
    let unchanged = std::fs::read_to_string(&out).map(|t| t == text).unwrap_or(false);
    if !unchanged {
        std::fs::write(&out, text).expect("write ofamily.rs");
    }
}
