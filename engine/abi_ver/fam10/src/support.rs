//! Runtime pieces shared by all generated modules of the C10 family.
pub use crate::spec::{checksum, scalar_result, NVal, Scalar};
use savefile_derive::Savefile;
use std::cell::RefCell;

/// nested packed struct used by the `Add(P2)` edit (not versioned itself)
#[derive(Savefile, Default, Clone, Copy, Debug, PartialEq)]
#[repr(C)]
pub struct P2 {
    pub x: u16,
    pub y: u16,
}

/// what a call returned, in neutral form
#[derive(Clone, Debug, PartialEq, Eq)]
pub enum Ret {
    Unit,
    U(u32),
    One(NVal),
    Many(Vec<NVal>),
}

/// one invocation as the implementation saw it
#[derive(Clone, Debug, PartialEq, Eq)]
pub struct LogEntry {
    pub method: &'static str,
    pub observed: Vec<NVal>,
    pub scalar: Option<u32>,
    pub returned: Ret,
    /// methods with a callback: the value the implementation handed to the callback
    pub cb_passed: Option<NVal>,
    /// ... and what the callback gave back to the implementation
    pub cb_got: Option<NVal>,
    /// false while the implementation is still inside the callback (the call never came back)
    pub finished: bool,
}

thread_local! {
    pub static LOG: RefCell<Vec<LogEntry>> = const { RefCell::new(Vec::new()) };
}
pub fn log(method: &'static str, observed: Vec<NVal>, scalar: Option<u32>, returned: Ret) {
    LOG.with(|l| l.borrow_mut().push(LogEntry { method, observed, scalar, returned, cb_passed: None, cb_got: None, finished: true }));
}
pub fn log_begin_cb(method: &'static str, observed: Vec<NVal>, passed: NVal) {
    LOG.with(|l| l.borrow_mut().push(LogEntry { method, observed, scalar: None, returned: Ret::Unit, cb_passed: Some(passed), cb_got: None, finished: false }));
}
pub fn log_end_cb(got: Option<NVal>, returned: Ret) {
    LOG.with(|l| {
        if let Some(e) = l.borrow_mut().last_mut() {
            e.cb_got = got;
            e.returned = returned;
            e.finished = true;
        }
    });
}

thread_local! {
    /// what the CALLER-side closures received and answered
    pub static CBLOG: RefCell<Vec<(NVal, Option<NVal>)>> = const { RefCell::new(Vec::new()) };
}
pub fn cb_log(received: NVal, answered: Option<NVal>) {
    CBLOG.with(|l| l.borrow_mut().push((received, answered)));
}
pub fn take_cb_log() -> Vec<(NVal, Option<NVal>)> {
    CBLOG.with(|l| std::mem::take(&mut *l.borrow_mut()))
}
pub fn take_log() -> Vec<LogEntry> {
    LOG.with(|l| std::mem::take(&mut *l.borrow_mut()))
}

/// type-erased caller side of one connection (`AbiConnection<dyn n_x::Iface>`)
pub trait CallerShim {
    /// the negotiated version
    fn effective_version(&self) -> u32;
    fn passable_by_ref(&self, method: &str, arg: usize) -> bool;
    /// caller's methods and the implementation's number for each (None = the implementation lacks it)
    fn method_map(&self) -> Vec<(String, Option<u16>)>;
    /// invoke `method` (T arguments from `args`, the u32 argument `a`); panics propagate
    fn call(&self, method: &str, args: &[NVal], a: u32) -> Ret;
}
