// C10: the history tree of ABI-usable edits, the reference model of cross-version transmission
// and the Rust emitter. This file is `include!`d by build.rs (which emits the family so that the
// REAL `#[derive(Savefile)]` / `#[savefile_abi_exportable]` macros expand it) and is a module of
// the library (where the engine uses the model). It depends on nothing but std.
//
// A NODE of the tree at depth n is "the definition of type `T` and of `trait Iface` as of version
// n"; its parent is the definition one version earlier. A history path is a root-to-node path.

use std::collections::BTreeMap;
use std::fmt::Write as _;

pub const LIVE: u32 = u32::MAX;
pub const MAX_DEPTH: u32 = 3;

#[derive(Clone, Copy, Debug, PartialEq, Eq, Hash, PartialOrd, Ord)]
pub enum FTy {
    U8,
    U16,
    U32,
    Str,
    /// nested `#[repr(C)] struct P2 { x: u16, y: u16 }`
    P2,
}

#[derive(Clone, Debug, PartialEq, Eq, Hash, PartialOrd, Ord)]
pub enum Scalar {
    U(u64),
    S(String),
}

/// how the default of an added field is declared
#[derive(Clone, Copy, Debug, PartialEq, Eq)]
pub enum DKind {
    /// `Default::default()`
    Trait,
    /// `#[savefile_default_val = "..."]`
    Val,
    /// `#[savefile_default_fn = "..."]`
    Fn,
}

#[derive(Clone, Debug)]
pub struct FieldSpec {
    /// field name (named fields) or index (tuple variant fields)
    pub name: String,
    pub ty: FTy,
    /// first version the field exists in
    pub from: u32,
    /// last version the field exists in (LIVE = still there)
    pub to: u32,
    pub dkind: DKind,
    /// removed with `AbiRemoved<T, Ctor>` (custom ValueConstructor) instead of `AbiRemoved<T>`
    pub custom_ctor: bool,
}

#[derive(Clone, Debug)]
pub struct VariantSpec {
    pub name: String,
    pub from: u32,
    pub tuple: bool,
    pub fields: Vec<FieldSpec>,
}

#[derive(Clone, Debug)]
pub enum Shape {
    Struct { repr_c: bool, fields: Vec<FieldSpec> },
    Enum { variants: Vec<VariantSpec> },
}

#[derive(Clone, Copy, Debug, PartialEq, Eq)]
pub enum Edit {
    /// add a field at position `pos` of the field list (usize::MAX = at the end)
    Add(usize, FTy, DKind),
    /// first live field -> `AbiRemoved<T>`
    RemoveFirst,
    /// last live field -> `AbiRemoved<T, Ctor>`
    RemoveLastCustom,
    AppendUnit,
    AppendTuple,
    /// add a versioned field (u16, default_val) to the first variant that has fields
    AddToFirstVariant,
    /// add a versioned field (String, Default) to the last variant that has fields
    AddToLastVariant,
}

pub const STRUCT_EDITS: &[(char, Edit)] = &[
    ('a', Edit::Add(usize::MAX, FTy::U32, DKind::Trait)),
    ('b', Edit::Add(usize::MAX, FTy::Str, DKind::Fn)),
    ('c', Edit::Add(1, FTy::U8, DKind::Val)),
    ('d', Edit::Add(0, FTy::P2, DKind::Trait)),
    ('e', Edit::RemoveFirst),
    ('f', Edit::RemoveLastCustom),
];
pub const ENUM_EDITS: &[(char, Edit)] = &[('g', Edit::AppendUnit), ('h', Edit::AppendTuple), ('i', Edit::AddToFirstVariant), ('j', Edit::AddToLastVariant)];

pub fn edit_label(c: char) -> &'static str {
    match c {
        'a' => "Add(end,u32,Default)",
        'b' => "Add(end,String,default_fn)",
        'c' => "Add(pos1,u8,default_val)",
        'd' => "Add(pos0,P2,Default)",
        'e' => "Remove(first live,AbiRemoved<T>)",
        'f' => "Remove(last live,AbiRemoved<T,Ctor>)",
        'g' => "AppendVariant(unit)",
        'h' => "AppendVariant(tuple u32)",
        'i' => "AddFieldToVariant(first with fields,u16,default_val)",
        'j' => "AddFieldToVariant(last with fields,String,Default)",
        _ => "?",
    }
}

pub const BASES: &[(char, &str)] = &[
    ('p', "#[repr(C)] struct T { a: u32, b: u32 } (packed)"),
    ('m', "struct T { a: u8, s: String, c: u16 } (mixed)"),
    ('e', "enum T { A, B(u32), C { x: u8, y: String } }"),
];

fn fs(name: &str, ty: FTy) -> FieldSpec {
    FieldSpec { name: name.to_string(), ty, from: 0, to: LIVE, dkind: DKind::Trait, custom_ctor: false }
}

pub fn base_shape(b: char) -> Shape {
    match b {
        'p' => Shape::Struct { repr_c: true, fields: vec![fs("a", FTy::U32), fs("b", FTy::U32)] },
        'm' => Shape::Struct { repr_c: false, fields: vec![fs("a", FTy::U8), fs("s", FTy::Str), fs("c", FTy::U16)] },
        'e' => Shape::Enum {
            variants: vec![
                VariantSpec { name: "A".into(), from: 0, tuple: false, fields: vec![] },
                VariantSpec { name: "B".into(), from: 0, tuple: true, fields: vec![fs("0", FTy::U32)] },
                VariantSpec { name: "C".into(), from: 0, tuple: false, fields: vec![fs("x", FTy::U8), fs("y", FTy::Str)] },
            ],
        },
        _ => panic!("unknown base"),
    }
}

/// the definition at version `n`, made from the definition at version n-1 by `e`
pub fn apply(shape: &Shape, e: Edit, n: u32) -> Option<Shape> {
    match (shape, e) {
        (Shape::Struct { repr_c, fields }, Edit::Add(pos, ty, dkind)) => {
            let mut fields = fields.clone();
            let pos = pos.min(fields.len());
            fields.insert(pos, FieldSpec { name: format!("f{}", n), ty, from: n, to: LIVE, dkind, custom_ctor: false });
            Some(Shape::Struct { repr_c: *repr_c, fields })
        }
        (Shape::Struct { repr_c, fields }, Edit::RemoveFirst) | (Shape::Struct { repr_c, fields }, Edit::RemoveLastCustom) => {
            let mut fields = fields.clone();
            let custom = e == Edit::RemoveLastCustom;
            let idx = if custom { fields.iter().rposition(|f| f.to == LIVE)? } else { fields.iter().position(|f| f.to == LIVE)? };
            fields[idx].to = n - 1;
            fields[idx].custom_ctor = custom;
            Some(Shape::Struct { repr_c: *repr_c, fields })
        }
        (Shape::Enum { variants }, Edit::AppendUnit) | (Shape::Enum { variants }, Edit::AppendTuple) => {
            let mut variants = variants.clone();
            let tuple = e == Edit::AppendTuple;
            variants.push(VariantSpec { name: format!("V{}", n), from: n, tuple, fields: if tuple { vec![fs("0", FTy::U32)] } else { vec![] } });
            Some(Shape::Enum { variants })
        }
        (Shape::Enum { variants }, Edit::AddToFirstVariant) | (Shape::Enum { variants }, Edit::AddToLastVariant) => {
            let mut variants = variants.clone();
            let first = e == Edit::AddToFirstVariant;
            let idx = if first { variants.iter().position(|v| !v.fields.is_empty())? } else { variants.iter().rposition(|v| !v.fields.is_empty())? };
            let v = &mut variants[idx];
            let name = if v.tuple { v.fields.len().to_string() } else { format!("f{}", n) };
            let (ty, dkind) = if first { (FTy::U16, DKind::Val) } else { (FTy::Str, DKind::Trait) };
            v.fields.push(FieldSpec { name, ty, from: n, to: LIVE, dkind, custom_ctor: false });
            Some(Shape::Enum { variants })
        }
        _ => None,
    }
}

#[derive(Clone, Debug)]
pub struct Node {
    /// base letter followed by one letter per edit, e.g. "pce"
    pub id: String,
    pub base: char,
    /// = version of this definition
    pub depth: u32,
    pub parent: Option<usize>,
    pub shape: Shape,
}

impl Node {
    pub fn edits(&self) -> &str {
        &self.id[1..]
    }
    pub fn module(&self) -> String {
        format!("n_{}", self.id)
    }
}

/// The complete tree down to MAX_DEPTH, in breadth-first order per base.
pub fn tree() -> Vec<Node> {
    let mut nodes: Vec<Node> = vec![];
    for (b, _) in BASES {
        let start = nodes.len();
        nodes.push(Node { id: b.to_string(), base: *b, depth: 0, parent: None, shape: base_shape(*b) });
        let mut i = start;
        while i < nodes.len() {
            if nodes[i].depth < MAX_DEPTH {
                let alphabet = if matches!(nodes[i].shape, Shape::Struct { .. }) { STRUCT_EDITS } else { ENUM_EDITS };
                for (c, e) in alphabet {
                    if let Some(shape) = apply(&nodes[i].shape, *e, nodes[i].depth + 1) {
                        let id = format!("{}{}", nodes[i].id, c);
                        nodes.push(Node { id, base: *b, depth: nodes[i].depth + 1, parent: Some(i), shape });
                    }
                }
            }
            i += 1;
        }
    }
    nodes
}

pub fn find<'a>(nodes: &'a [Node], id: &str) -> Option<&'a Node> {
    nodes.iter().find(|n| n.id == id)
}

/// `a` is an ancestor of `b` or equal to it
pub fn on_same_path(a: &Node, b: &Node) -> bool {
    a.id.starts_with(&b.id) || b.id.starts_with(&a.id)
}

// ---------------------------------------------------------------------------------------------
// neutral values

/// A value of some version of `T`, independent of the Rust type: live fields by leaf name
/// (`f`, or `f.x` / `f.y` for a P2 field), plus the variant name for enums.
#[derive(Clone, Debug, PartialEq, Eq, Hash, PartialOrd, Ord, Default)]
pub struct NVal {
    pub variant: Option<String>,
    pub f: BTreeMap<String, Scalar>,
}

impl NVal {
    pub fn new(variant: Option<&str>) -> NVal {
        NVal { variant: variant.map(String::from), f: BTreeMap::new() }
    }
    pub fn u(&mut self, k: &str, v: u64) {
        self.f.insert(k.to_string(), Scalar::U(v));
    }
    pub fn s(&mut self, k: &str, v: &str) {
        self.f.insert(k.to_string(), Scalar::S(v.to_string()));
    }
    pub fn gu(&self, k: &str) -> u64 {
        match self.f.get(k) {
            Some(Scalar::U(v)) => *v,
            other => panic!("harness: neutral value has no integer leaf {:?} ({:?})", k, other),
        }
    }
    pub fn gs(&self, k: &str) -> String {
        match self.f.get(k) {
            Some(Scalar::S(v)) => v.clone(),
            other => panic!("harness: neutral value has no string leaf {:?} ({:?})", k, other),
        }
    }
    /// canonical one-line rendering (also the input of `checksum`)
    pub fn render(&self) -> String {
        let mut s = String::new();
        if let Some(v) = &self.variant {
            write!(s, "{}", v).unwrap();
        }
        s.push('{');
        for (i, (k, v)) in self.f.iter().enumerate() {
            if i > 0 {
                s.push(',');
            }
            match v {
                Scalar::U(x) => write!(s, "{}={}", k, x).unwrap(),
                Scalar::S(x) => write!(s, "{}={:?}", k, x).unwrap(),
            }
        }
        s.push('}');
        s
    }
}

/// what `by_ref` returns: FNV-1a of the rendering of the observed value, folded to 32 bits
pub fn checksum(x: &NVal) -> u32 {
    let mut h: u64 = 0xcbf29ce484222325;
    for b in x.render().bytes() {
        h ^= b as u64;
        h = h.wrapping_mul(0x100000001b3);
    }
    (h ^ (h >> 32)) as u32
}

impl FTy {
    pub fn rust(self) -> &'static str {
        match self {
            FTy::U8 => "u8",
            FTy::U16 => "u16",
            FTy::U32 => "u32",
            FTy::Str => "String",
            FTy::P2 => "P2",
        }
    }
    pub fn bits(self) -> u32 {
        match self {
            FTy::U8 => 8,
            FTy::U16 => 16,
            FTy::U32 => 32,
            _ => 0,
        }
    }
}

impl FieldSpec {
    pub fn live(&self) -> bool {
        self.to == LIVE
    }
    /// exists in the serialized format of version `v`
    pub fn on_wire(&self, v: u32) -> bool {
        self.from <= v && v <= self.to
    }
    pub fn leaves(&self) -> Vec<(String, FTy)> {
        match self.ty {
            FTy::P2 => vec![(format!("{}.x", self.name), FTy::U16), (format!("{}.y", self.name), FTy::U16)],
            t => vec![(self.name.clone(), t)],
        }
    }
    /// what a reader that knows the field puts there when the data does not contain it
    pub fn default_leaves(&self) -> Vec<Scalar> {
        match (self.ty, self.dkind) {
            (FTy::U8, DKind::Trait) | (FTy::U16, DKind::Trait) | (FTy::U32, DKind::Trait) => vec![Scalar::U(0)],
            (FTy::Str, DKind::Trait) => vec![Scalar::S(String::new())],
            (FTy::P2, DKind::Trait) => vec![Scalar::U(0), Scalar::U(0)],
            (FTy::U8, DKind::Val) => vec![Scalar::U(7)],
            (FTy::U16, DKind::Val) => vec![Scalar::U(9)],
            (FTy::U32, DKind::Val) => vec![Scalar::U(70007)],
            (FTy::U8, DKind::Fn) => vec![Scalar::U(8)],
            (FTy::U16, DKind::Fn) => vec![Scalar::U(10)],
            (FTy::U32, DKind::Fn) => vec![Scalar::U(70008)],
            (FTy::Str, DKind::Fn) => vec![Scalar::S("dflt".into())],
            (FTy::P2, DKind::Fn) => vec![Scalar::U(3), Scalar::U(4)],
            (FTy::Str, DKind::Val) | (FTy::P2, DKind::Val) => panic!("default_val is only used for integers here"),
        }
    }
    /// what a writer that has removed the field writes for it at a version where it exists
    pub fn ctor_leaves(&self) -> Vec<Scalar> {
        if !self.custom_ctor {
            return match self.ty {
                FTy::Str => vec![Scalar::S(String::new())],
                FTy::P2 => vec![Scalar::U(0), Scalar::U(0)],
                _ => vec![Scalar::U(0)],
            };
        }
        match self.ty {
            FTy::U8 => vec![Scalar::U(77)],
            FTy::U16 => vec![Scalar::U(7777)],
            FTy::U32 => vec![Scalar::U(77777)],
            FTy::Str => vec![Scalar::S("ctor".into())],
            FTy::P2 => vec![Scalar::U(7), Scalar::U(8)],
        }
    }
}

fn lit(ty: FTy, leaves: &[Scalar]) -> String {
    match (ty, leaves) {
        (FTy::P2, [Scalar::U(x), Scalar::U(y)]) => format!("P2 {{ x: {}, y: {} }}", x, y),
        (FTy::Str, [Scalar::S(s)]) => format!("{:?}.to_string()", s),
        (t, [Scalar::U(x)]) => format!("{}{}", x, t.rust()),
        _ => panic!("bad literal"),
    }
}

impl Shape {
    /// the fields of the struct, or of variant `variant` of the enum
    pub fn fields_of(&self, variant: Option<&str>) -> Option<&[FieldSpec]> {
        match (self, variant) {
            (Shape::Struct { fields, .. }, None) => Some(fields),
            (Shape::Enum { variants }, Some(v)) => variants.iter().find(|x| x.name == v).map(|x| x.fields.as_slice()),
            _ => None,
        }
    }
    pub fn variant(&self, name: &str) -> Option<&VariantSpec> {
        match self {
            Shape::Enum { variants } => variants.iter().find(|x| x.name == name),
            _ => None,
        }
    }
}

/// methods of `trait Iface` at version `depth`, in declaration order (newest first, so that the
/// method numbers of the two sides differ): name, takes/returns a plain u32
pub fn methods(depth: u32) -> Vec<String> {
    let mut m: Vec<String> = (1..=depth).rev().map(|k| format!("added_{}", k)).collect();
    for x in ["echo", "by_ref", "vecs", "observe", "with_cb", "with_mut_cb"] {
        m.push(x.to_string());
    }
    if depth == 0 {
        m.push("legacy".to_string());
    }
    m
}
pub fn is_scalar_method(name: &str) -> bool {
    name == "legacy" || name.starts_with("added_")
}
/// what the scalar methods compute
pub fn scalar_result(name: &str, a: u32) -> u32 {
    if name == "legacy" {
        a ^ 0x5a5a_5a5a
    } else {
        let k: u32 = name["added_".len()..].parse().unwrap();
        a.wrapping_mul(31).wrapping_add(k)
    }
}

// ---------------------------------------------------------------------------------------------
// breaking variants (connection must be refused), one set per base root

pub const BREAKS: &[(&str, &str)] = &[
    ("same", "control: identical re-declaration of the version-0 interface (must connect)"),
    ("argcount", "echo takes an additional argument"),
    ("argtype", "observe takes u32 instead of T"),
    ("reftype", "by_ref takes &u64 instead of &T"),
    ("rettype", "by_ref returns u64 instead of u32"),
    ("retunit", "echo returns nothing instead of T"),
    ("fieldtype", "a field of T changes its type without versioning (argument and return type differ)"),
    ("fieldgone", "a field of T disappears without versioning"),
];

// ---------------------------------------------------------------------------------------------
// emitter

fn field_decl(f: &FieldSpec, prefix: &str, public: bool, helpers: &mut String) -> String {
    let mut s = String::new();
    if f.from > 0 || f.to != LIVE {
        let from = if f.from > 0 { f.from.to_string() } else { String::new() };
        let to = if f.to != LIVE { f.to.to_string() } else { String::new() };
        write!(s, "#[savefile_versions = \"{}..{}\"] ", from, to).unwrap();
    }
    let ty = if f.live() {
        if f.from > 0 {
            match f.dkind {
                DKind::Trait => {}
                DKind::Val => {
                    let Scalar::U(v) = f.default_leaves()[0] else { panic!() };
                    write!(s, "#[savefile_default_val = \"{}\"] ", v).unwrap();
                }
                DKind::Fn => {
                    write!(s, "#[savefile_default_fn = \"dfn_{}{}\"] ", prefix, f.name).unwrap();
                    writeln!(helpers, "    pub fn dfn_{}{}() -> {} {{ {} }}", prefix, f.name, f.ty.rust(), lit(f.ty, &f.default_leaves())).unwrap();
                }
            }
        }
        f.ty.rust().to_string()
    } else if f.custom_ctor {
        writeln!(
            helpers,
            "    pub struct Ctor_{p}{n};\n    impl ValueConstructor<{t}> for Ctor_{p}{n} {{ fn make_value() -> {t} {{ {v} }} }}",
            p = prefix,
            n = f.name,
            t = f.ty.rust(),
            v = lit(f.ty, &f.ctor_leaves())
        )
        .unwrap();
        format!("AbiRemoved<{}, Ctor_{}{}>", f.ty.rust(), prefix, f.name)
    } else {
        format!("AbiRemoved<{}>", f.ty.rust())
    };
    let named = !f.name.chars().next().unwrap().is_ascii_digit();
    if named {
        write!(s, "{}{}: {}", if public { "pub " } else { "" }, f.name, ty).unwrap();
    } else {
        write!(s, "{}", ty).unwrap();
    }
    s
}

/// expression reading leaf values out of the binding `acc` (a place expression of the field)
fn to_n_stmts(f: &FieldSpec, acc: &str, out: &mut String) {
    match f.ty {
        FTy::P2 => {
            writeln!(out, "        n.u(\"{0}.x\", ({1}).x as u64); n.u(\"{0}.y\", ({1}).y as u64);", f.name, acc).unwrap();
        }
        FTy::Str => writeln!(out, "        n.s(\"{}\", &{});", f.name, acc).unwrap(),
        _ => writeln!(out, "        n.u(\"{}\", ({}) as u64);", f.name, acc).unwrap(),
    }
}
fn from_n_expr(f: &FieldSpec) -> String {
    if !f.live() {
        return "AbiRemoved::new()".to_string();
    }
    match f.ty {
        FTy::P2 => format!("P2 {{ x: n.gu(\"{0}.x\") as u16, y: n.gu(\"{0}.y\") as u16 }}", f.name),
        FTy::Str => format!("n.gs(\"{}\")", f.name),
        t => format!("n.gu(\"{}\") as {}", f.name, t.rust()),
    }
}
fn bump_expr(f: &FieldSpec, acc: &str) -> String {
    if !f.live() {
        return "AbiRemoved::new()".to_string();
    }
    match f.ty {
        FTy::P2 => format!("P2 {{ x: ({0}).x.wrapping_add(1), y: ({0}).y.wrapping_add(1) }}", acc),
        FTy::Str => format!("format!(\"{{}}!\", {})", acc),
        _ => format!("({}).wrapping_add(1)", acc),
    }
}

fn emit_type(shape: &Shape, o: &mut String) {
    let mut helpers = String::new();
    let mut def = String::new();
    match shape {
        Shape::Struct { repr_c, fields } => {
            writeln!(def, "    #[derive(Savefile)]").unwrap();
            if *repr_c {
                writeln!(def, "    #[repr(C)]").unwrap();
            }
            writeln!(def, "    pub struct T {{").unwrap();
            for f in fields {
                writeln!(def, "        {},", field_decl(f, "", true, &mut helpers)).unwrap();
            }
            writeln!(def, "    }}").unwrap();
        }
        Shape::Enum { variants } => {
            writeln!(def, "    #[derive(Savefile)]\n    pub enum T {{").unwrap();
            for v in variants {
                let attr = if v.from > 0 { format!("#[savefile_versions = \"{}..\"] ", v.from) } else { String::new() };
                let prefix = format!("{}_", v.name);
                let fl: Vec<String> = v.fields.iter().map(|f| field_decl(f, &prefix, false, &mut helpers)).collect();
                if v.fields.is_empty() {
                    writeln!(def, "        {}{},", attr, v.name).unwrap();
                } else if v.tuple {
                    writeln!(def, "        {}{}({}),", attr, v.name, fl.join(", ")).unwrap();
                } else {
                    writeln!(def, "        {}{} {{ {} }},", attr, v.name, fl.join(", ")).unwrap();
                }
            }
            writeln!(def, "    }}").unwrap();
        }
    }
    o.push_str(&helpers);
    o.push_str(&def);
}

fn emit_conversions(shape: &Shape, o: &mut String) {
    match shape {
        Shape::Struct { fields, .. } => {
            writeln!(o, "    #[allow(unused_mut, unused_variables)]\n    pub fn to_n(t: &T) -> NVal {{\n        let mut n = NVal::new(None);").unwrap();
            for f in fields.iter().filter(|f| f.live()) {
                to_n_stmts(f, &format!("t.{}", f.name), o);
            }
            writeln!(o, "        n\n    }}").unwrap();
            writeln!(o, "    #[allow(unused_variables)]\n    pub fn from_n(n: &NVal) -> T {{\n        T {{").unwrap();
            for f in fields {
                writeln!(o, "            {}: {},", f.name, from_n_expr(f)).unwrap();
            }
            writeln!(o, "        }}\n    }}").unwrap();
            writeln!(o, "    #[allow(unused_variables)]\n    pub fn bump(t: &T) -> T {{\n        T {{").unwrap();
            for f in fields {
                writeln!(o, "            {}: {},", f.name, bump_expr(f, &format!("t.{}", f.name))).unwrap();
            }
            writeln!(o, "        }}\n    }}").unwrap();
        }
        Shape::Enum { variants } => {
            let pat = |v: &VariantSpec| -> String {
                if v.fields.is_empty() {
                    format!("T::{}", v.name)
                } else if v.tuple {
                    format!("T::{}({})", v.name, (0..v.fields.len()).map(|i| format!("g{}", i)).collect::<Vec<_>>().join(", "))
                } else {
                    format!("T::{} {{ {} }}", v.name, v.fields.iter().enumerate().map(|(i, f)| format!("{}: g{}", f.name, i)).collect::<Vec<_>>().join(", "))
                }
            };
            let build = |v: &VariantSpec, exprs: Vec<String>| -> String {
                if v.fields.is_empty() {
                    format!("T::{}", v.name)
                } else if v.tuple {
                    format!("T::{}({})", v.name, exprs.join(", "))
                } else {
                    format!("T::{} {{ {} }}", v.name, v.fields.iter().zip(exprs).map(|(f, e)| format!("{}: {}", f.name, e)).collect::<Vec<_>>().join(", "))
                }
            };
            writeln!(o, "    #[allow(unused_mut)]\n    pub fn to_n(t: &T) -> NVal {{\n        match t {{").unwrap();
            for v in variants {
                writeln!(o, "        {} => {{\n        let mut n = NVal::new(Some(\"{}\"));", pat(v), v.name).unwrap();
                for (i, f) in v.fields.iter().enumerate() {
                    to_n_stmts(f, &format!("*g{}", i), o);
                }
                writeln!(o, "        n }}").unwrap();
            }
            writeln!(o, "        }}\n    }}").unwrap();
            writeln!(o, "    pub fn from_n(n: &NVal) -> T {{\n        match n.variant.as_deref() {{").unwrap();
            for v in variants {
                writeln!(o, "        Some(\"{}\") => {},", v.name, build(v, v.fields.iter().map(from_n_expr).collect())).unwrap();
            }
            writeln!(o, "        other => panic!(\"harness: no variant {{:?}}\", other),\n        }}\n    }}").unwrap();
            writeln!(o, "    pub fn bump(t: &T) -> T {{\n        match t {{").unwrap();
            for v in variants {
                let exprs = v.fields.iter().enumerate().map(|(i, f)| bump_expr(f, &format!("*g{}", i))).collect();
                writeln!(o, "        {} => {},", pat(v), build(v, exprs)).unwrap();
            }
            writeln!(o, "        }}\n    }}").unwrap();
        }
    }
}

const PRELUDE: &str = "    #![allow(non_camel_case_types, dead_code, unused_imports, clippy::all)]\n    use savefile::prelude::*;\n    use savefile::ValueConstructor;\n    use savefile_derive::{Savefile, savefile_abi_exportable};\n    use savefile_abi::{AbiConnection, AbiExportable};\n    use vabi10fam::support::*;\n";

fn emit_trait(depth: u32, o: &mut String) {
    writeln!(o, "    #[savefile_abi_exportable(version = {})]\n    pub trait Iface {{", depth).unwrap();
    for m in methods(depth) {
        match m.as_str() {
            "echo" => writeln!(o, "        fn echo(&self, x: T) -> T;").unwrap(),
            "by_ref" => writeln!(o, "        fn by_ref(&self, x: &T) -> u32;").unwrap(),
            "vecs" => writeln!(o, "        fn vecs(&self, x: Vec<T>) -> Vec<T>;").unwrap(),
            "observe" => writeln!(o, "        fn observe(&self, x: T);").unwrap(),
            "with_cb" => writeln!(o, "        fn with_cb(&self, x: T, f: &dyn Fn(T) -> T) -> T;").unwrap(),
            "with_mut_cb" => writeln!(o, "        fn with_mut_cb(&self, x: T, f: &mut dyn FnMut(T));").unwrap(),
            s => writeln!(o, "        fn {}(&self, a: u32) -> u32;", s).unwrap(),
        }
    }
    writeln!(o, "    }}").unwrap();
}

fn emit_impl(depth: u32, o: &mut String) {
    writeln!(o, "    pub struct Impl;\n    impl Iface for Impl {{").unwrap();
    for m in methods(depth) {
        match m.as_str() {
            "echo" => writeln!(o, "        fn echo(&self, x: T) -> T {{ let r = bump(&x); log(\"echo\", vec![to_n(&x)], None, Ret::One(to_n(&r))); r }}").unwrap(),
            "by_ref" => writeln!(o, "        fn by_ref(&self, x: &T) -> u32 {{ let n = to_n(x); let c = checksum(&n); log(\"by_ref\", vec![n], None, Ret::U(c)); c }}").unwrap(),
            "vecs" => writeln!(o, "        fn vecs(&self, x: Vec<T>) -> Vec<T> {{ let r: Vec<T> = x.iter().map(bump).collect(); log(\"vecs\", x.iter().map(to_n).collect(), None, Ret::Many(r.iter().map(to_n).collect())); r }}").unwrap(),
            "observe" => writeln!(o, "        fn observe(&self, x: T) {{ log(\"observe\", vec![to_n(&x)], None, Ret::Unit); }}").unwrap(),
            // the callback is handed a value derived from the implementation's OWN full field set
            "with_cb" => writeln!(o, "        fn with_cb(&self, x: T, f: &dyn Fn(T) -> T) -> T {{ let p = bump(&x); log_begin_cb(\"with_cb\", vec![to_n(&x)], to_n(&p)); let y = f(p); log_end_cb(Some(to_n(&y)), Ret::One(to_n(&y))); y }}").unwrap(),
            "with_mut_cb" => writeln!(o, "        fn with_mut_cb(&self, x: T, f: &mut dyn FnMut(T)) {{ let p = bump(&x); log_begin_cb(\"with_mut_cb\", vec![to_n(&x)], to_n(&p)); f(p); log_end_cb(None, Ret::Unit); }}").unwrap(),
            s => writeln!(o, "        fn {0}(&self, a: u32) -> u32 {{ let r = scalar_result(\"{0}\", a); log(\"{0}\", vec![], Some(a), Ret::U(r)); r }}", s).unwrap(),
        }
    }
    writeln!(o, "    }}").unwrap();
}

pub fn emit_node(nodes: &[Node], idx: usize, members: &[usize]) -> String {
    let node = &nodes[idx];
    let mut o = String::new();
    writeln!(o, "/// {} version {}: {}", node.id, node.depth, node.edits().chars().map(edit_label).collect::<Vec<_>>().join(" ; ")).unwrap();
    writeln!(o, "pub mod {} {{\n{}", node.module(), PRELUDE).unwrap();
    emit_type(&node.shape, &mut o);
    emit_conversions(&node.shape, &mut o);
    emit_trait(node.depth, &mut o);
    emit_impl(node.depth, &mut o);
    // caller side
    writeln!(o, "    pub struct Caller(pub AbiConnection<dyn Iface>);\n    impl CallerShim for Caller {{").unwrap();
    writeln!(o, "        fn effective_version(&self) -> u32 {{ self.0.template.effective_version }}").unwrap();
    writeln!(o, "        fn passable_by_ref(&self, method: &str, arg: usize) -> bool {{ self.0.get_arg_passable_by_ref(method, arg) }}").unwrap();
    writeln!(o, "        fn method_map(&self) -> Vec<(String, Option<u16>)> {{ self.0.template.methods.iter().map(|m| (m.method_name.clone(), m.callee_method_number)).collect() }}").unwrap();
    writeln!(o, "        fn call(&self, method: &str, args: &[NVal], a: u32) -> Ret {{\n            match method {{").unwrap();
    for m in methods(node.depth) {
        match m.as_str() {
            "echo" => writeln!(o, "                \"echo\" => Ret::One(to_n(&self.0.echo(from_n(&args[0])))),").unwrap(),
            "by_ref" => writeln!(o, "                \"by_ref\" => Ret::U(self.0.by_ref(&from_n(&args[0]))),").unwrap(),
            "vecs" => writeln!(o, "                \"vecs\" => Ret::Many(self.0.vecs(args.iter().map(from_n).collect()).iter().map(to_n).collect()),").unwrap(),
            "observe" => writeln!(o, "                \"observe\" => {{ self.0.observe(from_n(&args[0])); Ret::Unit }}").unwrap(),
            // the caller-side closure records what it receives and answers from the CALLER's full field set
            "with_cb" => writeln!(o, "                \"with_cb\" => {{ let f = |t: T| -> T {{ let r = bump(&t); cb_log(to_n(&t), Some(to_n(&r))); r }}; Ret::One(to_n(&self.0.with_cb(from_n(&args[0]), &f))) }}").unwrap(),
            "with_mut_cb" => writeln!(o, "                \"with_mut_cb\" => {{ let mut f = |t: T| {{ cb_log(to_n(&t), None); }}; self.0.with_mut_cb(from_n(&args[0]), &mut f); Ret::Unit }}").unwrap(),
            s => writeln!(o, "                \"{0}\" => Ret::U(self.0.{0}(a)),", s).unwrap(),
        }
    }
    writeln!(o, "                other => panic!(\"harness: the caller has no method {{}}\", other),\n            }}\n        }}\n    }}").unwrap();
    // connection table: every node on a common path
    writeln!(o, "    pub fn connect(callee: &str) -> Option<Result<Box<dyn CallerShim>, String>> {{\n        match callee {{").unwrap();
    for other in members.iter().map(|i| &nodes[*i]).filter(|x| on_same_path(x, node)) {
        writeln!(
            o,
            "            \"{id}\" => Some(unsafe {{ AbiConnection::<dyn Iface>::from_boxed_trait_for_test(<dyn super::{m}::Iface as AbiExportable>::ABI_ENTRY, Box::new(super::{m}::Impl) as Box<dyn super::{m}::Iface>) }}.map(|c| Box::new(Caller(c)) as Box<dyn CallerShim>).map_err(|e| format!(\"{{:?}}\", e))),",
            id = other.id,
            m = other.module()
        )
        .unwrap();
    }
    writeln!(o, "            _ => None,\n        }}\n    }}").unwrap();
    writeln!(o, "    pub fn latest_version() -> u32 {{ <dyn Iface as AbiExportable>::get_latest_version() }}").unwrap();
    writeln!(o, "}}").unwrap();
    o
}

/// a module whose `trait Iface` (version 0) differs from the base root's in one breaking way
pub fn emit_break(base: char, kind: &str) -> String {
    let root = base_shape(base);
    let mut o = String::new();
    writeln!(o, "pub mod brk_{}_{} {{\n{}", base, kind, PRELUDE).unwrap();
    // the data type
    let mut shape = root.clone();
    let own_type = kind == "fieldtype" || kind == "fieldgone";
    if own_type {
        match &mut shape {
            Shape::Struct { fields, .. } => {
                if kind == "fieldtype" {
                    fields[0].ty = if fields[0].ty == FTy::U32 { FTy::U16 } else { FTy::U32 };
                } else {
                    fields.pop();
                }
            }
            Shape::Enum { variants } => {
                if kind == "fieldtype" {
                    variants[1].fields[0].ty = FTy::U16;
                } else {
                    variants[2].fields.pop();
                }
            }
        }
        emit_type(&shape, &mut o);
    } else {
        writeln!(o, "    pub use super::n_{}::T;", base).unwrap();
    }
    writeln!(o, "    #[savefile_abi_exportable(version = 0)]\n    pub trait Iface {{").unwrap();
    let sig = |m: &str| -> String {
        match (m, kind) {
            ("echo", "argcount") => "fn echo(&self, x: T, extra: u32) -> T".into(),
            ("echo", "retunit") => "fn echo(&self, x: T)".into(),
            ("echo", _) => "fn echo(&self, x: T) -> T".into(),
            ("by_ref", "reftype") => "fn by_ref(&self, x: &u64) -> u32".into(),
            ("by_ref", "rettype") => "fn by_ref(&self, x: &T) -> u64".into(),
            ("by_ref", _) => "fn by_ref(&self, x: &T) -> u32".into(),
            ("vecs", _) => "fn vecs(&self, x: Vec<T>) -> Vec<T>".into(),
            ("observe", "argtype") => "fn observe(&self, x: u32)".into(),
            ("observe", _) => "fn observe(&self, x: T)".into(),
            ("with_cb", _) => "fn with_cb(&self, x: T, f: &dyn Fn(T) -> T) -> T".into(),
            ("with_mut_cb", _) => "fn with_mut_cb(&self, x: T, f: &mut dyn FnMut(T))".into(),
            (s, _) => format!("fn {}(&self, a: u32) -> u32", s),
        }
    };
    for m in methods(0) {
        writeln!(o, "        {};", sig(&m)).unwrap();
    }
    writeln!(o, "    }}\n    pub struct Impl;\n    #[allow(unused_variables)]\n    impl Iface for Impl {{").unwrap();
    for m in methods(0) {
        let s = sig(&m);
        let body = if m == "with_cb" {
            "f(x)"
        } else if m == "with_mut_cb" {
            "f(x)"
        } else if s.ends_with("-> T") {
            "x"
        } else if s.ends_with("-> Vec<T>") {
            "x"
        } else if s.ends_with("-> u32") || s.ends_with("-> u64") {
            "0"
        } else {
            ""
        };
        writeln!(o, "        {} {{ {} }}", s, body).unwrap();
    }
    writeln!(o, "    }}").unwrap();
    writeln!(
        o,
        "    /// this definition as the caller, the base root as the implementation\n    pub fn as_caller() -> Result<u32, String> {{ unsafe {{ AbiConnection::<dyn Iface>::from_boxed_trait_for_test(<dyn super::n_{b}::Iface as AbiExportable>::ABI_ENTRY, Box::new(super::n_{b}::Impl) as Box<dyn super::n_{b}::Iface>) }}.map(|c| c.template.effective_version).map_err(|e| format!(\"{{:?}}\", e)) }}",
        b = base
    )
    .unwrap();
    writeln!(
        o,
        "    /// the base root as the caller, this definition as the implementation\n    pub fn as_impl() -> Result<u32, String> {{ unsafe {{ AbiConnection::<dyn super::n_{b}::Iface>::from_boxed_trait_for_test(<dyn Iface as AbiExportable>::ABI_ENTRY, Box::new(Impl) as Box<dyn Iface>) }}.map(|c| c.template.effective_version).map_err(|e| format!(\"{{:?}}\", e)) }}",
        b = base
    )
    .unwrap();
    writeln!(o, "}}").unwrap();
    o
}

/// The family is compiled in SHARDS (one crate each, built in parallel): a shard holds the base
/// root(s) and complete depth-1 subtrees, so every pair of nodes on a common path lives in exactly
/// one shard (root/root pairs and the breaking variants: in the first shard of the base).
pub const SHARDS: &[&[&str]] = &[&["pa"], &["pb"], &["pc"], &["pd"], &["pe"], &["pf"], &["ma"], &["mb"], &["mc"], &["md"], &["me"], &["mf"], &["eg", "eh"], &["ei", "ej"]];

pub fn shard_members(nodes: &[Node], shard: usize) -> Vec<usize> {
    let prefixes = SHARDS[shard];
    (0..nodes.len()).filter(|i| prefixes.iter().any(|p| nodes[*i].id.starts_with(p) || (nodes[*i].depth == 0 && p.starts_with(&nodes[*i].id)))).collect()
}
/// the shard that serves the pair (both orders)
pub fn shard_of(a: &str, b: &str) -> Option<usize> {
    let deeper = if a.len() >= b.len() { a } else { b };
    SHARDS.iter().position(|ps| ps.iter().any(|p| if deeper.len() >= 2 { deeper.starts_with(p) } else { p.starts_with(deeper) }))
}
pub fn first_shard_of_base(base: char) -> usize {
    SHARDS.iter().position(|ps| ps[0].starts_with(base)).expect("base has a shard")
}

pub fn emit_shard(shard: usize) -> String {
    let nodes = tree();
    let members = shard_members(&nodes, shard);
    let mut o = String::new();
    o.push_str("// generated by build.rs from fam10/src/spec.rs - do not edit\nuse vabi10fam::support::CallerShim;\n");
    for i in &members {
        o.push_str(&emit_node(&nodes, *i, &members));
    }
    let bases: Vec<char> = BASES.iter().map(|(b, _)| *b).filter(|b| first_shard_of_base(*b) == shard).collect();
    for b in &bases {
        for (k, _) in BREAKS {
            o.push_str(&emit_break(*b, k));
        }
    }
    // registry
    o.push_str("pub fn connect(caller: &str, callee: &str) -> Option<Result<Box<dyn CallerShim>, String>> {\n    match caller {\n");
    for i in &members {
        writeln!(o, "        \"{}\" => {}::connect(callee),", nodes[*i].id, nodes[*i].module()).unwrap();
    }
    o.push_str("        _ => None,\n    }\n}\n");
    o.push_str("pub fn latest_version(node: &str) -> Option<u32> {\n    match node {\n");
    for i in &members {
        writeln!(o, "        \"{}\" => Some({}::latest_version()),", nodes[*i].id, nodes[*i].module()).unwrap();
    }
    o.push_str("        _ => None,\n    }\n}\n");
    o.push_str("#[allow(unused_variables)]\npub fn break_connect(base: char, kind: &str, broken_side_is_caller: bool) -> Option<Result<u32, String>> {\n    match (base, kind, broken_side_is_caller) {\n");
    for b in &bases {
        for (k, _) in BREAKS {
            writeln!(o, "        ('{b}', \"{k}\", true) => Some(brk_{b}_{k}::as_caller()),\n        ('{b}', \"{k}\", false) => Some(brk_{b}_{k}::as_impl()),", b = b, k = k).unwrap();
        }
    }
    o.push_str("        _ => None,\n    }\n}\n");
    o
}
