//! C10 family: history tree model (`spec`), shared runtime pieces (`support`) and the generated
//! modules (`family`, written by build.rs, expanded by the real savefile macros).
pub mod spec;
pub mod support;
#[allow(clippy::all)]
pub mod family {
    include!(concat!(env!("OUT_DIR"), "/family.rs"));
}
