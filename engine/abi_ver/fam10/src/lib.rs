//! C10: the history-tree model (`spec`) and the runtime pieces shared by the generated shard
//! crates (`support`). The generated modules live in the crates `../sh10/sNN`.
pub mod spec;
pub mod support;
