// Emits the C10 family (history tree of src/spec.rs) into OUT_DIR/family.rs.
#[allow(dead_code)]
mod spec {
    include!("src/spec.rs");
}

fn main() {
    println!("cargo:rerun-if-changed=src/spec.rs");
    println!("cargo:rerun-if-changed=build.rs");
    let out = std::path::PathBuf::from(std::env::var("OUT_DIR").unwrap()).join("family.rs");
    let text = spec::emit_all();
    let unchanged = std::fs::read_to_string(&out).map(|t| t == text).unwrap_or(false);
    if !unchanged {
        std::fs::write(&out, text).expect("write family.rs");
    }
}
