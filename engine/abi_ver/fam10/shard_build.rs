// build script shared by the shard crates sh10/sNN: emits shard NN of the C10 family.
#[allow(dead_code)]
mod spec {
    include!("src/spec.rs");
}

fn main() {
    let here = std::path::PathBuf::from(std::env::var("CARGO_MANIFEST_DIR").unwrap());
    println!("cargo:rerun-if-changed={}", here.join("../../fam10/src/spec.rs").display());
    println!("cargo:rerun-if-changed={}", here.join("../../fam10/shard_build.rs").display());
    println!("cargo:rerun-if-changed=build.rs");
    let name = std::env::var("CARGO_PKG_NAME").unwrap();
    let shard: usize = name.trim_start_matches("vabi10s").parse().expect("shard crate name vabi10sNN");
    let out = std::path::PathBuf::from(std::env::var("OUT_DIR").unwrap()).join("family.rs");
    let text = spec::emit_shard(shard);
    let unchanged = std::fs::read_to_string(&out).map(|t| t == text).unwrap_or(false);
    if !unchanged {
        std::fs::write(&out, text).expect("write family.rs");
    }
}
