//! Generated shard: the sources under ../gen are written by `vgen` (git-ignored).
#![allow(non_camel_case_types, dead_code, unused_imports, unused_variables, unused_parens, clippy::all)]
pub mod types {
    include!("../gen/types.rs");
}
pub mod lib {
    include!("../gen/lib.rs");
}
pub mod hist {
    include!("../gen/hist.rs");
}
#[cfg(feature = "thorough")]
pub mod hist_thorough {
    include!("../gen/hist_thorough.rs");
}
#[cfg(feature = "thorough")]
pub mod types_thorough {
    include!("../gen/types_thorough.rs");
}
