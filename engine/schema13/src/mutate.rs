//! Single mutations of a schema tree.
//!
//! `Required` mutations are the wire-altering changes listed by the property (a primitive's kind, a
//! field or variant added / removed / reordered, a variant's name or discriminant, the discriminant
//! width, an array length, option / vector wrapping). `Control` mutations change only things the
//! documentation calls insignificant (struct / field names, layout annotations, string / vector
//! layout codes, boxing): for them NOTHING is claimed, the outcome is only counted.
//!
//! Positions: a mutation is applied at the root and at every node reachable through data edges
//! (struct / variant fields, vector / array / option items), wrapper edges (box, reference,
//! slice) and method ARGUMENT edges of trait definitions. Method return values are not mutated:
//! `diff_schema` documents (diff_abi_def / verify_backward_compatible) that trait definitions are
//! compared by ABI policy, not as data layout.
use crate::conv::{children, with_child, Edge};
use vmodel::schema::{RField, RVariant, RS, PRIM_CODES};

#[derive(Clone, Debug)]
pub struct Mutation {
    /// e.g. "prim_kind", "field_added", "ctl_struct_name"
    pub kind: &'static str,
    pub required: bool,
    /// human readable: path and what was changed
    pub desc: String,
    pub result: RS,
}

/// Canonical form that forgets everything the documentation calls insignificant for the wire:
/// struct and field names, sizes, alignments, offsets, has_explicit_repr, string / vector layout
/// codes, box and reference wrappers; a slice is a vector, `str` is a string. Two trees with the
/// same canonical form are never REQUIRED to be reported as different.
pub fn wire_canon(s: &RS) -> RS {
    let cf = |fields: &[RField]| -> Vec<RField> {
        fields
            .iter()
            .map(|f| RField {
                name: String::new(),
                value: wire_canon(&f.value),
                offset: None,
            })
            .collect()
    };
    match s {
        RS::Struct { fields, .. } => RS::Struct {
            name: String::new(),
            size: None,
            align: None,
            fields: cf(fields),
        },
        RS::Enum {
            variants, discr_size, ..
        } => RS::Enum {
            name: String::new(),
            variants: variants
                .iter()
                .map(|v| RVariant {
                    name: v.name.clone(),
                    discr: v.discr,
                    fields: cf(&v.fields),
                })
                .collect(),
            discr_size: *discr_size,
            explicit_repr: false,
            size: None,
            align: None,
        },
        RS::PrimString(_) | RS::Str => RS::PrimString(0),
        RS::Vector(i, _) | RS::Slice(i) => RS::Vector(Box::new(wire_canon(i)), 0),
        RS::Array(n, i) => RS::Array(*n, Box::new(wire_canon(i))),
        RS::Option(i) => RS::Option(Box::new(wire_canon(i))),
        RS::Boxed(i) | RS::Reference(i) => wire_canon(i),
        RS::Trait(..) | RS::FnClosure(..) | RS::Future(..) => {
            // keep the definition, canonicalise the schemas inside
            let mut out = s.clone();
            let kids: Vec<RS> = children(s).iter().map(|(_, c)| wire_canon(c)).collect();
            for (i, k) in kids.into_iter().enumerate() {
                out = with_child(&out, i, k);
            }
            out
        }
        other => other.clone(),
    }
}

fn opaque_traits(s: &RS) -> RS {
    if let RS::Trait(..) | RS::FnClosure(..) | RS::Future(..) = s {
        return RS::Custom("<trait object>".into());
    }
    let mut out = s.clone();
    let kids: Vec<RS> = children(s).iter().map(|(_, c)| opaque_traits(c)).collect();
    for (i, k) in kids.into_iter().enumerate() {
        out = with_child(&out, i, k);
    }
    out
}

const VARIANT_NAMES: [&str; 3] = ["", "x", "y"];
const DISCRS: [u8; 3] = [0, 1, 255];
const WIDTHS: [u8; 3] = [1, 2, 4];
const ARRAY_LENS: [u64; 4] = [0, 1, 2, 3];

fn new_field() -> RField {
    RField {
        name: "n".into(),
        value: RS::Prim(2),
        offset: None,
    }
}

fn field_list_mutations(
    fields: &[RField],
    what: &str,
    path: &str,
    rebuild: &dyn Fn(Vec<RField>) -> RS,
    out: &mut Vec<Mutation>,
) {
    for pos in 0..=fields.len() {
        let mut f = fields.to_vec();
        f.insert(pos, new_field());
        out.push(Mutation {
            kind: "field_added",
            required: true,
            desc: format!("{}: {} field inserted at {}", path, what, pos),
            result: rebuild(f),
        });
    }
    for pos in 0..fields.len() {
        let mut f = fields.to_vec();
        f.remove(pos);
        out.push(Mutation {
            kind: "field_removed",
            required: true,
            desc: format!("{}: {} field {} removed", path, what, pos),
            result: rebuild(f),
        });
    }
    for pos in 0..fields.len().saturating_sub(1) {
        let mut f = fields.to_vec();
        f.swap(pos, pos + 1);
        out.push(Mutation {
            kind: "field_reordered",
            required: true,
            desc: format!("{}: {} fields {} and {} swapped", path, what, pos, pos + 1),
            result: rebuild(f),
        });
    }
    // controls
    for pos in 0..fields.len() {
        let mut f = fields.to_vec();
        f[pos].name = if f[pos].name == "q" { "r".into() } else { "q".into() };
        out.push(Mutation {
            kind: "ctl_field_name",
            required: false,
            desc: format!("{}: {} field {} renamed", path, what, pos),
            result: rebuild(f),
        });
        let mut f = fields.to_vec();
        f[pos].offset = match f[pos].offset {
            None => Some(16),
            Some(_) => None,
        };
        out.push(Mutation {
            kind: "ctl_field_offset",
            required: false,
            desc: format!("{}: {} field {} offset toggled", path, what, pos),
            result: rebuild(f),
        });
    }
}

/// local mutations of the node itself
fn local(s: &RS, path: &str, out: &mut Vec<Mutation>) {
    let mut req = |kind: &'static str, desc: String, result: RS| {
        out.push(Mutation {
            kind,
            required: true,
            desc: format!("{}: {}", path, desc),
            result,
        })
    };
    // wrapping added / removed
    req("option_wrap", "wrapped in option".into(), RS::Option(Box::new(s.clone())));
    req("vector_wrap", "wrapped in vector".into(), RS::Vector(Box::new(s.clone()), 0));
    match s {
        RS::Option(i) => req("option_unwrap", "option removed".into(), (**i).clone()),
        RS::Vector(i, _) => req("vector_unwrap", "vector removed".into(), (**i).clone()),
        _ => {}
    }
    match s {
        RS::Prim(c) => {
            for c2 in PRIM_CODES {
                if c2 != *c {
                    req("prim_kind", format!("primitive {} -> {}", c, c2), RS::Prim(c2));
                }
            }
            req("prim_kind", format!("primitive {} -> string", c), RS::PrimString(0));
        }
        RS::PrimString(_) => {
            for c2 in PRIM_CODES {
                req("prim_kind", format!("string -> primitive {}", c2), RS::Prim(c2));
            }
        }
        RS::Array(n, i) => {
            for n2 in ARRAY_LENS {
                if n2 != *n {
                    req("array_len", format!("array length {} -> {}", n, n2), RS::Array(n2, i.clone()));
                }
            }
        }
        RS::Enum {
            name,
            variants,
            discr_size,
            explicit_repr,
            size,
            align,
        } => {
            let rebuild = |v: Vec<RVariant>, ds: u8| RS::Enum {
                name: name.clone(),
                variants: v,
                discr_size: ds,
                explicit_repr: *explicit_repr,
                size: *size,
                align: *align,
            };
            for w in WIDTHS {
                if w != *discr_size {
                    req(
                        "discr_width",
                        format!("discriminant width {} -> {}", discr_size, w),
                        rebuild(variants.clone(), w),
                    );
                }
            }
            for pos in 0..=variants.len() {
                let mut v = variants.clone();
                v.insert(
                    pos,
                    RVariant {
                        name: "n".into(),
                        discr: 7,
                        fields: vec![],
                    },
                );
                req("variant_added", format!("variant inserted at {}", pos), rebuild(v, *discr_size));
            }
            for pos in 0..variants.len() {
                let mut v = variants.clone();
                v.remove(pos);
                req("variant_removed", format!("variant {} removed", pos), rebuild(v, *discr_size));
                for nn in VARIANT_NAMES {
                    if nn != variants[pos].name {
                        let mut v = variants.clone();
                        v[pos].name = nn.to_string();
                        req(
                            "variant_name",
                            format!("variant {} name {:?} -> {:?}", pos, variants[pos].name, nn),
                            rebuild(v, *discr_size),
                        );
                    }
                }
                for d in DISCRS {
                    if d != variants[pos].discr {
                        let mut v = variants.clone();
                        v[pos].discr = d;
                        req(
                            "variant_discr",
                            format!("variant {} discriminant {} -> {}", pos, variants[pos].discr, d),
                            rebuild(v, *discr_size),
                        );
                    }
                }
            }
            for pos in 0..variants.len().saturating_sub(1) {
                let mut v = variants.clone();
                v.swap(pos, pos + 1);
                req(
                    "variant_reordered",
                    format!("variants {} and {} swapped", pos, pos + 1),
                    rebuild(v, *discr_size),
                );
            }
        }
        _ => {}
    }
    // field lists (struct, enum variants)
    match s {
        RS::Struct { name, size, align, fields } => {
            let rebuild = |f: Vec<RField>| RS::Struct {
                name: name.clone(),
                size: *size,
                align: *align,
                fields: f,
            };
            field_list_mutations(fields, "struct", path, &rebuild, out);
        }
        RS::Enum { variants, .. } => {
            for (vi, v) in variants.iter().enumerate() {
                let rebuild = |f: Vec<RField>| {
                    let mut e = s.clone();
                    if let RS::Enum { variants, .. } = &mut e {
                        variants[vi].fields = f;
                    }
                    e
                };
                field_list_mutations(&v.fields, &format!("variant {}", vi), path, &rebuild, out);
            }
        }
        _ => {}
    }
    // controls of the node itself
    let mut ctl = |kind: &'static str, desc: &str, result: RS| {
        out.push(Mutation {
            kind,
            required: false,
            desc: format!("{}: {}", path, desc),
            result,
        })
    };
    ctl("ctl_box_wrap", "wrapped in box", RS::Boxed(Box::new(s.clone())));
    let toggle = |v: Option<u64>| match v {
        None => Some(16),
        Some(_) => None,
    };
    match s {
        RS::Struct { name, size, align, fields } => {
            ctl(
                "ctl_struct_name",
                "struct renamed",
                RS::Struct {
                    name: format!("{}q", name),
                    size: *size,
                    align: *align,
                    fields: fields.clone(),
                },
            );
            ctl(
                "ctl_size_align",
                "size/alignment toggled",
                RS::Struct {
                    name: name.clone(),
                    size: toggle(*size),
                    align: toggle(*align),
                    fields: fields.clone(),
                },
            );
        }
        RS::Enum {
            name,
            variants,
            discr_size,
            explicit_repr,
            size,
            align,
        } => {
            ctl(
                "ctl_enum_name",
                "enum renamed",
                RS::Enum {
                    name: format!("{}q", name),
                    variants: variants.clone(),
                    discr_size: *discr_size,
                    explicit_repr: *explicit_repr,
                    size: *size,
                    align: *align,
                },
            );
            ctl(
                "ctl_enum_layout",
                "explicit_repr/size/alignment toggled",
                RS::Enum {
                    name: name.clone(),
                    variants: variants.clone(),
                    discr_size: *discr_size,
                    explicit_repr: !*explicit_repr,
                    size: toggle(*size),
                    align: toggle(*align),
                },
            );
        }
        RS::PrimString(l) => ctl("ctl_string_layout", "string layout code changed", RS::PrimString((*l + 1) % 9)),
        RS::Vector(i, l) => ctl("ctl_vector_layout", "vector layout code changed", RS::Vector(i.clone(), (*l + 1) % 9)),
        RS::Boxed(i) => ctl("ctl_box_unwrap", "box removed", (**i).clone()),
        _ => {}
    }
}

fn walk(s: &RS, path: &str, out: &mut Vec<Mutation>) {
    local(s, path, out);
    for (idx, (edge, child)) in children(s).iter().enumerate() {
        if *edge == Edge::Ret {
            continue;
        }
        let mut sub = vec![];
        walk(child, &format!("{}/{}", path, idx), &mut sub);
        for m in sub {
            out.push(Mutation {
                kind: m.kind,
                required: m.required,
                desc: m.desc,
                result: with_child(s, idx, m.result),
            });
        }
    }
}

/// All single mutations of `s`. A reordering whose result has the same wire-canonical form as `s`
/// (e.g. swapping two fields that differ only in name) is downgraded to a control.
pub fn mutations(s: &RS) -> Vec<Mutation> {
    let mut out = vec![];
    walk(s, "", &mut out);
    // "reordered when that changes the tree": a swap is required to be reported only if it changes
    // the tree modulo everything the documentation calls insignificant. For this test trait
    // objects / closures / futures are opaque (they are compared by ABI policy: methods are matched
    // by name, names and bounds are not compared), so swapping two of them is never a claim.
    let base = opaque_traits(&wire_canon(s));
    for m in &mut out {
        if m.required
            && (m.kind == "field_reordered" || m.kind == "variant_reordered")
            && opaque_traits(&wire_canon(&m.result)) == base
        {
            m.required = false;
        }
    }
    out.retain(|m| &m.result != s);
    out
}
