//! Complete files (header + schema section + payload) whose schema section is produced by the
//! MODEL encoder at library format versions 0, 1 and 2, loaded with the real `savefile::load`;
//! and the checked-in golden ledger files of savefile-test.
use crate::acc::{err_kind, real_de, real_ser, Partial};
use crate::conv::{rs_from_json, rs_to_json, to_real, to_real_trait};
use crate::mutate::mutations;
use savefile::prelude::*;
use std::fmt::Debug;
use vcommon::serde_json::{json, Value};
use vcommon::{tags, Violation};
use vmodel::schema::{decode_schema, encode_schema, strip_layout, RS};

#[derive(Savefile, Debug, PartialEq, Clone)]
pub struct P {
    a: u32,
    b: String,
}
#[derive(Savefile, Debug, PartialEq, Clone)]
pub enum E {
    A,
    B(u8),
    C { x: u16, y: String },
}
#[derive(Savefile, Debug, PartialEq, Clone)]
pub struct N {
    v: Vec<u16>,
    o: Option<u8>,
    arr: [u8; 3],
    e: E,
    bx: Box<u32>,
    t: (u8, u16),
}

pub fn header(lib_version: u16, data_version: u32) -> Vec<u8> {
    let mut h = b"savefile\0".to_vec();
    h.extend_from_slice(&lib_version.to_le_bytes());
    h.extend_from_slice(&data_version.to_le_bytes());
    h.push(0); // not compressed
    h
}

/// toggles every layout annotation (never names, never anything wire relevant)
fn relayout(s: &RS) -> RS {
    let t = |v: Option<u64>| match v {
        None => Some(32),
        Some(_) => None,
    };
    let mut out = match s {
        RS::Struct { name, size, align, fields } => RS::Struct {
            name: name.clone(),
            size: t(*size),
            align: t(*align),
            fields: fields
                .iter()
                .map(|f| vmodel::schema::RField {
                    name: f.name.clone(),
                    value: f.value.clone(),
                    offset: t(f.offset),
                })
                .collect(),
        },
        RS::Enum {
            name,
            variants,
            discr_size,
            explicit_repr,
            size,
            align,
        } => RS::Enum {
            name: name.clone(),
            variants: variants
                .iter()
                .map(|v| vmodel::schema::RVariant {
                    name: v.name.clone(),
                    discr: v.discr,
                    fields: v
                        .fields
                        .iter()
                        .map(|f| vmodel::schema::RField {
                            name: f.name.clone(),
                            value: f.value.clone(),
                            offset: t(f.offset),
                        })
                        .collect(),
                })
                .collect(),
            discr_size: *discr_size,
            explicit_repr: !*explicit_repr,
            size: t(*size),
            align: t(*align),
        },
        RS::PrimString(l) => RS::PrimString((*l + 1) % 9),
        RS::Vector(i, l) => RS::Vector(i.clone(), (*l + 1) % 9),
        o => o.clone(),
    };
    let kids: Vec<RS> = crate::conv::children(&out).iter().map(|(_, c)| relayout(c)).collect();
    for (i, k) in kids.into_iter().enumerate() {
        out = crate::conv::with_child(&out, i, k);
    }
    out
}

#[derive(Clone, Copy, PartialEq, Eq, Debug)]
pub enum Expect {
    Loads,
    Rejected,
    /// nothing claimed, outcome counted
    Control,
}

#[derive(Debug, PartialEq, Eq)]
pub enum LoadOutcome {
    Value,
    WrongValue,
    TrailingBytes,
    Rejected(String),
    Panic(String),
}

fn load_file<T: savefile::Savefile + PartialEq>(p: &mut Partial, bytes: &[u8], expected: &T) -> LoadOutcome {
    p.count("transitions", 1);
    let r = vcommon::guarded(|| {
        let mut rd: &[u8] = bytes;
        savefile::load::<T>(&mut rd, 0).map(|v| (v, rd.len()))
    });
    match r {
        Ok(Ok((v, rest))) => {
            if &v != expected {
                LoadOutcome::WrongValue
            } else if rest != 0 {
                LoadOutcome::TrailingBytes
            } else {
                LoadOutcome::Value
            }
        }
        Ok(Err(e)) => LoadOutcome::Rejected(err_kind(&e)),
        Err(pm) => LoadOutcome::Panic(pm),
    }
}

fn payload<T: savefile::Savefile>(v: &T) -> Vec<u8> {
    let mut out = vec![];
    if Serializer::bare_serialize(&mut out, 0, v).is_err() {
        vcommon::machinery_error("payload of a file case cannot be serialized");
    }
    out
}

/// one file case; `schema` is what the model writes into the schema section
#[allow(clippy::too_many_arguments)]
fn one_file<T: savefile::Savefile + PartialEq + Debug>(
    p: &mut Partial,
    type_name: &str,
    fmt: u16,
    label: &str,
    schema: &RS,
    value_index: usize,
    value: &T,
    expect: Expect,
    mutation_kind: &str,
) {
    let mut bytes = header(fmt, 0);
    bytes.extend(encode_schema(schema, fmt));
    bytes.extend(payload(value));
    let out = load_file::<T>(p, &bytes, value);
    p.count("file_cases", 1);
    if std::env::var("VSCHEMA_VERBOSE").is_ok() {
        println!("  file bytes {}\n  value {:?}\n  expectation {:?}, savefile::load -> {:?}", vcommon::hex(&bytes), value, expect, out);
    }
    let case = json!({"kind":"file","type":type_name,"format":fmt,"label":label,"schema":rs_to_json(schema),
        "value_index":value_index,"expect":format!("{:?}",expect),"mutation_kind":mutation_kind});
    match expect {
        Expect::Loads => {
            p.outcome("file_loads");
            if out != LoadOutcome::Value {
                p.violation(Violation {
                    oracle: "file_load".into(),
                    tags: tags(&[("format_version", fmt.to_string()), ("type", type_name.into()), ("schema_variant", label.into())]),
                    summary: format!(
                        "format-{} file of {} (schema section written by the model, variant {}) does not load: {:?}",
                        fmt, type_name, label, out
                    ),
                    case,
                });
            }
        }
        Expect::Rejected => {
            p.outcome("file_rejected");
            p.count("file_gate_cases", 1);
            if !matches!(out, LoadOutcome::Rejected(_)) {
                p.violation(Violation {
                    oracle: "file_gate".into(),
                    tags: tags(&[("format_version", fmt.to_string()), ("type", type_name.into()), ("mutation_kind", mutation_kind.into())]),
                    summary: format!(
                        "format-{} file of {} whose stored schema has one wire-altering change ({}) is not rejected: {:?}",
                        fmt, type_name, label, out
                    ),
                    case,
                });
            }
        }
        Expect::Control => {
            let o = match out {
                LoadOutcome::Value => "loads",
                LoadOutcome::Rejected(_) => "rejected",
                _ => "other",
            };
            p.count(&format!("file_control_relayout_{}", o), 1);
        }
    }
}

pub fn type_cases<T: savefile::Savefile + PartialEq + Debug>(p: &mut Partial, type_name: &str, values: &[T]) -> Option<RS> {
    // the model's view of the real schema of T (binding: real bytes -> model decoder -> to_real == real)
    p.count("transitions", 1);
    let real = savefile::get_schema::<T>(0);
    let disagree = |p: &mut Partial, what: String| {
        p.violation(Violation {
            oracle: "persist_model_decode".into(),
            tags: tags(&[("format_version", "2".into()), ("type", type_name.into())]),
            summary: format!("schema of the derived type {}: {}", type_name, what),
            case: json!({"kind":"save","type":type_name,"value_index":0}),
        });
    };
    let bytes2 = match real_ser(p, &real, 2) {
        Ok(b) => b,
        Err(e) => {
            disagree(p, format!("cannot be serialized at format 2: {}", e));
            return None;
        }
    };
    let rs = match decode_schema(&bytes2, 2) {
        Ok((rs, used)) if used == bytes2.len() => rs,
        other => {
            disagree(
                p,
                format!(
                    "the model decoder does not read the real format-2 bytes {} completely: {:?}",
                    vcommon::hex(&bytes2),
                    other.map(|x| x.1)
                ),
            );
            return None;
        }
    };
    if to_real(&rs) != real {
        p.violation(Violation {
            oracle: "persist_model_decode".into(),
            tags: tags(&[("format_version", "2".into()), ("type", type_name.into())]),
            summary: format!("model decoding of the real schema bytes of {} does not denote the real schema", type_name),
            case: json!({"kind":"tree","tree":rs_to_json(&rs),"version":2}),
        });
    }
    // the real save(): header announces the current library format and the schema section is
    // exactly the model encoding at that format
    for (vi, v) in values.iter().enumerate() {
        p.count("transitions", 1);
        let mut out = vec![];
        let ok = vcommon::guarded(|| savefile::save(&mut out, 0, v).is_ok()).unwrap_or(false);
        let lib = if out.len() >= 11 { u16::from_le_bytes([out[9], out[10]]) } else { u16::MAX };
        let mut want = header(lib, 0);
        if lib <= 2 {
            want.extend(encode_schema(&rs, lib));
        }
        want.extend(payload(v));
        p.count("real_save_cases", 1);
        if !ok || lib != savefile::CURRENT_SAVEFILE_LIB_VERSION || out != want {
            p.violation(Violation {
                oracle: "file_written_by_save".into(),
                tags: tags(&[("type", type_name.into())]),
                summary: format!(
                    "savefile::save of {} value #{}: header/schema section differ from header + model schema encoding at the announced library format {}",
                    type_name, vi, lib
                ),
                case: json!({"kind":"save","type":type_name,"value_index":vi}),
            });
        }
    }
    let variants: Vec<(&str, RS, Expect)> = vec![
        ("as_is", rs.clone(), Expect::Loads),
        ("stripped", strip_layout(&rs), Expect::Loads),
        ("relayout", relayout(&rs), Expect::Control),
    ];
    for fmt in 0u16..=2 {
        for (label, w, expect) in &variants {
            for (vi, v) in values.iter().enumerate() {
                one_file(p, type_name, fmt, label, w, vi, v, *expect, "");
            }
        }
        // the gate: every single wire-altering change that format `fmt` can express is rejected
        let base = encode_schema(&rs, fmt);
        for m in mutations(&rs) {
            if !m.required || encode_schema(&m.result, fmt) == base {
                continue;
            }
            one_file(p, type_name, fmt, &m.desc, &m.result, 0, &values[0], Expect::Rejected, m.kind);
        }
    }
    Some(rs)
}

pub fn values_p() -> Vec<P> {
    vec![
        P { a: 0, b: String::new() },
        P {
            a: 0x0102_0304,
            b: "h\u{e9}".into(),
        },
    ]
}
pub fn values_e() -> Vec<E> {
    vec![E::A, E::B(7), E::C { x: 513, y: "s".into() }]
}
pub fn values_n() -> Vec<N> {
    vec![
        N {
            v: vec![],
            o: None,
            arr: [0; 3],
            e: E::A,
            bx: Box::new(0),
            t: (0, 0),
        },
        N {
            v: vec![1, 0x0203],
            o: Some(9),
            arr: [1, 2, 3],
            e: E::C { x: 1, y: "yy".into() },
            bx: Box::new(0xdead_beef),
            t: (7, 0x0809),
        },
    ]
}

/// all file cases; returns the model trees of the three real types (they are also fed to the tree oracles)
pub fn all_file_cases(p: &mut Partial) -> Vec<RS> {
    [
        type_cases::<P>(p, "P", &values_p()),
        type_cases::<E>(p, "E", &values_e()),
        type_cases::<N>(p, "N", &values_n()),
    ]
    .into_iter()
    .flatten()
    .collect()
}

/// replay of one file case
pub fn replay_file(p: &mut Partial, case: &Value) -> Result<(), String> {
    let ty = case["type"].as_str().unwrap_or("");
    if case["kind"] == "save" {
        match ty {
            "P" => drop(type_cases::<P>(p, "P", &values_p())),
            "E" => drop(type_cases::<E>(p, "E", &values_e())),
            "N" => drop(type_cases::<N>(p, "N", &values_n())),
            _ => return Err(format!("unknown type {}", ty)),
        }
        return Ok(());
    }
    let fmt = case["format"].as_u64().ok_or("format missing")? as u16;
    let schema = rs_from_json(&case["schema"])?;
    let vi = case["value_index"].as_u64().unwrap_or(0) as usize;
    let label = case["label"].as_str().unwrap_or("");
    let kind = case["mutation_kind"].as_str().unwrap_or("").to_string();
    let expect = match case["expect"].as_str() {
        Some("Loads") => Expect::Loads,
        Some("Rejected") => Expect::Rejected,
        _ => Expect::Control,
    };
    match ty {
        "P" => one_file(p, ty, fmt, label, &schema, vi, &values_p()[vi], expect, &kind),
        "E" => one_file(p, ty, fmt, label, &schema, vi, &values_e()[vi], expect, &kind),
        "N" => one_file(p, ty, fmt, label, &schema, vi, &values_n()[vi], expect, &kind),
        _ => return Err(format!("unknown type {}", ty)),
    }
    Ok(())
}

// ---------------------------------------------------------------- golden ledger files

/// `/repo/savefile-test/schemas/*.schema` are written by savefile-abi's `verify_compatiblity`
/// with `save_file_noschema(path, 1, &AbiTraitDefinition)`: a plain container (16-byte header, no
/// schema section, not compressed) whose payload is an `AbiTraitDefinition` serialized with
/// serializer version = the header's DATA version (1). The schema (de)serializers interpret that
/// number as the schema format version.
pub fn golden_file(p: &mut Partial, path: &std::path::Path) -> Option<RS> {
    let name = path.file_name().map(|x| x.to_string_lossy().to_string()).unwrap_or_default();
    let fail = |p: &mut Partial, what: String| {
        p.violation(Violation {
            oracle: "golden_decode".into(),
            tags: tags(&[("file", name.clone())]),
            summary: format!("{}: {}", path.display(), what),
            case: json!({"kind":"golden","path":path.display().to_string()}),
        });
    };
    let bytes = match std::fs::read(path) {
        Ok(b) => b,
        Err(e) => vcommon::machinery_error(&format!("cannot read {}: {}", path.display(), e)),
    };
    p.count("golden_files", 1);
    if bytes.len() < 16 || &bytes[..9] != b"savefile\0" {
        fail(p, "not a savefile container".into());
        return None;
    }
    let lib = u16::from_le_bytes([bytes[9], bytes[10]]);
    let data_ver = u32::from_le_bytes([bytes[11], bytes[12], bytes[13], bytes[14]]);
    if bytes[15] != 0 || data_ver > 2 || lib > 2 {
        fail(p, format!("unexpected framing: lib {} data version {} compression {}", lib, data_ver, bytes[15]));
        return None;
    }
    let body = &bytes[16..];
    // real code, the way verify_compatiblity reads it
    p.count("transitions", 1);
    let real = vcommon::guarded(|| {
        let mut rd: &[u8] = &bytes;
        savefile::load_noschema::<AbiTraitDefinition>(&mut rd, 1).map(|d| (d, rd.len()))
    });
    let real = match real {
        Ok(Ok((d, 0))) => d,
        Ok(Ok((_, rest))) => {
            fail(p, format!("real loader leaves {} bytes unread", rest));
            return None;
        }
        Ok(Err(e)) => {
            fail(p, format!("real loader fails: {}", err_kind(&e)));
            return None;
        }
        Err(pm) => {
            fail(p, format!("real loader panics: {}", pm));
            return None;
        }
    };
    // model: a trait definition is what follows the two bytes `15, mut` of a Schema::Trait
    let mut framed = vec![15u8, 0u8];
    framed.extend_from_slice(body);
    let (tree, def) = match decode_schema(&framed, data_ver as u16) {
        Ok((RS::Trait(false, t), used)) if used == framed.len() => (RS::Trait(false, t.clone()), t),
        other => {
            fail(p, format!("model decoder fails or leaves bytes: {:?}", other.map(|x| x.1)));
            return None;
        }
    };
    p.outcome("golden_decoded");
    if to_real_trait(&def) != real {
        fail(p, "model decoding and real decoding denote different trait definitions".into());
    }
    if encode_schema(&tree, data_ver as u16)[2..] != *body {
        fail(p, "model re-encoding differs from the file".into());
    }
    p.count("transitions", 1);
    let mut re = vec![];
    let ok = vcommon::guarded(|| Serializer::bare_serialize(&mut re, data_ver, &real).is_ok()).unwrap_or(false);
    if !ok || re != body {
        fail(p, "real re-serialization differs from the file".into());
    }
    // and through the Schema (de)serializer proper
    match real_de(p, &framed, data_ver as u16) {
        Ok((s, 0)) if s == to_real(&tree) => {}
        other => fail(p, format!("real Schema deserializer on [15,0]+body: {:?}", other.map(|x| x.1))),
    }
    Some(tree)
}

pub fn golden_dir() -> std::path::PathBuf {
    std::path::PathBuf::from("/repo/savefile-test/schemas")
}

pub fn all_golden(p: &mut Partial) -> Vec<RS> {
    let dir = golden_dir();
    let mut paths: Vec<_> = match std::fs::read_dir(&dir) {
        Ok(rd) => rd
            .filter_map(|e| e.ok().map(|e| e.path()))
            .filter(|x| x.extension().map(|e| e == "schema").unwrap_or(false))
            .collect(),
        Err(_) => vec![],
    };
    paths.sort();
    paths.iter().filter_map(|x| golden_file(p, x)).collect()
}
