//! vschema: engine for C13 (stub)
fn main() {
    vcommon::machinery_error("vschema not implemented yet");
}
