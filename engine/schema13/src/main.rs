//! vschema: bounded exhaustive check of property C13 (schema persistence at library format
//! versions 0/1/2, reflexivity and completeness of `diff_schema`).
//!
//! Every enumerated schema tree `S` (model type `vmodel::schema::RS`) is converted to a real
//! `savefile::Schema` with the public constructors and pushed through the REAL serializer,
//! deserializer and `diff_schema`; the independent model codec of `vmodel::schema` supplies the
//! expected bytes / trees and the format-0 input.
mod acc;
mod conv;
mod files;
mod gen;
mod mutate;

use acc::{real_de, real_diff, real_ser, DiffOutcome, Partial};
use conv::{features, normalize, rs_from_json, rs_to_json, to_real};
use std::collections::HashSet;
use vcommon::serde_json::{json, Map, Value};
use vcommon::{tags, Tier, Violation};
use vmodel::schema::{decode_schema, encode_schema, strip_layout, RS};

/// What to run on a tree. `only_mutation`: replay of one (tree, mutation) pair.
#[derive(Clone, Default)]
struct Opts {
    mutations: bool,
    only_mutation: Option<(String, RS)>,
    verbose: bool,
}

fn tree_case(s: &RS, version: Option<u16>, mutation: Option<(&str, &str, &RS)>) -> Value {
    let mut c = json!({"kind": "tree", "tree": rs_to_json(s)});
    if let Some(v) = version {
        c["version"] = json!(v);
    }
    if let Some((kind, desc, result)) = mutation {
        c["mutation"] = json!({"kind": kind, "desc": desc, "result": rs_to_json(result)});
    }
    c
}

fn short(s: &RS) -> String {
    let t = format!("{:?}", s);
    if t.len() > 300 {
        format!("{}…", t.chars().take(300).collect::<String>())
    } else {
        t
    }
}

fn check_tree(s: &RS, p: &mut Partial, o: &Opts) {
    let f = features(s);
    let real = to_real(s);
    p.count("evaluations", 1);
    let nontrivial = f.has_layout_annotation || f.has_trait_def;
    if nontrivial {
        p.count("nontrivial_trees", 1);
    }
    let say = |m: String| {
        if o.verbose {
            println!("  {}", m);
        }
    };

    // ---------------------------------------------------------------- (a) persistence at 1, 2
    let mut bound = true;
    for v in [1u16, 2u16] {
        let vt = |extra: &[(&str, String)]| {
            let mut t = vec![("format_version", v.to_string())];
            t.extend(extra.iter().cloned());
            tags(&t)
        };
        let model_bytes = encode_schema(s, v);
        let bytes = match real_ser(p, &real, v) {
            Ok(b) => b,
            Err(e) => {
                bound = false;
                p.violation(Violation {
                    oracle: "persist_error".into(),
                    tags: vt(&[("step", "serialize".into())]),
                    summary: format!("serializing at format {} fails ({}) for {}", v, e, short(s)),
                    case: tree_case(s, Some(v), None),
                });
                continue;
            }
        };
        say(format!("format {}: real bytes {}", v, vcommon::hex(&bytes)));
        if bytes != model_bytes {
            p.violation(Violation {
                oracle: "persist_bytes_vs_model".into(),
                tags: vt(&[]),
                summary: format!(
                    "format {}: real bytes {} != model bytes {} for {}",
                    v,
                    vcommon::hex(&bytes),
                    vcommon::hex(&model_bytes),
                    short(s)
                ),
                case: tree_case(s, Some(v), None),
            });
        }
        let norm = normalize(s, v);
        match real_de(p, &bytes, v) {
            Ok((back, rest)) => {
                if rest != 0 {
                    p.violation(Violation {
                        oracle: "persist_error".into(),
                        tags: vt(&[("step", "trailing_bytes".into())]),
                        summary: format!("format {}: deserializer leaves {} bytes unread for {}", v, rest, short(s)),
                        case: tree_case(s, Some(v), None),
                    });
                }
                if back == real {
                    p.outcome(&format!("persist_v{}_exact", v));
                    say(format!("format {}: read back == written", v));
                } else {
                    p.outcome(&format!("persist_v{}_changed", v));
                    let feature = if norm != *s && back == to_real(&norm) {
                        "trait_method_receiver_or_async"
                    } else {
                        "other"
                    };
                    say(format!("format {}: read back != written ({})", v, feature));
                    p.violation(Violation {
                        oracle: "persist_roundtrip".into(),
                        tags: vt(&[("feature", feature.into())]),
                        summary: format!(
                            "format {}: deserialize(serialize(S)) != S ({}) for {}",
                            v,
                            if feature == "other" {
                                "unexplained difference"
                            } else {
                                "receiver kind / async flag of a trait method are not stored and come back as &self / false"
                            },
                            short(s)
                        ),
                        case: tree_case(s, Some(v), None),
                    });
                }
            }
            Err(e) => {
                p.violation(Violation {
                    oracle: "persist_error".into(),
                    tags: vt(&[("step", "deserialize".into())]),
                    summary: format!("format {}: deserializing the real bytes fails ({}) for {}", v, e, short(s)),
                    case: tree_case(s, Some(v), None),
                });
            }
        }
        // the model decoder reads the real bytes as what format v can express of S
        match decode_schema(&bytes, v) {
            Ok((t, used)) if used == bytes.len() && t == norm => {}
            other => {
                bound = false;
                p.violation(Violation {
                    oracle: "persist_model_decode".into(),
                    tags: vt(&[]),
                    summary: format!(
                        "format {}: model decoder on the real bytes gives {:?}, expected {}",
                        v,
                        other.map(|x| (short(&x.0), x.1)),
                        short(&norm)
                    ),
                    case: tree_case(s, Some(v), None),
                });
            }
        }
        // if the bytes differ, the real decoder must still read the model's bytes as norm
        if bytes != model_bytes {
            bound = false;
            match real_de(p, &model_bytes, v) {
                Ok((back, 0)) if back == to_real(&norm) => {}
                other => p.violation(Violation {
                    oracle: "persist_bytes_vs_model".into(),
                    tags: vt(&[("step", "real_reads_model_bytes".into())]),
                    summary: format!("format {}: real decoder on model bytes: {:?}", v, other.map(|x| x.1)),
                    case: tree_case(s, Some(v), None),
                }),
            }
        }
    }
    if bound {
        p.count("traces_validated_against_impl", 1);
    }

    // ---------------------------------------------------------------- (b) format 0
    {
        let b0 = encode_schema(s, 0);
        let exp0 = strip_layout(s);
        p.outcome(if exp0 == *s { "format0_lossless" } else { "format0_annotations_dropped" });
        match decode_schema(&b0, 0) {
            Ok((t, used)) if used == b0.len() && t == exp0 => {}
            _ => p.count("machinery_model_selfcheck_failed", 1),
        }
        match real_de(p, &b0, 0) {
            Ok((back, rest)) if rest == 0 && back == to_real(&exp0) => {
                say("format 0: model bytes decode to S minus layout annotations".into());
            }
            other => {
                say(format!("format 0: FAILED {:?}", other.as_ref().map(|x| x.1)));
                p.violation(Violation {
                    oracle: "format0_decode".into(),
                    tags: tags(&[("format_version", "0".into())]),
                    summary: format!(
                        "format-0 bytes {} decode to {:?}, expected S minus layout annotations, S = {}",
                        vcommon::hex(&b0),
                        other.map(|x| (format!("{:?}", x.0).chars().take(200).collect::<String>(), x.1)),
                        short(s)
                    ),
                    case: tree_case(s, Some(0), None),
                })
            }
        }
    }

    // ---------------------------------------------------------------- (c), (d) diff_schema
    if f.has_undefined {
        p.count("diff_excluded_undefined", 1);
        // informational: the documented behaviour (never comparable)
        match real_diff(p, &real, &real, false) {
            DiffOutcome::Differs => p.count("info_undefined_reported_as_difference", 1),
            DiffOutcome::Same => p.count("info_undefined_tree_compares_equal", 1),
            DiffOutcome::Panic(_) => p.count("info_undefined_tree_panics", 1),
        }
        return;
    }
    if f.has_future && !f.futures_in_return_position {
        p.count("diff_excluded_future_outside_return_position", 1);
        match real_diff(p, &real, &real, true) {
            DiffOutcome::Panic(_) => p.count("info_future_outside_return_position_panics", 1),
            DiffOutcome::Same => p.count("info_future_outside_return_position_same", 1),
            DiffOutcome::Differs => p.count("info_future_outside_return_position_differs", 1),
        }
        return;
    }
    p.count("diff_domain_trees", 1);
    let irps: &[bool] = if f.has_future { &[true] } else { &[false, true] };
    for irp in irps {
        let out = real_diff(p, &real, &real, *irp);
        say(format!("diff_schema(S, S, is_return_pos={}) = {:?}", irp, out));
        match out {
            DiffOutcome::Same => p.outcome("reflexive_none"),
            DiffOutcome::Differs | DiffOutcome::Panic(_) => {
                let oc = if out == DiffOutcome::Differs { "difference" } else { "panic" };
                p.violation(Violation {
                    oracle: "diff_reflexive".into(),
                    tags: tags(&[("outcome", oc.into()), ("is_return_pos", irp.to_string())]),
                    summary: format!("diff_schema(S, S, is_return_pos={}) reports {:?} for {}", irp, out, short(s)),
                    case: tree_case(s, None, None),
                })
            }
        }
    }
    if !o.mutations && o.only_mutation.is_none() {
        return;
    }
    p.count("diff_domain_trees_mutated", 1);
    let irp = f.has_future;
    let muts = match &o.only_mutation {
        Some((kind, result)) => {
            let all = mutate::mutations(s);
            match all.into_iter().find(|m| &m.result == result) {
                Some(m) => vec![m],
                None => {
                    println!("  note: stored mutation {} is no longer generated for this tree; evaluating it as required", kind);
                    vec![mutate::Mutation {
                        kind: "replayed",
                        required: true,
                        desc: kind.clone(),
                        result: result.clone(),
                    }]
                }
            }
        }
        None => mutate::mutations(s),
    };
    let mut seen: HashSet<RS> = HashSet::new();
    for m in muts {
        if !seen.insert(m.result.clone()) {
            continue;
        }
        let r2 = to_real(&m.result);
        let ab = real_diff(p, &real, &r2, irp);
        let ba = real_diff(p, &r2, &real, irp);
        if o.verbose {
            println!("  mutation {} [{}] required={} -> diff(S,S')={:?} diff(S',S)={:?}", m.kind, m.desc, m.required, ab, ba);
        }
        if m.required {
            p.count("mutation_pairs_required", 1);
            p.count(&format!("required:{}", m.kind), 1);
            for (order, out) in [("ab", &ab), ("ba", &ba)] {
                p.count("evaluations", 1);
                match out {
                    DiffOutcome::Differs => p.outcome("mutation_reported"),
                    DiffOutcome::Same | DiffOutcome::Panic(_) => {
                        let oc = if *out == DiffOutcome::Same { "none" } else { "panic" };
                        p.outcome(&format!("mutation_{}", oc));
                        p.violation(Violation {
                            oracle: "diff_complete".into(),
                            tags: tags(&[("mutation_kind", m.kind.into()), ("order", order.into()), ("outcome", oc.into())]),
                            summary: format!(
                                "single wire-altering change not reported ({}): {} [{}], order {}, S = {}",
                                oc,
                                m.kind,
                                m.desc,
                                order,
                                short(s)
                            ),
                            case: tree_case(s, None, Some((m.kind, &m.desc, &m.result))),
                        });
                    }
                }
            }
        } else {
            p.count("mutation_pairs_control", 1);
            let cls = match (&ab, &ba) {
                (DiffOutcome::Same, DiffOutcome::Same) => "not_reported",
                (DiffOutcome::Differs, DiffOutcome::Differs) => "reported",
                (DiffOutcome::Panic(_), _) | (_, DiffOutcome::Panic(_)) => "panic",
                _ => "asymmetric",
            };
            p.outcome(&format!("control_{}", cls));
            p.count(&format!("control:{}:{}", m.kind, cls), 1);
        }
    }
}

// -------------------------------------------------------------------------------- families

struct Family {
    name: &'static str,
    what: String,
    /// whether the single-mutation sweep (oracle d) runs on the trees of this family
    mutate: bool,
    /// runs the enumerator
    run: Box<dyn Fn(&mut dyn FnMut(RS))>,
}

fn leaves_small() -> Vec<RS> {
    vec![RS::Prim(2), RS::PrimString(1)]
}

/// reduced leaf alphabet for positions that are crossed with each other
fn leaves_reduced() -> Vec<RS> {
    vec![
        RS::Prim(2),
        RS::Prim(6),
        RS::PrimString(1),
        RS::ZeroSize,
        RS::Custom("c".into()),
        RS::Recursion(0),
        RS::Trait(
            true,
            vmodel::schema::RTrait {
                name: "x".into(),
                methods: vec![],
                sync: true,
                send: false,
            },
        ),
        RS::FnClosure(
            false,
            vmodel::schema::RTrait {
                name: "".into(),
                methods: vec![],
                sync: false,
                send: false,
            },
        ),
    ]
}

/// middle leaf alphabet (quick tier, positions crossed with each other)
fn leaves_middle() -> Vec<RS> {
    let mut v = vec![];
    for c in [2u8, 4, 7, 10, 12, 16] {
        v.push(RS::Prim(c));
    }
    v.extend([
        RS::PrimString(1),
        RS::ZeroSize,
        RS::Str,
        RS::Custom("c".into()),
        RS::Recursion(1),
        RS::Struct {
            name: "x".into(),
            size: Some(8),
            align: None,
            fields: vec![],
        },
        RS::Enum {
            name: "".into(),
            variants: vec![vmodel::schema::RVariant {
                name: "x".into(),
                discr: 1,
                fields: vec![],
            }],
            discr_size: 2,
            explicit_repr: true,
            size: None,
            align: Some(4),
        },
        RS::Trait(
            true,
            vmodel::schema::RTrait {
                name: "x".into(),
                methods: vec![],
                sync: true,
                send: false,
            },
        ),
    ]);
    v
}

/// the full constructor alphabet as children: every primitive code, every string layout, every
/// unit-like variant, custom strings, recursion depths, empty structs with all annotation
/// combinations, enums without fields / trait objects / closures / futures without methods at the
/// reduced attribute tuples
fn leaves_full() -> Vec<RS> {
    let mut p = gen::full();
    let r = gen::reduced();
    p.enum_attrs = r.enum_attrs.clone();
    p.variant_attrs = r.variant_attrs.clone();
    p.trait_attrs = r.trait_attrs.clone();
    p.fut_flags = r.fut_flags.clone();
    p.enum_shapes = vec![vec![], vec![0], vec![0, 0]];
    gen::collect(&p, &[], &[])
}

fn families(tier: Tier) -> Vec<Family> {
    let mut fams: Vec<Family> = vec![];
    let full = gen::full();
    let red = gen::reduced();
    let min = gen::minimal();
    let a0 = leaves_full();
    let k = leaves_small();
    let r = leaves_reduced();

    {
        let full = full.clone();
        fams.push(Family {
            mutate: true,
            name: "depth0_full_attributes",
            what: format!("every node without schema children; profile {}", gen::describe(&full)),
            run: Box::new(move |e| gen::nodes(&full, &[], &[], e)),
        });
    }
    {
        let (full, k) = (full.clone(), k.clone());
        fams.push(Family {
            mutate: true,
            name: "depth1_full_attributes",
            what: format!(
                "every node with exactly one schema child from {:?}, all attribute alphabets fully crossed (profile full)",
                k
            ),
            run: Box::new(move |e| gen::nodes(&full, &k, &[], e)),
        });
    }
    {
        let (red, a0, r) = (red.clone(), a0.clone(), r.clone());
        fams.push(Family {
            mutate: true,
            name: "depth1_full_child_alphabet",
            what: format!(
                "every node with one child from the full leaf alphabet ({} leaves) or two children from the reduced leaf alphabet {:?}; profile {}",
                a0.len(),
                r,
                gen::describe(&red)
            ),
            run: Box::new(move |e| gen::nodes(&red, &a0, &r, e)),
        });
    }
    {
        // names outside ASCII (byte length != character count) and boundary numbers
        let mut p = gen::minimal();
        let n = || "\u{e9}\u{4e16}".to_string();
        p.label = "boundary";
        p.struct_attrs = vec![(n(), Some(0), Some(u64::MAX)), (n(), Some(u64::MAX), Some(0))];
        p.field_attrs = vec![(n(), Some(u64::MAX)), (n(), Some(0))];
        p.enum_attrs = vec![(n(), 0, true, Some(u64::MAX), Some(0)), (n(), 255, false, Some(0), Some(u64::MAX))];
        p.variant_attrs = vec![(n(), 255), (n(), 128)];
        p.trait_attrs = vec![(n(), true, true)];
        p.method_attrs = vec![(n(), 2, true)];
        p.customs = vec![n(), "x".repeat(300)];
        p.recursions = vec![u64::MAX, 1 << 32];
        p.counts = vec![u64::MAX, 1 << 32, 255, 256];
        let k = k.clone();
        fams.push(Family {
            mutate: true,
            name: "boundary_values",
            what: format!(
                "every node with one child or two children from {:?} under a profile with multi-byte names, a 300-byte custom string and numbers 0 / 255 / 256 / 2^32 / u64::MAX in sizes, alignments, offsets, discriminants, discriminant widths, array counts and recursion depths: {}",
                k,
                gen::describe(&p).chars().take(400).collect::<String>()
            ),
            run: Box::new(move |e| gen::nodes(&p, &k, &k, e)),
        });
    }
    // depth 2: children are leaves or depth-1 nodes over a reduced leaf alphabet
    let d1_single: Vec<RS> = {
        let mut v = r.clone();
        v.extend(gen::collect(&min, &r, &[]));
        dedup(v)
    };
    let d1_multi: Vec<RS> = vec![
        RS::Prim(2),
        RS::PrimString(1),
        RS::Vector(Box::new(RS::Prim(2)), 1),
        RS::Option(Box::new(RS::PrimString(0))),
        RS::Boxed(Box::new(RS::Prim(6))),
        RS::Struct {
            name: "x".into(),
            size: Some(8),
            align: Some(4),
            fields: vec![vmodel::schema::RField {
                name: "x".into(),
                value: RS::Prim(6),
                offset: Some(4),
            }],
        },
        RS::Enum {
            name: "x".into(),
            variants: vec![vmodel::schema::RVariant {
                name: "x".into(),
                discr: 1,
                fields: vec![vmodel::schema::RField {
                    name: "".into(),
                    value: RS::Prim(2),
                    offset: None,
                }],
            }],
            discr_size: 1,
            explicit_repr: true,
            size: None,
            align: Some(4),
        },
        RS::Array(3, Box::new(RS::Prim(2))),
    ];
    {
        let (min, s1, m1) = (min.clone(), d1_single.clone(), d1_multi.clone());
        fams.push(Family {
            mutate: true,
            name: "depth2_reduced",
            what: format!(
                "every node with one child from D1 ({} trees: reduced leaves + every depth-1 node over them under profile minimal) or two children from {} fixed leaf/depth-1 trees; profile {}",
                s1.len(),
                m1.len(),
                gen::describe(&min)
            ),
            run: Box::new(move |e| gen::nodes(&min, &s1, &m1, e)),
        });
    }
    if tier == Tier::Quick {
        let m = leaves_middle();
        let red = red.clone();
        fams.push(Family {
            mutate: false,
            name: "depth1_two_children_middle_alphabet",
            what: format!("every node with two children, both from the middle leaf alphabet ({} leaves: {:?}); profile reduced", m.len(), m),
            run: Box::new(move |e| gen::nodes(&red, &[], &m, e)),
        });
    }
    {
        let (red, s1, m1) = (red.clone(), d1_single.clone(), d1_multi.clone());
        fams.push(Family {
            mutate: tier == Tier::Thorough,
            name: "depth2_reduced_profile",
            what: format!(
                "every node with one child from D1 ({} trees, as above) or two children from the {} fixed leaf/depth-1 trees; profile reduced",
                s1.len(),
                m1.len()
            ),
            run: Box::new(move |e| gen::nodes(&red, &s1, &m1, e)),
        });
    }
    if tier == Tier::Thorough {
        {
            let (red, a0) = (red.clone(), a0.clone());
            fams.push(Family {
            mutate: true,
                name: "depth1_two_children_full_alphabet",
                what: format!(
                    "every node with two children, both from the full leaf alphabet ({} leaves); profile reduced",
                    a0.len()
                ),
                run: Box::new(move |e| gen::nodes(&red, &[], &a0, e)),
            });
        }
        // full depth 2: single child from (full leaves + all depth-1 nodes over the reduced leaves under
        // the reduced profile), two children from (reduced leaves + fixed depth-1 trees)
        let d1_big: Vec<RS> = {
            let mut v = a0.clone();
            v.extend(gen::collect(&red, &r, &k));
            dedup(v)
        };
        let d1_multi_big: Vec<RS> = {
            let mut v = r.clone();
            v.extend(d1_multi.clone());
            dedup(v)
        };
        {
            let (red, s1, m1) = (red.clone(), d1_big.clone(), d1_multi_big.clone());
            fams.push(Family {
            mutate: true,
                name: "depth2_full",
                what: format!(
                    "every node with one child from D1' ({} trees: full leaf alphabet + every depth-1 node with one child from the reduced leaves or two children from {:?}, profile reduced) or two children from {} leaf/depth-1 trees; profile reduced",
                    s1.len(),
                    k,
                    m1.len()
                ),
                run: Box::new(move |e| gen::nodes(&red, &s1, &m1, e)),
            });
        }
        // depth 3 over a reduced alphabet
        let d2_small: Vec<RS> = {
            let k1 = vec![RS::Prim(2), RS::PrimString(1), RS::ZeroSize];
            let d1 = gen::collect(&min, &k1, &[]);
            let mut v = d1.clone();
            v.extend(gen::collect(&min, &d1, &[]));
            dedup(v)
        };
        {
            let (min, s2, m1) = (min.clone(), d2_small.clone(), d1_multi.clone());
            fams.push(Family {
            mutate: true,
                name: "depth3_reduced",
                what: format!(
                    "every node with one child from D2 ({} trees: all depth<=2 single-child chains over leaves {{u8, String(layout 1), zero-size}} under profile minimal) or two children from {} fixed trees; profile minimal",
                    s2.len(),
                    m1.len()
                ),
                run: Box::new(move |e| gen::nodes(&min, &s2, &m1, e)),
            });
        }
    }
    fams
}

fn dedup(v: Vec<RS>) -> Vec<RS> {
    let mut seen = HashSet::new();
    v.into_iter().filter(|x| seen.insert(x.clone())).collect()
}

// -------------------------------------------------------------------------------- driver

fn process_batch(batch: &[RS], opts: &Opts, threads: usize) -> Partial {
    let chunk = batch.len().div_ceil(threads.max(1)).max(1);
    let parts: Vec<Partial> = std::thread::scope(|sc| {
        let handles: Vec<_> = batch
            .chunks(chunk)
            .map(|c| {
                sc.spawn(move || {
                    let mut p = Partial::default();
                    for s in c {
                        check_tree(s, &mut p, opts);
                    }
                    p
                })
            })
            .collect();
        handles
            .into_iter()
            .map(|h| h.join().unwrap_or_else(|_| vcommon::machinery_error("worker thread panicked outside a guarded call")))
            .collect()
    });
    let mut total = Partial::default();
    for p in parts {
        total.merge(p);
    }
    total
}

fn replay(args: &vcommon::Args, path: &std::path::Path) -> ! {
    let text = std::fs::read_to_string(path).unwrap_or_else(|e| vcommon::machinery_error(&format!("cannot read {}: {}", path.display(), e)));
    let doc: Value = vcommon::serde_json::from_str(&text).unwrap_or_else(|e| vcommon::machinery_error(&format!("replay file unparsable: {}", e)));
    let oracle = doc["oracle"].as_str().unwrap_or("").to_string();
    let case = &doc["case"];
    println!("replaying property={} oracle={} case kind={}", args.property, oracle, case["kind"]);
    let mut p = Partial::default();
    match case["kind"].as_str() {
        Some("tree") => {
            let s = rs_from_json(&case["tree"]).unwrap_or_else(|e| vcommon::machinery_error(&format!("bad tree in replay file: {}", e)));
            let only = if case["mutation"].is_object() {
                let r = rs_from_json(&case["mutation"]["result"]).unwrap_or_else(|e| vcommon::machinery_error(&format!("bad mutation in replay file: {}", e)));
                Some((case["mutation"]["desc"].as_str().unwrap_or("").to_string(), r))
            } else {
                None
            };
            println!("  tree: {:?}", s);
            // stand-alone reproduction on the real code only (no model involved)
            if let Some(v) = case["version"].as_u64() {
                if v >= 1 {
                    let real = to_real(&s);
                    let mut q = Partial::default();
                    let rt = real_ser(&mut q, &real, v as u16).and_then(|b| real_de(&mut q, &b, v as u16));
                    match rt {
                        Ok((back, rest)) => println!(
                            "  real code only, format {}: deserialize(serialize(x)) == x: {}; unread bytes: {}\n    written:   {:?}\n    read back: {:?}",
                            v,
                            back == real,
                            rest,
                            real,
                            back
                        ),
                        Err(e) => println!("  real code only, format {}: round trip fails: {}", v, e),
                    }
                }
            }
            let opts = Opts {
                mutations: false,
                only_mutation: only,
                verbose: true,
            };
            check_tree(&s, &mut p, &opts);
        }
        Some("file") | Some("save") => {
            std::env::set_var("VSCHEMA_VERBOSE", "1");
            if let Err(e) = files::replay_file(&mut p, case) {
                vcommon::machinery_error(&format!("bad file case: {}", e));
            }
        }
        Some("golden") => {
            let path = std::path::PathBuf::from(case["path"].as_str().unwrap_or(""));
            files::golden_file(&mut p, &path);
        }
        other => vcommon::machinery_error(&format!("unknown case kind {:?}", other)),
    }
    let want_version = case["version"].as_u64().map(|v| v.to_string());
    let mut failing = 0;
    for (v, n) in p.violations.values() {
        let same_oracle = v.oracle == oracle;
        let same_version = match (&want_version, v.tags.get("format_version")) {
            (Some(w), Some(h)) => w == h,
            _ => true,
        };
        println!("  {} oracle={} tags={:?} x{}: {}", if same_oracle && same_version { "FAILS" } else { "also" }, v.oracle, v.tags, n, v.summary);
        if same_oracle && same_version {
            failing += 1;
        }
    }
    if failing > 0 {
        println!("REPLAY: still failing");
        std::process::exit(1)
    }
    println!("REPLAY: passes now");
    std::process::exit(0)
}

fn main() {
    let args = vcommon::parse_args();
    if args.property != "C13" {
        vcommon::machinery_error(&format!("vschema implements C13 only, got {}", args.property));
    }
    vcommon::quiet_panics();
    if let Some(path) = args.replay.clone() {
        replay(&args, &path);
    }
    let mut run = vcommon::Run::new(&args, "model_checking");
    let threads = std::thread::available_parallelism().map(|n| n.get()).unwrap_or(4).min(16);
    let count_only = args.extra.iter().any(|a| a == "--count-only");
    let cap_s: f64 = args.tier.pick(50.0, 1500.0);

    let mut total = Partial::default();
    let mut keys: HashSet<Vec<u8>> = HashSet::new();
    let mut family_stats = vec![];
    let mut idx: u64 = 0;
    let mut depth_hist = std::collections::BTreeMap::<usize, u64>::new();
    let mut max_nodes = 0usize;
    let mut cap_hit = false;

    // ---- files and golden ledger files (their trees also go through the tree oracles)
    let mut extra_trees = vec![];
    {
        let mut p = Partial::default();
        extra_trees.extend(files::all_file_cases(&mut p));
        let g = files::all_golden(&mut p);
        if g.is_empty() {
            run.notes.push(format!("no golden *.schema file decoded under {}", files::golden_dir().display()));
        }
        extra_trees.extend(g);
        total.merge(p);
    }

    let opts = Opts {
        mutations: true,
        only_mutation: None,
        verbose: false,
    };
    let mut fams = families(args.tier);
    {
        let et = extra_trees.clone();
        fams.push(Family {
            mutate: true,
            name: "real_types_and_golden_files",
            what: "schemas of the three derived test types P, E, N and the trait definitions of the checked-in golden ledger files".into(),
            run: Box::new(move |e| et.iter().cloned().for_each(e)),
        });
    }
    for fam in &fams {
        let opts = Opts {
            mutations: fam.mutate,
            ..opts.clone()
        };
        let mut batch: Vec<RS> = vec![];
        let mut emitted = 0u64;
        let mut fresh = 0u64;
        let batch_size = 4096 * threads.max(1) / 4;
        let flush = |batch: &mut Vec<RS>, total: &mut Partial, cap_hit: &mut bool, run: &vcommon::Run| {
            if batch.is_empty() {
                return;
            }
            if !count_only && !*cap_hit {
                if run.elapsed() > cap_s {
                    *cap_hit = true;
                } else {
                    total.merge(process_batch(batch, &opts, threads));
                }
            }
            batch.clear();
        };
        (fam.run)(&mut |s: RS| {
            emitted += 1;
            let key = encode_schema(&s, 2);
            if !keys.insert(key) {
                return;
            }
            fresh += 1;
            *depth_hist.entry(conv::depth(&s)).or_insert(0) += 1;
            max_nodes = max_nodes.max(conv::node_count(&s));
            run.sample(idx, || json!({"family": fam.name, "index": idx, "tree": rs_to_json(&s)}));
            idx += 1;
            batch.push(s);
            if batch.len() >= batch_size {
                flush(&mut batch, &mut total, &mut cap_hit, &run);
            }
        });
        flush(&mut batch, &mut total, &mut cap_hit, &run);
        family_stats.push(json!({"family": fam.name, "emitted": emitted, "new_distinct_trees": fresh, "single_mutation_sweep": fam.mutate, "bounds": fam.what}));
        if std::env::var("VERIF_PROGRESS").is_ok() {
            eprintln!("family {} emitted {} fresh {} t={:.1}s", fam.name, emitted, fresh, run.elapsed());
        }
    }
    if let Some(t) = extra_trees.first() {
        if let Some(mu) = mutate::mutations(t).into_iter().find(|x| x.required) {
            run.samples.push(json!({"kind": "tree_mutation_pair (oracle d)", "tree": rs_to_json(t),
                "mutation": {"kind": mu.kind, "desc": mu.desc, "result": rs_to_json(&mu.result)}}));
        }
        run.samples.push(json!({"kind": "file case (oracle b)", "type": "P", "format": 0,
            "bytes": vcommon::hex(&[files::header(0, 0), encode_schema(&strip_layout(t), 0)].concat()),
            "then": "payload of the value; loaded with savefile::load::<P>"}));
    }
    if count_only {
        for f in &family_stats {
            println!("{} emitted={} fresh={}", f["family"], f["emitted"], f["new_distinct_trees"]);
        }
        println!("total distinct {}", keys.len());
        std::process::exit(0);
    }
    if total.counters.get("machinery_model_selfcheck_failed").copied().unwrap_or(0) > 0 {
        vcommon::machinery_error("the model decoder does not invert the model encoder at format 0 on an enumerated tree");
    }
    if cap_hit {
        run.exhaustive = false;
        run.notes.push(format!("wall-clock cap of {} s hit; families after the cap were not evaluated", cap_s));
    }

    // ---- violations
    for (v, n) in total.violations.values() {
        for _ in 0..*n {
            run.violation(v.clone());
        }
    }

    // ---- evidence
    let c = |k: &str| total.counters.get(k).copied().unwrap_or(0);
    let trees = keys.len() as u64;
    let required_pairs = c("mutation_pairs_required");
    let mut cov = Map::new();
    cov.insert("states".into(), json!(trees + required_pairs + c("file_cases")));
    cov.insert("distinct_trees".into(), json!(trees));
    cov.insert("distinct_tree_mutation_pairs_required".into(), json!(required_pairs));
    cov.insert("distinct_tree_mutation_pairs_control".into(), json!(c("mutation_pairs_control")));
    cov.insert("file_cases".into(), json!(c("file_cases")));
    cov.insert("file_gate_cases".into(), json!(c("file_gate_cases")));
    cov.insert("real_save_cases".into(), json!(c("real_save_cases")));
    cov.insert("golden_files".into(), json!(c("golden_files")));
    cov.insert("transitions".into(), json!(c("transitions")));
    cov.insert("traces_validated_against_impl".into(), json!(c("traces_validated_against_impl")));
    cov.insert("evaluations".into(), json!(c("evaluations") + c("file_cases")));
    cov.insert("nontrivial_trees".into(), json!(c("nontrivial_trees")));
    cov.insert("distinct_nontrivial".into(), json!(c("nontrivial_trees") + required_pairs));
    cov.insert(
        "rule".into(),
        json!("state = distinct schema tree (hash set over its canonical format-2 model encoding), plus distinct (tree, single required mutation) pair, plus file case. All trees of the listed families are enumerated (explicit products, no sampling). A tree is non-trivial for persistence when it carries at least one layout annotation (size/alignment/offset, layout code != 0, discriminant width != 1, explicit repr) or a trait definition, i.e. something the format gates per version; a mutation pair is non-trivial when the mutation is one of the property's wire-altering changes and changes the wire-canonical form of the tree. distinct_nontrivial = nontrivial_trees + distinct_tree_mutation_pairs_required."),
    );
    cov.insert("families".into(), json!(family_stats));
    cov.insert("trees_by_depth".into(), json!(depth_hist.iter().map(|(d, n)| json!({"depth": d, "trees": n})).collect::<Vec<_>>()));
    cov.insert("max_nodes_per_tree".into(), json!(max_nodes));
    cov.insert("diff_domain_trees".into(), json!(c("diff_domain_trees")));
    cov.insert("diff_domain_trees_with_mutation_sweep".into(), json!(c("diff_domain_trees_mutated")));
    cov.insert("diff_excluded_undefined".into(), json!(c("diff_excluded_undefined")));
    cov.insert(
        "diff_excluded_future_outside_return_position".into(),
        json!(c("diff_excluded_future_outside_return_position")),
    );
    cov.insert("distinct_outcomes".into(), json!(total.outcomes.len()));
    cov.insert("outcomes".into(), json!(total.outcomes.iter().collect::<Vec<_>>()));
    let mut per_kind = Map::new();
    let mut controls = Map::new();
    let mut info = Map::new();
    for (k, n) in &total.counters {
        if let Some(kind) = k.strip_prefix("required:") {
            per_kind.insert(kind.to_string(), json!(n));
        } else if let Some(kind) = k.strip_prefix("control:") {
            controls.insert(kind.to_string(), json!(n));
        } else if k.starts_with("info_") || k.starts_with("file_control_") {
            info.insert(k.clone(), json!(n));
        }
    }
    cov.insert("required_mutation_pairs_by_kind".into(), Value::Object(per_kind));
    cov.insert("control_mutation_outcomes_no_claim".into(), Value::Object(controls));
    cov.insert("informational".into(), Value::Object(info));
    cov.insert("wall_clock_cap_s".into(), json!(cap_s));
    cov.insert("threads".into(), json!(threads));
    let assumptions = vec![
        "format-0 schema bytes are what vmodel::schema::encode_schema(.., 0) writes (the format description); the real serializer cannot produce them any more".to_string(),
        "real Schema values are built with the public constructors and compared with PartialEq; private fields are never read".to_string(),
        "diff_schema domain: trees without Schema::Undefined (documented as never comparable) and with Future only in return position (root or method return value, through box/reference/slice), compared with is_return_pos = true; everything else is counted as excluded, not judged".to_string(),
        "completeness is claimed only for the property's list of changes at data positions and method-argument positions; names of structs/fields, layout annotations, layout codes, boxing, and trait-definition policy (method sets, return types, bounds) are controls without a claim".to_string(),
        "64-bit usize".to_string(),
    ];
    run.finish(cov, assumptions)
}
