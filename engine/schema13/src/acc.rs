//! Per-thread accumulator, merged deterministically (in chunk order) by the driver, and thin
//! guarded wrappers around the real savefile operations.
use savefile::{Deserializer, Schema, Serializer};
use std::collections::{BTreeMap, BTreeSet};
use vcommon::serde_json::Value;
use vcommon::Violation;

#[derive(Default)]
pub struct Partial {
    pub counters: BTreeMap<String, u64>,
    pub outcomes: BTreeSet<String>,
    /// one full violation per (oracle, tags) + number of further occurrences
    pub violations: BTreeMap<String, (Violation, u64)>,
    pub samples: Vec<(u64, Value)>,
}

impl Partial {
    pub fn count(&mut self, key: &str, n: u64) {
        if let Some(c) = self.counters.get_mut(key) {
            *c += n;
        } else {
            self.counters.insert(key.to_string(), n);
        }
    }
    pub fn outcome(&mut self, o: &str) {
        if !self.outcomes.contains(o) {
            self.outcomes.insert(o.to_string());
        }
    }
    pub fn violation(&mut self, v: Violation) {
        let key = format!("{}|{:?}", v.oracle, v.tags);
        match self.violations.get_mut(&key) {
            Some(e) => e.1 += 1,
            None => {
                self.violations.insert(key, (v, 1));
            }
        }
    }
    pub fn merge(&mut self, other: Partial) {
        for (k, n) in other.counters {
            *self.counters.entry(k).or_insert(0) += n;
        }
        self.outcomes.extend(other.outcomes);
        for (k, (v, n)) in other.violations {
            match self.violations.get_mut(&k) {
                Some(e) => e.1 += n,
                None => {
                    self.violations.insert(k, (v, n));
                }
            }
        }
        self.samples.extend(other.samples);
    }
}

/// name of the error variant only, never the message text
pub fn err_kind(e: &savefile::SavefileError) -> String {
    let d = format!("{:?}", e);
    d.split(|c: char| !c.is_alphanumeric() && c != '_').next().unwrap_or("").to_string()
}

/// real serializer at schema format version `ver`
pub fn real_ser(p: &mut Partial, s: &Schema, ver: u16) -> Result<Vec<u8>, String> {
    p.count("transitions", 1);
    let r = vcommon::guarded(|| {
        let mut out = Vec::new();
        Serializer::bare_serialize(&mut out, ver as u32, s).map(|_| out)
    });
    match r {
        Ok(Ok(b)) => Ok(b),
        Ok(Err(e)) => Err(format!("error {}", err_kind(&e))),
        Err(pm) => Err(format!("panic {}", pm)),
    }
}

/// real deserializer at schema format version `ver`; returns the schema and the unread byte count
pub fn real_de(p: &mut Partial, b: &[u8], ver: u16) -> Result<(Schema, usize), String> {
    p.count("transitions", 1);
    let r = vcommon::guarded(|| {
        let mut rd: &[u8] = b;
        Deserializer::bare_deserialize::<Schema>(&mut rd, ver as u32).map(|s| (s, rd.len()))
    });
    match r {
        Ok(Ok(x)) => Ok(x),
        Ok(Err(e)) => Err(format!("error {}", err_kind(&e))),
        Err(pm) => Err(format!("panic {}", pm)),
    }
}

#[derive(Clone, Debug, PartialEq, Eq)]
pub enum DiffOutcome {
    Same,
    Differs,
    Panic(String),
}

pub fn real_diff(p: &mut Partial, a: &Schema, b: &Schema, is_return_pos: bool) -> DiffOutcome {
    p.count("transitions", 1);
    match vcommon::guarded(|| savefile::diff_schema(a, b, String::new(), is_return_pos)) {
        Ok(None) => DiffOutcome::Same,
        Ok(Some(_)) => DiffOutcome::Differs,
        Err(pm) => DiffOutcome::Panic(pm),
    }
}
