//! Conversions: model tree `RS` -> real `savefile::Schema`, `RS` <-> JSON (for replay files),
//! and the "what version v can express" normalisation.
use savefile::{
    AbiMethod, AbiMethodArgument, AbiMethodInfo, AbiTraitDefinition, Field, ReceiverType, Schema, SchemaArray,
    SchemaEnum, SchemaPrimitive, SchemaStruct, Variant, VecOrStringLayout,
};
use vcommon::serde_json::{json, Value};
use vmodel::schema::{RField, RMethod, RTrait, RVariant, RS};

/// layout code of the format description -> real enum (own table, written from the format text)
pub fn layout(code: u8) -> VecOrStringLayout {
    match code {
        0 => VecOrStringLayout::Unknown,
        1 => VecOrStringLayout::DataCapacityLength,
        2 => VecOrStringLayout::DataLengthCapacity,
        3 => VecOrStringLayout::CapacityDataLength,
        4 => VecOrStringLayout::LengthDataCapacity,
        5 => VecOrStringLayout::CapacityLengthData,
        6 => VecOrStringLayout::LengthCapacityData,
        7 => VecOrStringLayout::LengthData,
        8 => VecOrStringLayout::DataLength,
        _ => vcommon::machinery_error(&format!("layout code {} outside the model's alphabet", code)),
    }
}

pub fn prim(code: u8) -> SchemaPrimitive {
    match code {
        1 => SchemaPrimitive::schema_i8,
        2 => SchemaPrimitive::schema_u8,
        3 => SchemaPrimitive::schema_i16,
        4 => SchemaPrimitive::schema_u16,
        5 => SchemaPrimitive::schema_i32,
        6 => SchemaPrimitive::schema_u32,
        7 => SchemaPrimitive::schema_i64,
        8 => SchemaPrimitive::schema_u64,
        10 => SchemaPrimitive::schema_f32,
        11 => SchemaPrimitive::schema_f64,
        12 => SchemaPrimitive::schema_bool,
        13 => SchemaPrimitive::schema_canary1,
        14 => SchemaPrimitive::schema_i128,
        15 => SchemaPrimitive::schema_u128,
        16 => SchemaPrimitive::schema_char,
        _ => vcommon::machinery_error(&format!("primitive code {} outside the model's alphabet", code)),
    }
}

fn us(v: Option<u64>) -> Option<usize> {
    v.map(|x| x as usize)
}

fn field(f: &RField) -> Field {
    // SAFETY: the offsets are never used to access memory; the values are only serialized,
    // deserialized and compared.
    unsafe { Field::unsafe_new(f.name.clone(), Box::new(to_real(&f.value)), us(f.offset)) }
}

pub fn to_real_trait(t: &RTrait) -> AbiTraitDefinition {
    AbiTraitDefinition {
        name: t.name.clone(),
        methods: t
            .methods
            .iter()
            .map(|m| AbiMethod {
                name: m.name.clone(),
                info: AbiMethodInfo {
                    return_value: to_real(&m.ret),
                    receiver: match m.receiver {
                        0 => ReceiverType::Shared,
                        1 => ReceiverType::Mut,
                        2 => ReceiverType::PinMut,
                        r => vcommon::machinery_error(&format!("receiver code {} outside the model's alphabet", r)),
                    },
                    arguments: m.args.iter().map(|a| AbiMethodArgument { schema: to_real(a) }).collect(),
                    async_trait_heuristic: m.async_heuristic,
                },
            })
            .collect(),
        sync: t.sync,
        send: t.send,
    }
}

pub fn to_real(s: &RS) -> Schema {
    match s {
        RS::Struct { name, size, align, fields } => Schema::Struct(SchemaStruct::new_unsafe(
            name.clone(),
            fields.iter().map(field).collect(),
            us(*size),
            us(*align),
        )),
        RS::Enum {
            name,
            variants,
            discr_size,
            explicit_repr,
            size,
            align,
        } => Schema::Enum(SchemaEnum::new_unsafe(
            name.clone(),
            variants
                .iter()
                .map(|v| Variant {
                    name: v.name.clone(),
                    discriminant: v.discr,
                    fields: v.fields.iter().map(field).collect(),
                })
                .collect(),
            *discr_size,
            *explicit_repr,
            us(*size),
            us(*align),
        )),
        RS::Prim(c) => Schema::Primitive(prim(*c)),
        RS::PrimString(l) => Schema::Primitive(SchemaPrimitive::schema_string(layout(*l))),
        RS::Vector(i, l) => Schema::Vector(Box::new(to_real(i)), layout(*l)),
        RS::Array(n, i) => Schema::Array(SchemaArray {
            item_type: Box::new(to_real(i)),
            count: *n as usize,
        }),
        RS::Option(i) => Schema::SchemaOption(Box::new(to_real(i))),
        RS::Undefined => Schema::Undefined,
        RS::ZeroSize => Schema::ZeroSize,
        RS::Custom(c) => Schema::Custom(c.clone()),
        RS::Boxed(i) => Schema::Boxed(Box::new(to_real(i))),
        RS::Slice(i) => Schema::Slice(Box::new(to_real(i))),
        RS::Str => Schema::Str,
        RS::Reference(i) => Schema::Reference(Box::new(to_real(i))),
        RS::Trait(m, t) => Schema::Trait(*m, to_real_trait(t)),
        RS::FnClosure(m, t) => Schema::FnClosure(*m, to_real_trait(t)),
        RS::Recursion(d) => Schema::Recursion(*d as usize),
        RS::StdIoError => Schema::StdIoError,
        RS::Future(t, send, sync, unpin) => Schema::Future(to_real_trait(t), *send, *sync, *unpin),
        RS::UninitSlice => Schema::UninitSlice,
        RS::UtcTimestamp => Schema::UtcTimestamp,
    }
}

/// The children of a node in a fixed order, with the kind of edge that leads to them.
#[derive(Clone, Copy, PartialEq, Eq, Debug)]
pub enum Edge {
    /// struct field, enum variant field, vector / array / option item
    Data,
    /// box, reference, slice: transparent for `is_return_pos`
    Wrapper,
    /// return value of a trait method
    Ret,
    /// argument of a trait method
    Arg,
}

fn trait_children(t: &RTrait) -> Vec<(Edge, &RS)> {
    let mut v = vec![];
    for m in &t.methods {
        v.push((Edge::Ret, &m.ret));
        for a in &m.args {
            v.push((Edge::Arg, a));
        }
    }
    v
}

pub fn children(s: &RS) -> Vec<(Edge, &RS)> {
    match s {
        RS::Struct { fields, .. } => fields.iter().map(|f| (Edge::Data, &f.value)).collect(),
        RS::Enum { variants, .. } => variants
            .iter()
            .flat_map(|v| v.fields.iter().map(|f| (Edge::Data, &f.value)))
            .collect(),
        RS::Vector(i, _) | RS::Array(_, i) | RS::Option(i) => vec![(Edge::Data, &**i)],
        RS::Boxed(i) | RS::Slice(i) | RS::Reference(i) => vec![(Edge::Wrapper, &**i)],
        RS::Trait(_, t) | RS::FnClosure(_, t) | RS::Future(t, _, _, _) => trait_children(t),
        _ => vec![],
    }
}

/// The same node with child number `idx` (order of `children`) replaced.
pub fn with_child(s: &RS, idx: usize, new: RS) -> RS {
    let mut out = s.clone();
    let mut new = Some(new);
    let mut k = 0usize;
    let mut put = |slot: &mut RS| {
        if k == idx {
            *slot = new.take().expect("child replaced twice");
        }
        k += 1;
    };
    match &mut out {
        RS::Struct { fields, .. } => fields.iter_mut().for_each(|f| put(&mut f.value)),
        RS::Enum { variants, .. } => variants
            .iter_mut()
            .for_each(|v| v.fields.iter_mut().for_each(|f| put(&mut f.value))),
        RS::Vector(i, _) | RS::Array(_, i) | RS::Option(i) | RS::Boxed(i) | RS::Slice(i) | RS::Reference(i) => {
            put(&mut **i)
        }
        RS::Trait(_, t) | RS::FnClosure(_, t) | RS::Future(t, _, _, _) => {
            for m in &mut t.methods {
                put(&mut m.ret);
                for a in &mut m.args {
                    put(a);
                }
            }
        }
        _ => {}
    }
    out
}

pub fn depth(s: &RS) -> usize {
    children(s).iter().map(|(_, c)| 1 + depth(c)).max().unwrap_or(0)
}
pub fn node_count(s: &RS) -> usize {
    1 + children(s).iter().map(|(_, c)| node_count(c)).sum::<usize>()
}

/// What library format version `ver` can express: 2 = everything; 1 = no receiver kind / async
/// flag of trait methods; 0 = additionally no layout annotations (model::strip_layout).
pub fn normalize(s: &RS, ver: u16) -> RS {
    match ver {
        0 => vmodel::schema::strip_layout(s),
        1 => drop_receiver(s),
        _ => s.clone(),
    }
}

fn drop_receiver(s: &RS) -> RS {
    let mut out = s.clone();
    if let RS::Trait(_, t) | RS::FnClosure(_, t) | RS::Future(t, _, _, _) = &mut out {
        for m in &mut t.methods {
            m.receiver = 0;
            m.async_heuristic = false;
        }
    }
    let kids: Vec<RS> = children(&out).iter().map(|(_, c)| drop_receiver(c)).collect();
    for (i, k) in kids.into_iter().enumerate() {
        out = with_child(&out, i, k);
    }
    out
}

/// structural features used for the evidence counters and for known-finding tags
#[derive(Default, Clone, Debug)]
pub struct Features {
    pub has_layout_annotation: bool,
    pub has_trait_def: bool,
    pub has_nondefault_receiver_or_async: bool,
    pub has_undefined: bool,
    pub has_future: bool,
    /// every Future node is reachable from the root through box/reference/slice wrappers and
    /// method-return edges only ("return position")
    pub futures_in_return_position: bool,
}

pub fn features(s: &RS) -> Features {
    let mut f = Features {
        futures_in_return_position: true,
        ..Default::default()
    };
    fn walk(s: &RS, ret_pos: bool, f: &mut Features) {
        match s {
            RS::Struct { size, align, fields, .. } => {
                if size.is_some() || align.is_some() || fields.iter().any(|x| x.offset.is_some()) {
                    f.has_layout_annotation = true;
                }
            }
            RS::Enum {
                variants,
                discr_size,
                explicit_repr,
                size,
                align,
                ..
            } => {
                if size.is_some()
                    || align.is_some()
                    || *explicit_repr
                    || *discr_size != 1
                    || variants.iter().any(|v| v.fields.iter().any(|x| x.offset.is_some()))
                {
                    f.has_layout_annotation = true;
                }
            }
            RS::PrimString(l) | RS::Vector(_, l) => {
                if *l != 0 {
                    f.has_layout_annotation = true;
                }
            }
            RS::Undefined => f.has_undefined = true,
            RS::Trait(_, t) | RS::FnClosure(_, t) | RS::Future(t, _, _, _) => {
                f.has_trait_def = true;
                if t.methods.iter().any(|m| m.receiver != 0 || m.async_heuristic) {
                    f.has_nondefault_receiver_or_async = true;
                }
                if let RS::Future(..) = s {
                    f.has_future = true;
                    if !ret_pos {
                        f.futures_in_return_position = false;
                    }
                }
            }
            _ => {}
        }
        for (e, c) in children(s) {
            let child_ret = match e {
                Edge::Wrapper => ret_pos,
                Edge::Ret => ret_pos,
                Edge::Data | Edge::Arg => false,
            };
            walk(c, child_ret, f);
        }
    }
    walk(s, true, &mut f);
    f
}

// ---------------------------------------------------------------- JSON

fn o(v: Option<u64>) -> Value {
    match v {
        None => Value::Null,
        Some(x) => json!(x),
    }
}
fn fields_json(f: &[RField]) -> Value {
    Value::Array(
        f.iter()
            .map(|f| json!({"name": f.name, "value": rs_to_json(&f.value), "offset": o(f.offset)}))
            .collect(),
    )
}
fn trait_json(t: &RTrait) -> Value {
    json!({"name": t.name, "sync": t.sync, "send": t.send, "methods": t.methods.iter().map(|m| json!({
        "name": m.name, "ret": rs_to_json(&m.ret), "receiver": m.receiver, "async": m.async_heuristic,
        "args": m.args.iter().map(rs_to_json).collect::<Vec<_>>() })).collect::<Vec<_>>()})
}

pub fn rs_to_json(s: &RS) -> Value {
    match s {
        RS::Struct { name, size, align, fields } => {
            json!({"k":"struct","name":name,"size":o(*size),"align":o(*align),"fields":fields_json(fields)})
        }
        RS::Enum {
            name,
            variants,
            discr_size,
            explicit_repr,
            size,
            align,
        } => json!({"k":"enum","name":name,"discr_size":discr_size,"explicit_repr":explicit_repr,
            "size":o(*size),"align":o(*align),
            "variants": variants.iter().map(|v| json!({"name":v.name,"discr":v.discr,"fields":fields_json(&v.fields)})).collect::<Vec<_>>()}),
        RS::Prim(c) => json!({"k":"prim","code":c}),
        RS::PrimString(l) => json!({"k":"string","layout":l}),
        RS::Vector(i, l) => json!({"k":"vector","layout":l,"item":rs_to_json(i)}),
        RS::Array(n, i) => json!({"k":"array","count":n,"item":rs_to_json(i)}),
        RS::Option(i) => json!({"k":"option","item":rs_to_json(i)}),
        RS::Undefined => json!({"k":"undefined"}),
        RS::ZeroSize => json!({"k":"zerosize"}),
        RS::Custom(c) => json!({"k":"custom","text":c}),
        RS::Boxed(i) => json!({"k":"boxed","item":rs_to_json(i)}),
        RS::Slice(i) => json!({"k":"slice","item":rs_to_json(i)}),
        RS::Str => json!({"k":"str"}),
        RS::Reference(i) => json!({"k":"reference","item":rs_to_json(i)}),
        RS::Trait(m, t) => json!({"k":"trait","mut":m,"def":trait_json(t)}),
        RS::FnClosure(m, t) => json!({"k":"fnclosure","mut":m,"def":trait_json(t)}),
        RS::Recursion(d) => json!({"k":"recursion","depth":d}),
        RS::StdIoError => json!({"k":"stdioerror"}),
        RS::Future(t, a, b, c) => json!({"k":"future","send":a,"sync":b,"unpin":c,"def":trait_json(t)}),
        RS::UninitSlice => json!({"k":"uninitslice"}),
        RS::UtcTimestamp => json!({"k":"utctimestamp"}),
    }
}

fn jo(v: &Value) -> Result<Option<u64>, String> {
    match v {
        Value::Null => Ok(None),
        x => x.as_u64().map(Some).ok_or_else(|| format!("expected number or null, got {}", x)),
    }
}
fn js(v: &Value, key: &str) -> Result<String, String> {
    v[key].as_str().map(String::from).ok_or_else(|| format!("missing string '{}' in {}", key, v))
}
fn ju(v: &Value, key: &str) -> Result<u64, String> {
    v[key].as_u64().ok_or_else(|| format!("missing number '{}' in {}", key, v))
}
fn jb(v: &Value, key: &str) -> Result<bool, String> {
    v[key].as_bool().ok_or_else(|| format!("missing bool '{}' in {}", key, v))
}
fn ja<'a>(v: &'a Value, key: &str) -> Result<&'a Vec<Value>, String> {
    v[key].as_array().ok_or_else(|| format!("missing list '{}' in {}", key, v))
}
fn fields_from(v: &Value, key: &str) -> Result<Vec<RField>, String> {
    ja(v, key)?
        .iter()
        .map(|f| {
            Ok(RField {
                name: js(f, "name")?,
                value: rs_from_json(&f["value"])?,
                offset: jo(&f["offset"])?,
            })
        })
        .collect()
}
fn trait_from(v: &Value) -> Result<RTrait, String> {
    Ok(RTrait {
        name: js(v, "name")?,
        sync: jb(v, "sync")?,
        send: jb(v, "send")?,
        methods: ja(v, "methods")?
            .iter()
            .map(|m| {
                Ok(RMethod {
                    name: js(m, "name")?,
                    ret: rs_from_json(&m["ret"])?,
                    receiver: ju(m, "receiver")? as u8,
                    async_heuristic: jb(m, "async")?,
                    args: ja(m, "args")?.iter().map(rs_from_json).collect::<Result<Vec<_>, String>>()?,
                })
            })
            .collect::<Result<Vec<_>, String>>()?,
    })
}

pub fn rs_from_json(v: &Value) -> Result<RS, String> {
    let item = || -> Result<Box<RS>, String> { Ok(Box::new(rs_from_json(&v["item"])?)) };
    Ok(match v["k"].as_str().ok_or_else(|| format!("missing kind in {}", v))? {
        "struct" => RS::Struct {
            name: js(v, "name")?,
            size: jo(&v["size"])?,
            align: jo(&v["align"])?,
            fields: fields_from(v, "fields")?,
        },
        "enum" => RS::Enum {
            name: js(v, "name")?,
            discr_size: ju(v, "discr_size")? as u8,
            explicit_repr: jb(v, "explicit_repr")?,
            size: jo(&v["size"])?,
            align: jo(&v["align"])?,
            variants: ja(v, "variants")?
                .iter()
                .map(|x| {
                    Ok(RVariant {
                        name: js(x, "name")?,
                        discr: ju(x, "discr")? as u8,
                        fields: fields_from(x, "fields")?,
                    })
                })
                .collect::<Result<Vec<_>, String>>()?,
        },
        "prim" => RS::Prim(ju(v, "code")? as u8),
        "string" => RS::PrimString(ju(v, "layout")? as u8),
        "vector" => RS::Vector(item()?, ju(v, "layout")? as u8),
        "array" => RS::Array(ju(v, "count")?, item()?),
        "option" => RS::Option(item()?),
        "undefined" => RS::Undefined,
        "zerosize" => RS::ZeroSize,
        "custom" => RS::Custom(js(v, "text")?),
        "boxed" => RS::Boxed(item()?),
        "slice" => RS::Slice(item()?),
        "str" => RS::Str,
        "reference" => RS::Reference(item()?),
        "trait" => RS::Trait(jb(v, "mut")?, trait_from(&v["def"])?),
        "fnclosure" => RS::FnClosure(jb(v, "mut")?, trait_from(&v["def"])?),
        "recursion" => RS::Recursion(ju(v, "depth")?),
        "stdioerror" => RS::StdIoError,
        "future" => RS::Future(trait_from(&v["def"])?, jb(v, "send")?, jb(v, "sync")?, jb(v, "unpin")?),
        "uninitslice" => RS::UninitSlice,
        "utctimestamp" => RS::UtcTimestamp,
        k => return Err(format!("unknown kind {}", k)),
    })
}
