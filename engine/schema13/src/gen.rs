//! Deterministic exhaustive enumerator of schema trees.
//!
//! `nodes(profile, single, multi, emit)` emits EVERY node that can be built under `profile`:
//!   * all nodes without schema children (primitives, strings, unit-like variants, custom,
//!     recursion, empty structs, enums whose variants have no fields, trait definitions without
//!     methods), with the profile's attribute tuples fully crossed;
//!   * all nodes with exactly one schema child, the child drawn from `single`;
//!   * all nodes with exactly two schema children, both drawn from `multi` (full product).
//! A family of depth d is obtained by feeding collected families of depth d-1 as `single`/`multi`.
use vmodel::schema::{RField, RMethod, RTrait, RVariant, RS, PRIM_CODES};

#[derive(Clone, Debug)]
pub struct Prof {
    pub label: &'static str,
    pub struct_attrs: Vec<(String, Option<u64>, Option<u64>)>,
    pub field_attrs: Vec<(String, Option<u64>)>,
    pub enum_attrs: Vec<(String, u8, bool, Option<u64>, Option<u64>)>,
    pub variant_attrs: Vec<(String, u8)>,
    pub trait_attrs: Vec<(String, bool, bool)>,
    pub muts: Vec<bool>,
    pub fut_flags: Vec<(bool, bool, bool)>,
    pub method_attrs: Vec<(String, u8, bool)>,
    pub vlayouts: Vec<u8>,
    pub slayouts: Vec<u8>,
    pub counts: Vec<u64>,
    pub prims: Vec<u8>,
    pub customs: Vec<String>,
    pub recursions: Vec<u64>,
    pub units: Vec<RS>,
    /// permitted enum shapes: number of fields of each variant
    pub enum_shapes: Vec<Vec<usize>>,
}

fn names() -> Vec<String> {
    vec!["".to_string(), "x".to_string()]
}
const SIZES: [Option<u64>; 2] = [None, Some(8)];
const ALIGNS: [Option<u64>; 2] = [None, Some(4)];
const OFFSETS: [Option<u64>; 2] = [None, Some(4)];
const BOOLS: [bool; 2] = [false, true];

pub fn all_units() -> Vec<RS> {
    vec![
        RS::Undefined,
        RS::ZeroSize,
        RS::Str,
        RS::StdIoError,
        RS::UninitSlice,
        RS::UtcTimestamp,
    ]
}
pub fn all_enum_shapes() -> Vec<Vec<usize>> {
    vec![
        vec![],
        vec![0],
        vec![0, 0],
        vec![1],
        vec![1, 0],
        vec![0, 1],
        vec![2],
        vec![1, 1],
        vec![2, 0],
        vec![0, 2],
    ]
}

/// every attribute alphabet fully crossed
pub fn full() -> Prof {
    let mut struct_attrs = vec![];
    for n in names() {
        for s in SIZES {
            for a in ALIGNS {
                struct_attrs.push((n.clone(), s, a));
            }
        }
    }
    let mut field_attrs = vec![];
    for n in names() {
        for o in OFFSETS {
            field_attrs.push((n.clone(), o));
        }
    }
    let mut enum_attrs = vec![];
    for n in names() {
        for d in [1u8, 2, 4] {
            for e in BOOLS {
                for s in SIZES {
                    for a in ALIGNS {
                        enum_attrs.push((n.clone(), d, e, s, a));
                    }
                }
            }
        }
    }
    let mut variant_attrs = vec![];
    for n in names() {
        for d in [0u8, 1, 255] {
            variant_attrs.push((n.clone(), d));
        }
    }
    let mut trait_attrs = vec![];
    for n in names() {
        for sy in BOOLS {
            for se in BOOLS {
                trait_attrs.push((n.clone(), sy, se));
            }
        }
    }
    let mut fut_flags = vec![];
    for a in BOOLS {
        for b in BOOLS {
            for c in BOOLS {
                fut_flags.push((a, b, c));
            }
        }
    }
    let mut method_attrs = vec![];
    for n in names() {
        for r in [0u8, 1, 2] {
            for a in BOOLS {
                method_attrs.push((n.clone(), r, a));
            }
        }
    }
    Prof {
        label: "full",
        struct_attrs,
        field_attrs,
        enum_attrs,
        variant_attrs,
        trait_attrs,
        muts: BOOLS.to_vec(),
        fut_flags,
        method_attrs,
        vlayouts: (0..=8).collect(),
        slayouts: (0..=8).collect(),
        counts: vec![0, 1, 3],
        prims: PRIM_CODES.to_vec(),
        customs: vec!["".into(), "c".into()],
        recursions: vec![0, 1],
        units: all_units(),
        enum_shapes: vec![vec![], vec![0], vec![0, 0], vec![1]],
    }
}

/// two or three representative tuples per attribute group (all-default, all-non-default, mixed);
/// all shapes; all layout codes and array counts
pub fn reduced() -> Prof {
    let x = || "x".to_string();
    let e = String::new;
    Prof {
        label: "reduced",
        struct_attrs: vec![(e(), None, None), (x(), Some(8), Some(4))],
        field_attrs: vec![(e(), None), (x(), Some(4))],
        enum_attrs: vec![
            (e(), 1, false, None, None),
            (x(), 2, true, Some(8), Some(4)),
            (x(), 4, false, None, Some(4)),
        ],
        variant_attrs: vec![(e(), 0), (x(), 1)],
        trait_attrs: vec![(e(), false, false), (x(), true, false), (x(), false, true)],
        muts: BOOLS.to_vec(),
        fut_flags: vec![(false, false, false), (true, false, true), (false, true, false)],
        method_attrs: vec![(e(), 0, false), (x(), 1, true), (x(), 2, false)],
        enum_shapes: all_enum_shapes(),
        ..full()
    }
}

/// one or two tuples per attribute group, fewer layout codes
pub fn minimal() -> Prof {
    let x = || "x".to_string();
    let e = String::new;
    Prof {
        label: "minimal",
        struct_attrs: vec![(x(), Some(8), Some(4))],
        field_attrs: vec![(x(), Some(4))],
        enum_attrs: vec![(x(), 2, true, Some(8), Some(4))],
        variant_attrs: vec![(e(), 0), (x(), 1)],
        trait_attrs: vec![(x(), true, false)],
        muts: vec![true],
        fut_flags: vec![(true, false, true)],
        method_attrs: vec![(x(), 1, true), (e(), 2, false)],
        vlayouts: vec![0, 1],
        slayouts: vec![0, 1],
        counts: vec![0, 1, 3],
        prims: vec![2, 6],
        customs: vec!["c".into()],
        recursions: vec![0],
        units: vec![RS::ZeroSize, RS::Str],
        enum_shapes: all_enum_shapes(),
    }
}

fn field_options(p: &Prof, kids: &[RS]) -> Vec<RField> {
    let mut out = vec![];
    for (n, o) in &p.field_attrs {
        for k in kids {
            out.push(RField {
                name: n.clone(),
                value: k.clone(),
                offset: *o,
            });
        }
    }
    out
}

/// all field lists of length `len` over `opts`
fn lists<T: Clone>(opts: &[T], len: usize) -> Vec<Vec<T>> {
    let mut out: Vec<Vec<T>> = vec![vec![]];
    for _ in 0..len {
        let mut next = Vec::with_capacity(out.len() * opts.len());
        for prefix in &out {
            for o in opts {
                let mut l = prefix.clone();
                l.push(o.clone());
                next.push(l);
            }
        }
        out = next;
    }
    out
}

fn trait_defs(p: &Prof, single: &[RS], multi: &[RS], f: &mut dyn FnMut(RTrait)) {
    for (tn, sync, send) in &p.trait_attrs {
        let mk = |methods: Vec<RMethod>| RTrait {
            name: tn.clone(),
            methods,
            sync: *sync,
            send: *send,
        };
        f(mk(vec![]));
        for (mn, recv, asy) in &p.method_attrs {
            let m = |ret: &RS, args: Vec<RS>| RMethod {
                name: mn.clone(),
                ret: ret.clone(),
                receiver: *recv,
                async_heuristic: *asy,
                args,
            };
            // one schema child: the return value
            for r in single {
                f(mk(vec![m(r, vec![])]));
            }
            // return value fixed to the zero-size schema, the argument ranges over `single`
            for a in single {
                f(mk(vec![m(&RS::ZeroSize, vec![a.clone()])]));
            }
            // two schema children
            for r in multi {
                for a in multi {
                    f(mk(vec![m(r, vec![a.clone()])]));
                }
            }
        }
    }
}

pub fn nodes(p: &Prof, single: &[RS], multi: &[RS], emit: &mut dyn FnMut(RS)) {
    // ---- no schema children
    for c in &p.prims {
        emit(RS::Prim(*c));
    }
    for l in &p.slayouts {
        emit(RS::PrimString(*l));
    }
    for u in &p.units {
        emit(u.clone());
    }
    for c in &p.customs {
        emit(RS::Custom(c.clone()));
    }
    for d in &p.recursions {
        emit(RS::Recursion(*d));
    }
    // ---- wrappers
    for k in single {
        for l in &p.vlayouts {
            emit(RS::Vector(Box::new(k.clone()), *l));
        }
        for n in &p.counts {
            emit(RS::Array(*n, Box::new(k.clone())));
        }
        emit(RS::Option(Box::new(k.clone())));
        emit(RS::Boxed(Box::new(k.clone())));
        emit(RS::Slice(Box::new(k.clone())));
        emit(RS::Reference(Box::new(k.clone())));
    }
    // ---- structs
    let f_single = field_options(p, single);
    let f_multi = field_options(p, multi);
    for (n, s, a) in &p.struct_attrs {
        let mk = |fields: Vec<RField>| RS::Struct {
            name: n.clone(),
            size: *s,
            align: *a,
            fields,
        };
        emit(mk(vec![]));
        for f in &f_single {
            emit(mk(vec![f.clone()]));
        }
        for l in lists(&f_multi, 2) {
            emit(mk(l));
        }
    }
    // ---- enums
    for shape in &p.enum_shapes {
        let total: usize = shape.iter().sum();
        let fopts = if total <= 1 { &f_single } else { &f_multi };
        if total > 0 && fopts.is_empty() {
            continue;
        }
        // options per variant
        let per_variant: Vec<Vec<RVariant>> = shape
            .iter()
            .map(|nf| {
                let mut v = vec![];
                for (vn, d) in &p.variant_attrs {
                    for fl in lists(fopts, *nf) {
                        v.push(RVariant {
                            name: vn.clone(),
                            discr: *d,
                            fields: fl,
                        });
                    }
                }
                v
            })
            .collect();
        let mut variant_lists: Vec<Vec<RVariant>> = vec![vec![]];
        for opts in &per_variant {
            let mut next = vec![];
            for prefix in &variant_lists {
                for o in opts {
                    let mut l = prefix.clone();
                    l.push(o.clone());
                    next.push(l);
                }
            }
            variant_lists = next;
        }
        for (n, ds, ex, s, a) in &p.enum_attrs {
            for vl in &variant_lists {
                emit(RS::Enum {
                    name: n.clone(),
                    variants: vl.clone(),
                    discr_size: *ds,
                    explicit_repr: *ex,
                    size: *s,
                    align: *a,
                });
            }
        }
    }
    // ---- trait objects, closures, futures
    trait_defs(p, single, multi, &mut |t| {
        for m in &p.muts {
            emit(RS::Trait(*m, t.clone()));
            emit(RS::FnClosure(*m, t.clone()));
        }
        for (a, b, c) in &p.fut_flags {
            emit(RS::Future(t.clone(), *a, *b, *c));
        }
    });
}

pub fn collect(p: &Prof, single: &[RS], multi: &[RS]) -> Vec<RS> {
    let mut seen = std::collections::HashSet::new();
    let mut out = vec![];
    nodes(p, single, multi, &mut |s| {
        if seen.insert(s.clone()) {
            out.push(s);
        }
    });
    out
}

pub fn describe(p: &Prof) -> String {
    format!(
        "{}: struct(name,size,align)x{} field(name,offset)x{} enum(name,discr_size,explicit_repr,size,align)x{} variant(name,discr)x{} trait(name,sync,send)x{} mut x{} future(send,sync,unpin)x{} method(name,receiver,async)x{} vector layouts {:?} string layouts {:?} array counts {:?} primitive codes {:?} custom {:?} recursion {:?} unit-like x{} enum shapes {:?}",
        p.label,
        p.struct_attrs.len(),
        p.field_attrs.len(),
        p.enum_attrs.len(),
        p.variant_attrs.len(),
        p.trait_attrs.len(),
        p.muts.len(),
        p.fut_flags.len(),
        p.method_attrs.len(),
        p.vlayouts,
        p.slayouts,
        p.counts,
        p.prims,
        p.customs,
        p.recursions,
        p.units.len(),
        p.enum_shapes
    )
}
