// Emits the revision family (one module per interface kind x revision) into OUT_DIR/revisions.rs.
// The description of the family lives in src/family.rs, which main.rs uses as well.
#[allow(dead_code)]
mod family {
    include!("src/family.rs");
}

fn main() {
    println!("cargo:rerun-if-changed=src/family.rs");
    println!("cargo:rerun-if-changed=build.rs");
    let out = std::path::PathBuf::from(std::env::var("OUT_DIR").unwrap()).join("revisions.rs");
    let text = family::emit_all();
    let unchanged = std::fs::read_to_string(&out).map(|t| t == text).unwrap_or(false);
    if !unchanged {
        std::fs::write(&out, text).expect("write revisions.rs");
    }
}
