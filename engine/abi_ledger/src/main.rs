//! vabi15: engine for C15 (stub)
fn main() {
    vcommon::machinery_error("vabi15 not implemented yet");
}
