// The revision family of C15, shared by build.rs (which emits one Rust module per revision, so
// that the REAL `#[savefile_abi_exportable]` / `#[derive(Savefile)]` macros expand it) and by
// main.rs (which derives the abstract definitions the reference ledger model works on).
//
// Pure std Rust, no dependency on savefile: whether a revision is compatible with a recorded one
// is decided here, from the construction of the revision, never by asking the library.
//
// Every revision declares `trait Iface` (the ledger keys its files by trait name) in a module of
// its own.
//
// A. EVOLUTION families (5 interface kinds). A revision is (parent revision, one edit); the base
//    revision of every interface kind:
//
//     struct Arg { a: u32 }        enum En { A, B }
//     trait Iface { fn f(&self, x: u32, s: Arg, e: En [, kind specific argument]) -> u32;
//                   fn g(&self, y: u32) -> u32; }
//
//    Interface kinds: plain methods; `#[async_trait]` async methods; methods returning
//    `Pin<Box<dyn Future<Output = T>>>`; `f` takes a closure `c: &dyn Fn(u32) -> u32`; `f` takes a
//    boxed trait object `o: Box<dyn Other>` (`trait Other { fn h(&self, x: u32) -> u32; fn h2(..) }`).
//
// B. TYPE-MATRIX families (one per SLOT, i.e. per position a type can occupy in an interface). The
//    interface is minimal (`fn g(..)` carrying the slot, plus an untouched `fn k(&self, z: u32) -> u32`);
//    revision i puts the i-th type of the slot's TYPE ALPHABET into the slot, everything at
//    interface version 0. Every revision may follow every other, so that a search of depth 2 from the
//    empty directory presents every ORDERED PAIR (recorded type, presented type) of the alphabet to
//    the ledger. Slots: method argument, method return value, closure argument / closure return
//    value, argument / return value of a method of a `Box<dyn Other>` argument, field of a struct
//    argument, payload of an enum variant of an argument, argument / return value of an
//    `#[async_trait]` method, output of a returned boxed future.
//    The alphabet is built by construction: all scalar primitives, String, `&str`, unit, a struct,
//    an enum, and every type constructor the ABI macro knows (`&T`, `Vec<T>`, `&[T]`,
//    `Option<T>`, `Box<T>`, `[T; N]`, tuples, `Result<T, E>`, maps, trait objects, closures) applied
//    to a small set of inner types.
//    The model compares WIRE FORMS (see `wire`): two Rust types are the same type for the ledger
//    exactly when savefile-abi moves them across the boundary in the same way.

#[derive(Clone, Copy, PartialEq, Eq, Hash, PartialOrd, Ord, Debug)]
pub enum Slot {
    Arg,
    Ret,
    ClosureArg,
    ClosureRet,
    NestedArg,
    NestedRet,
    Field,
    VariantField,
    AsyncArg,
    AsyncRet,
    FutureOut,
}
impl Slot {
    pub fn label(self) -> &'static str {
        match self {
            Slot::Arg => "arg",
            Slot::Ret => "ret",
            Slot::ClosureArg => "closure_arg",
            Slot::ClosureRet => "closure_ret",
            Slot::NestedArg => "nested_arg",
            Slot::NestedRet => "nested_ret",
            Slot::Field => "field",
            Slot::VariantField => "variant_field",
            Slot::AsyncArg => "async_arg",
            Slot::AsyncRet => "async_ret",
            Slot::FutureOut => "future_out",
        }
    }
}

#[derive(Clone, Copy, PartialEq, Eq, Hash, PartialOrd, Ord, Debug)]
pub enum Kind {
    Plain,
    AsyncTrait,
    BoxedFuture,
    Closure,
    BoxedTrait,
    /// type-matrix family of one slot
    Types(Slot),
}
pub const KINDS: [Kind; 16] = [
    Kind::Plain,
    Kind::AsyncTrait,
    Kind::BoxedFuture,
    Kind::Closure,
    Kind::BoxedTrait,
    Kind::Types(Slot::Arg),
    Kind::Types(Slot::Ret),
    Kind::Types(Slot::ClosureArg),
    Kind::Types(Slot::ClosureRet),
    Kind::Types(Slot::NestedArg),
    Kind::Types(Slot::NestedRet),
    Kind::Types(Slot::Field),
    Kind::Types(Slot::VariantField),
    Kind::Types(Slot::AsyncArg),
    Kind::Types(Slot::AsyncRet),
    Kind::Types(Slot::FutureOut),
];
impl Kind {
    pub fn label(self) -> &'static str {
        match self {
            Kind::Plain => "plain",
            Kind::AsyncTrait => "async_trait",
            Kind::BoxedFuture => "boxed_future",
            Kind::Closure => "closure",
            Kind::BoxedTrait => "boxed_trait",
            Kind::Types(Slot::Arg) => "types_arg",
            Kind::Types(Slot::Ret) => "types_ret",
            Kind::Types(Slot::ClosureArg) => "types_closure_arg",
            Kind::Types(Slot::ClosureRet) => "types_closure_ret",
            Kind::Types(Slot::NestedArg) => "types_nested_arg",
            Kind::Types(Slot::NestedRet) => "types_nested_ret",
            Kind::Types(Slot::Field) => "types_field",
            Kind::Types(Slot::VariantField) => "types_variant_field",
            Kind::Types(Slot::AsyncArg) => "types_async_arg",
            Kind::Types(Slot::AsyncRet) => "types_async_ret",
            Kind::Types(Slot::FutureOut) => "types_future_out",
        }
    }
    pub fn index(self) -> usize {
        KINDS.iter().position(|k| *k == self).unwrap()
    }
    pub fn from_label(s: &str) -> Option<Kind> {
        KINDS.iter().copied().find(|k| k.label() == s)
    }
    pub fn slot(self) -> Option<Slot> {
        match self {
            Kind::Types(s) => Some(s),
            _ => None,
        }
    }
    /// how the methods of `Iface` are declared
    pub fn shape(self) -> Kind {
        match self {
            Kind::Types(Slot::Arg) | Kind::Types(Slot::Ret) | Kind::Types(Slot::Field) | Kind::Types(Slot::VariantField) => Kind::Plain,
            Kind::Types(Slot::ClosureArg) | Kind::Types(Slot::ClosureRet) => Kind::Closure,
            Kind::Types(Slot::NestedArg) | Kind::Types(Slot::NestedRet) => Kind::BoxedTrait,
            Kind::Types(Slot::AsyncArg) | Kind::Types(Slot::AsyncRet) => Kind::AsyncTrait,
            Kind::Types(Slot::FutureOut) => Kind::BoxedFuture,
            k => k,
        }
    }
}

// ---------------------------------------------------------------------------------------------
// source-level types

/// A Rust type as written in the source of a revision.
#[derive(Clone, PartialEq, Eq, Hash, PartialOrd, Ord, Debug)]
pub enum Ty {
    /// scalar primitive or `String`, spelled by name
    P(&'static str),
    Unit,
    /// `&str`
    Str,
    /// `&'static str` (the only reference savefile-abi accepts in return position)
    StaticStr,
    Ref(Box<Ty>),
    Vec(Box<Ty>),
    VecDeque(Box<Ty>),
    /// `&[T]`
    Slice(Box<Ty>),
    Array(Box<Ty>, usize),
    Opt(Box<Ty>),
    Boxed(Box<Ty>),
    Tuple(Vec<Ty>),
    Result(Box<Ty>, Box<Ty>),
    HashMap(Box<Ty>, Box<Ty>),
    BTreeMap(Box<Ty>, Box<Ty>),
    /// `struct Arg` of the revision
    Arg,
    /// `enum En` of the revision
    En,
    /// `&dyn Fn(a) -> r` (`how` = ClosureRef), `&mut dyn FnMut(a) -> r`, `Box<dyn Fn(a) -> r>`
    Closure(ClosureHow, Box<Ty>, Box<Ty>),
    /// `Box<dyn Other>` (true) or `&dyn Other` (false)
    Other(bool),
    /// a fixed auxiliary type declared in the module (see `AUX`)
    Aux(&'static str),
    /// a standard-library type with a fixed serialized form (see `std_wire`)
    Std(&'static str),
}

/// Auxiliary declarations: (name, source)
pub const AUX: [(&str, &str); 2] = [
    ("Arg2", "    #[derive(Savefile)]\n    pub struct Arg2 {\n        pub a: u32,\n        pub b: u32,\n    }\n"),
    ("En3", "    #[derive(Savefile)]\n    pub enum En3 {\n        A,\n        B,\n        C,\n    }\n"),
];
/// Standard-library types: (spelling, label)
pub const STD: [(&str, &str); 5] = [
    ("std::time::Duration", "Duration"),
    ("std::ops::Range<u32>", "Range<u32>"),
    ("std::collections::BTreeSet<u32>", "BTreeSet<u32>"),
    ("std::sync::Arc<str>", "Arc<str>"),
    ("std::path::PathBuf", "PathBuf"),
];
#[derive(Clone, Copy, PartialEq, Eq, Hash, PartialOrd, Ord, Debug)]
pub enum ClosureHow {
    RefFn,
    RefMutFnMut,
    BoxFn,
}

pub fn p(name: &'static str) -> Ty {
    Ty::P(name)
}
pub fn u32t() -> Ty {
    Ty::P("u32")
}
pub fn u64t() -> Ty {
    Ty::P("u64")
}
fn bx(t: Ty) -> Box<Ty> {
    Box::new(t)
}

impl Ty {
    /// Rust source of the type
    pub fn src(&self) -> String {
        match self {
            Ty::P(n) => n.to_string(),
            Ty::Unit => "()".to_string(),
            Ty::Str => "&str".to_string(),
            Ty::StaticStr => "&'static str".to_string(),
            Ty::Ref(t) => format!("&{}", t.src()),
            Ty::Vec(t) => format!("Vec<{}>", t.src()),
            Ty::VecDeque(t) => format!("std::collections::VecDeque<{}>", t.src()),
            Ty::Slice(t) => format!("&[{}]", t.src()),
            Ty::Array(t, n) => format!("[{}; {}]", t.src(), n),
            Ty::Opt(t) => format!("Option<{}>", t.src()),
            Ty::Boxed(t) => format!("Box<{}>", t.src()),
            Ty::Tuple(ts) => format!("({})", ts.iter().map(|t| t.src()).collect::<Vec<_>>().join(", ")),
            Ty::Result(a, b) => format!("Result<{}, {}>", a.src(), b.src()),
            Ty::HashMap(k, v) => format!("std::collections::HashMap<{}, {}>", k.src(), v.src()),
            Ty::BTreeMap(k, v) => format!("std::collections::BTreeMap<{}, {}>", k.src(), v.src()),
            Ty::Arg => "Arg".to_string(),
            Ty::En => "En".to_string(),
            Ty::Closure(ClosureHow::RefFn, a, r) => format!("&dyn Fn({}) -> {}", a.src(), r.src()),
            Ty::Closure(ClosureHow::RefMutFnMut, a, r) => format!("&mut dyn FnMut({}) -> {}", a.src(), r.src()),
            Ty::Closure(ClosureHow::BoxFn, a, r) => format!("Box<dyn Fn({}) -> {}>", a.src(), r.src()),
            Ty::Other(true) => "Box<dyn Other>".to_string(),
            Ty::Other(false) => "&dyn Other".to_string(),
            Ty::Aux(n) => n.to_string(),
            Ty::Std(n) => n.to_string(),
        }
    }
    /// the spelling used in revision labels and tags (no blanks, no commas)
    pub fn label(&self) -> String {
        if let Ty::Std(n) = self {
            return STD.iter().find(|x| x.0 == *n).expect("std type").1.to_string();
        }
        self.src().replace("std::collections::", "").replace(", ", ";").replace("; ", ";").replace(' ', "_")
    }
    fn mentions(&self, what: &Ty) -> bool {
        if let (Ty::Aux(a), Ty::Aux(b)) = (self, what) {
            return a == b;
        }
        if std::mem::discriminant(self) == std::mem::discriminant(what) {
            return true;
        }
        match self {
            Ty::Ref(t) | Ty::Vec(t) | Ty::VecDeque(t) | Ty::Slice(t) | Ty::Array(t, _) | Ty::Opt(t) | Ty::Boxed(t) => t.mentions(what),
            Ty::Tuple(ts) => ts.iter().any(|t| t.mentions(what)),
            Ty::Result(a, b) | Ty::HashMap(a, b) | Ty::BTreeMap(a, b) | Ty::Closure(_, a, b) => a.mentions(what) || b.mentions(what),
            _ => false,
        }
    }
}

// ---------------------------------------------------------------------------------------------
// the type alphabets

const SCALARS: [&str; 16] = ["u8", "u16", "u64", "u128", "i8", "i16", "i32", "i64", "i128", "usize", "isize", "f32", "f64", "bool", "char", "String"];

fn dedup(v: Vec<Ty>) -> Vec<Ty> {
    let mut out: Vec<Ty> = vec![];
    for t in v {
        if !out.contains(&t) {
            out.push(t);
        }
    }
    out
}

/// The type alphabet of a slot. Element 0 is always `u32` (the base revision).
pub fn alphabet(slot: Slot) -> Vec<Ty> {
    let inner = || vec![u32t(), u64t(), p("String"), Ty::Arg];
    let closure = |how, a: Ty, r: Ty| Ty::Closure(how, bx(a), bx(r));
    // every type that owns its data (legal as argument, return value and field)
    let owned_full = || {
        let mut v = vec![u32t()];
        v.extend(SCALARS.iter().map(|n| p(n)));
        v.extend([Ty::Unit, Ty::Arg, Ty::En]);
        for t in inner() {
            v.push(Ty::Vec(bx(t.clone())));
            v.push(Ty::Opt(bx(t.clone())));
            v.push(Ty::Boxed(bx(t.clone())));
            v.push(Ty::Tuple(vec![t.clone(), u32t()]));
        }
        // (savefile-abi accepts arrays only inside other owned types)
        v.extend([
            Ty::Vec(bx(Ty::Array(bx(u32t()), 2))),
            Ty::Vec(bx(Ty::Array(bx(u32t()), 3))),
            Ty::Vec(bx(Ty::Array(bx(u64t()), 2))),
            Ty::Opt(bx(Ty::Array(bx(u32t()), 2))),
            Ty::Tuple(vec![u32t(), u32t(), u32t()]),
            Ty::VecDeque(bx(u32t())),
            Ty::Vec(bx(p("u8"))),
            Ty::Vec(bx(Ty::Tuple(vec![u32t(), u32t()]))),
            Ty::HashMap(bx(u32t()), bx(u32t())),
            Ty::BTreeMap(bx(u32t()), bx(u32t())),
            Ty::BTreeMap(bx(u32t()), bx(u64t())),
            Ty::Opt(bx(Ty::Vec(bx(u32t())))),
            Ty::Vec(bx(Ty::Opt(bx(u32t())))),
            Ty::Vec(bx(Ty::Vec(bx(u32t())))),
            Ty::Opt(bx(Ty::Opt(bx(u32t())))),
            Ty::Aux("Arg2"),
            Ty::Aux("En3"),
        ]);
        v.extend(STD.iter().map(|x| Ty::Std(x.0)));
        v
    };
    let results = || {
        vec![
            Ty::Result(bx(u32t()), bx(u32t())),
            Ty::Result(bx(u64t()), bx(u32t())),
            Ty::Result(bx(u32t()), bx(u64t())),
            Ty::Result(bx(u32t()), bx(p("String"))),
            Ty::Result(bx(p("String")), bx(u32t())),
            Ty::Result(bx(Ty::Unit), bx(u32t())),
        ]
    };
    // a cross-section of the above for the slots nested inside something else
    let owned_small = || {
        vec![
            u32t(),
            u64t(),
            p("i32"),
            p("usize"),
            p("bool"),
            p("String"),
            Ty::Unit,
            Ty::Arg,
            Ty::En,
            Ty::Vec(bx(u32t())),
            Ty::Vec(bx(u64t())),
            Ty::Opt(bx(u32t())),
            Ty::Boxed(bx(u32t())),
            Ty::Vec(bx(Ty::Array(bx(u32t()), 2))),
            Ty::Tuple(vec![u32t(), u32t()]),
        ]
    };
    let borrowed_small = || vec![Ty::Str, Ty::Ref(bx(u32t())), Ty::Ref(bx(p("String"))), Ty::Slice(bx(u32t()))];
    let v = match slot {
        Slot::Arg => {
            let mut v = owned_full();
            v.push(Ty::Str);
            for t in inner() {
                v.push(Ty::Ref(bx(t.clone())));
                v.push(Ty::Slice(bx(t.clone())));
            }
            // (`&mut T` is accepted for trait objects and closures only)
            v.extend([
                Ty::Slice(bx(p("u8"))),
                Ty::Ref(bx(Ty::Vec(bx(u32t())))),
                Ty::Ref(bx(Ty::Opt(bx(u32t())))),
                Ty::Other(true),
                Ty::Other(false),
                closure(ClosureHow::RefFn, u32t(), u32t()),
                closure(ClosureHow::RefFn, u64t(), u32t()),
                closure(ClosureHow::RefFn, u32t(), u64t()),
                closure(ClosureHow::RefFn, p("String"), u32t()),
                closure(ClosureHow::RefFn, Ty::Str, u32t()),
                closure(ClosureHow::RefMutFnMut, u32t(), u32t()),
                closure(ClosureHow::BoxFn, u32t(), u32t()),
            ]);
            v
        }
        Slot::Ret => {
            let mut v = owned_full();
            v.push(Ty::StaticStr);
            v.extend(results());
            v.extend([Ty::Other(true), closure(ClosureHow::BoxFn, u32t(), u32t()), closure(ClosureHow::BoxFn, u64t(), u32t())]);
            v
        }
        Slot::ClosureArg | Slot::NestedArg => {
            let mut v = owned_small();
            v.extend(borrowed_small());
            v
        }
        Slot::AsyncArg => owned_small(),
        Slot::ClosureRet | Slot::NestedRet | Slot::AsyncRet | Slot::FutureOut => {
            let mut v = owned_small();
            if slot != Slot::FutureOut && slot != Slot::AsyncRet {
                v.push(Ty::StaticStr);
            }
            v.extend([Ty::Result(bx(u32t()), bx(u32t())), Ty::Result(bx(u32t()), bx(p("String")))]);
            v
        }
        Slot::Field => {
            let mut v: Vec<Ty> = owned_small().into_iter().filter(|t| *t != Ty::Arg).collect();
            v.extend([p("u8"), p("i64"), Ty::VecDeque(bx(u32t())), Ty::Opt(bx(u64t())), Ty::Array(bx(u32t()), 2), Ty::Array(bx(u32t()), 3), Ty::Array(bx(u64t()), 2), Ty::Tuple(vec![u32t(), u64t()])]);
            v
        }
        Slot::VariantField => {
            let mut v: Vec<Ty> = owned_small().into_iter().filter(|t| *t != Ty::En).collect();
            v.extend([p("u8"), p("i64"), Ty::VecDeque(bx(u32t())), Ty::Opt(bx(u64t())), Ty::Array(bx(u32t()), 2), Ty::Array(bx(u32t()), 3), Ty::Array(bx(u64t()), 2), Ty::Tuple(vec![u32t(), u64t()])]);
            v
        }
    };
    let v = dedup(v);
    assert!(v[0] == u32t());
    v
}

/// Pairs of spellings that savefile-abi moves across the boundary identically (declared by hand,
/// independently of `wire`; the engine checks at start-up that `wire` induces exactly the
/// equivalence generated by these pairs on every alphabet). Reasons:
/// * `Box<T>` of an owned serializable T is declared by savefile to have the schema and the
///   serialized form of T, and owned values always travel serialized;
/// * usize / isize are serialized as (and given the schema of) u64 / i64 on 64-bit targets;
/// * all sequence containers serialize as length + elements; a map is the sequence of its
///   (key, value) pairs.
pub const DECLARED_SAME_WIRE: [(&str, &str); 14] = [
    // fields are serialized in order, without names
    ("Arg2", "(u32;u32)"),
    ("Range<u32>", "(u32;u32)"),
    ("BTreeSet<u32>", "Vec<u32>"),
    // every owned string type is length + utf-8 bytes
    ("Arc<str>", "String"),
    ("PathBuf", "String"),
    ("Box<u32>", "u32"),
    ("Box<u64>", "u64"),
    ("Box<String>", "String"),
    ("Box<Arg>", "Arg"),
    ("usize", "u64"),
    ("isize", "i64"),
    ("VecDeque<u32>", "Vec<u32>"),
    ("HashMap<u32;u32>", "Vec<(u32;u32)>"),
    ("BTreeMap<u32;u32>", "Vec<(u32;u32)>"),
];

// ---------------------------------------------------------------------------------------------
// specs

#[derive(Clone, PartialEq, Eq, Debug)]
pub struct Method {
    pub name: String,
    pub args: Vec<(String, Ty)>,
    /// logical result type; the interface kind decides how it is wrapped (async fn / boxed future)
    pub ret: Ty,
}

/// Concrete source-level description of one revision.
#[derive(Clone, PartialEq, Eq, Debug)]
pub struct Spec {
    pub version: u32,
    pub methods: Vec<Method>,
    /// fields of `struct Arg`: (name, type, first version that has it)
    pub arg_fields: Vec<(String, Ty, u32)>,
    /// variants of `enum En`: (name, first version that has it, payload)
    pub en_variants: Vec<(String, u32, Option<Ty>)>,
    /// methods of `trait Other`
    pub other: Vec<Method>,
}
impl Spec {
    fn all_types(&self) -> Vec<&Ty> {
        let mut v = vec![];
        for m in self.methods.iter().chain(self.other.iter()) {
            v.push(&m.ret);
            v.extend(m.args.iter().map(|a| &a.1));
        }
        v
    }
    fn uses_aux(&self, name: &'static str) -> bool {
        self.all_types().iter().any(|t| t.mentions(&Ty::Aux(name)))
    }
    fn uses_other(&self) -> bool {
        self.all_types().iter().any(|t| t.mentions(&Ty::Other(true)))
    }
    fn uses_en(&self) -> bool {
        self.all_types().iter().any(|t| t.mentions(&Ty::En)) || self.arg_fields.iter().any(|f| f.1.mentions(&Ty::En))
    }
    fn uses_arg(&self) -> bool {
        self.all_types().iter().any(|t| t.mentions(&Ty::Arg)) || self.en_variants.iter().any(|v| v.2.as_ref().map(|t| t.mentions(&Ty::Arg)).unwrap_or(false))
    }
}

#[derive(Clone, Copy, PartialEq, Eq, Debug)]
pub enum Edit {
    /// identical definition, compiled a second time in another module
    Same,
    AddMethod,
    /// new method declared in front of the existing ones
    AddMethodFront,
    /// `#[savefile_versions = "1.."] b: u32` in Arg, interface version 1
    AddVField,
    /// `#[savefile_versions = "1.."] C` in En, interface version 1
    AddVariant,
    RemoveMethod,
    ArgCount,
    ArgType,
    RetType,
    /// Arg.a: u32 -> u64 with no versioning
    FieldType,
    /// version number + 1, nothing else
    Bump,
    /// `#[savefile_versions = "1.."] b: u64` in Arg, interface version 1 (an alternative version 1)
    AddVFieldWide,
    /// `#[savefile_versions = "2.."] c: u32` in Arg, interface version 2
    AddVField2,
    /// `#[savefile_versions = "2.."] D` in En, interface version 2 (an alternative version 2)
    AddVariant2,
    /// the versioned field `b` of Arg is dropped again, the version number stays
    DropVField,
    ClosureArgType,
    ClosureRetType,
    OtherArgType,
    OtherRetType,
    OtherAddMethod,
    OtherRemoveMethod,
    /// type-matrix families: the slot holds the i-th type of the slot's alphabet
    SetType(usize),
}

/// What the property text says about the edit, relative to the parent revision (used only to
/// cross-check the structural model at start-up).
#[derive(Clone, Copy, PartialEq, Eq, Debug)]
pub enum Class {
    Compatible,
    Breaking,
}
impl Edit {
    /// `None` for the type-matrix edit, whose class is checked pairwise against
    /// `DECLARED_SAME_WIRE` instead
    pub fn class(self) -> Option<Class> {
        use Edit::*;
        match self {
            Same | AddMethod | AddMethodFront | AddVField | AddVariant | Bump | AddVFieldWide | AddVField2 | AddVariant2 | OtherAddMethod => Some(Class::Compatible),
            RemoveMethod | ArgCount | ArgType | RetType | FieldType | DropVField | ClosureArgType | ClosureRetType | OtherArgType | OtherRetType | OtherRemoveMethod => {
                Some(Class::Breaking)
            }
            SetType(_) => None,
        }
    }
}

#[derive(Clone, Debug)]
pub struct Revision {
    pub label: String,
    pub parent: Option<usize>,
    pub edit: Edit,
    /// presented only in the thorough tier (the module is always generated)
    pub thorough_only: bool,
}

pub fn revisions(kind: Kind) -> Vec<Revision> {
    if let Kind::Types(slot) = kind {
        return alphabet(slot)
            .iter()
            .enumerate()
            .map(|(i, t)| Revision { label: format!("{}={}", slot.label(), t.label()), parent: if i == 0 { None } else { Some(0) }, edit: Edit::SetType(i), thorough_only: false })
            .collect();
    }
    let r = |label: &str, parent, edit| Revision { label: label.to_string(), parent: Some(parent), edit, thorough_only: false };
    let t = |label: &str, parent, edit| Revision { label: label.to_string(), parent: Some(parent), edit, thorough_only: true };
    let mut v = vec![
        Revision { label: "base".to_string(), parent: None, edit: Edit::Same, thorough_only: false },
        r("same", 0, Edit::Same),
        r("add_method", 0, Edit::AddMethod),
        r("add_method_front", 0, Edit::AddMethodFront),
        r("add_vfield", 0, Edit::AddVField),
        r("add_variant", 0, Edit::AddVariant),
        r("remove_method", 0, Edit::RemoveMethod),
        r("arg_count", 0, Edit::ArgCount),
        r("arg_type", 0, Edit::ArgType),
        r("ret_type", 0, Edit::RetType),
        r("field_type", 0, Edit::FieldType),
        r("bump", 0, Edit::Bump),
        r("add_vfield_wide", 0, Edit::AddVFieldWide),
        r("vfield_then_method", 4, Edit::AddMethod),
        r("vfield_then_vfield2", 4, Edit::AddVField2),
        r("vfield_then_remove", 4, Edit::RemoveMethod),
        r("vfield_then_variant2", 4, Edit::AddVariant2),
        r("bump_then_bump", 11, Edit::Bump),
        t("vfield_then_drop_field", 4, Edit::DropVField),
        t("variant_then_method", 5, Edit::AddMethod),
        t("variant_then_vfield2", 5, Edit::AddVField2),
        t("vfield2_then_arg_type", 14, Edit::ArgType),
    ];
    match kind {
        Kind::Closure => {
            v.push(r("closure_arg_type", 0, Edit::ClosureArgType));
            v.push(r("closure_ret_type", 0, Edit::ClosureRetType));
        }
        Kind::BoxedTrait => {
            v.push(r("other_arg_type", 0, Edit::OtherArgType));
            v.push(r("other_ret_type", 0, Edit::OtherRetType));
            v.push(r("other_add_method", 0, Edit::OtherAddMethod));
            v.push(r("other_remove_method", 0, Edit::OtherRemoveMethod));
        }
        _ => {}
    }
    v
}

fn m(name: &str, args: &[(&str, Ty)], ret: Ty) -> Method {
    Method { name: name.to_string(), args: args.iter().map(|(n, t)| (n.to_string(), t.clone())).collect(), ret }
}

/// The interface of a type-matrix family with `t` in the slot.
fn types_spec(slot: Slot, t: &Ty) -> Spec {
    let t = t.clone();
    let closure = |a: Ty, r: Ty| Ty::Closure(ClosureHow::RefFn, bx(a), bx(r));
    let mut s = Spec {
        version: 0,
        methods: vec![],
        arg_fields: vec![("a".to_string(), u32t(), 0)],
        en_variants: vec![("A".to_string(), 0, None), ("B".to_string(), 0, None)],
        other: vec![],
    };
    let g = match slot {
        Slot::Arg | Slot::AsyncArg => m("g", &[("y", t)], u32t()),
        Slot::Ret | Slot::AsyncRet | Slot::FutureOut => m("g", &[("y", u32t())], t),
        Slot::ClosureArg => m("g", &[("c", closure(t, u32t()))], u32t()),
        Slot::ClosureRet => m("g", &[("c", closure(u32t(), t))], u32t()),
        Slot::NestedArg => {
            s.other = vec![m("h", &[("x", t)], u32t())];
            m("g", &[("o", Ty::Other(true))], u32t())
        }
        Slot::NestedRet => {
            s.other = vec![m("h", &[("x", u32t())], t)];
            m("g", &[("o", Ty::Other(true))], u32t())
        }
        Slot::Field => {
            s.arg_fields = vec![("a".to_string(), t, 0)];
            m("g", &[("s", Ty::Arg)], u32t())
        }
        Slot::VariantField => {
            s.en_variants = vec![("A".to_string(), 0, Some(t)), ("B".to_string(), 0, None)];
            m("g", &[("e", Ty::En)], u32t())
        }
    };
    s.methods = vec![g, m("k", &[("z", u32t())], u32t())];
    if s.other.is_empty() && s.uses_other() {
        s.other = vec![m("h", &[("x", u32t())], u32t())];
    }
    s
}

pub fn base_spec(kind: Kind) -> Spec {
    if let Kind::Types(slot) = kind {
        return types_spec(slot, &alphabet(slot)[0]);
    }
    let mut f_args = vec![("x", u32t()), ("s", Ty::Arg), ("e", Ty::En)];
    match kind {
        Kind::Closure => f_args.push(("c", Ty::Closure(ClosureHow::RefFn, bx(u32t()), bx(u32t())))),
        Kind::BoxedTrait => f_args.push(("o", Ty::Other(true))),
        _ => {}
    }
    Spec {
        version: 0,
        methods: vec![m("f", &f_args, u32t()), m("g", &[("y", u32t())], u32t())],
        arg_fields: vec![("a".to_string(), u32t(), 0)],
        en_variants: vec![("A".to_string(), 0, None), ("B".to_string(), 0, None)],
        other: if kind == Kind::BoxedTrait { vec![m("h", &[("x", u32t())], u32t()), m("h2", &[("x", u32t())], u32t())] } else { vec![] },
    }
}

fn apply(kind: Kind, edit: Edit, s: &mut Spec) {
    let g = |s: &mut Spec| s.methods.iter().position(|x| x.name == "g").expect("method g");
    match edit {
        Edit::Same => {}
        Edit::AddMethod => s.methods.push(m("added", &[("z", u32t())], u32t())),
        Edit::AddMethodFront => s.methods.insert(0, m("added", &[("z", u32t())], u32t())),
        Edit::AddVField => {
            s.arg_fields.push(("b".to_string(), u32t(), 1));
            s.version = s.version.max(1);
        }
        Edit::AddVFieldWide => {
            s.arg_fields.push(("b".to_string(), u64t(), 1));
            s.version = s.version.max(1);
        }
        Edit::AddVField2 => {
            s.arg_fields.push(("c".to_string(), u32t(), 2));
            s.version = s.version.max(2);
        }
        Edit::DropVField => s.arg_fields.retain(|f| f.0 != "b"),
        Edit::AddVariant2 => {
            s.en_variants.push(("D".to_string(), 2, None));
            s.version = s.version.max(2);
        }
        Edit::AddVariant => {
            s.en_variants.push(("C".to_string(), 1, None));
            s.version = s.version.max(1);
        }
        Edit::RemoveMethod => {
            let i = g(s);
            s.methods.remove(i);
        }
        Edit::ArgCount => {
            let i = g(s);
            s.methods[i].args.push(("y2".to_string(), u32t()));
        }
        Edit::ArgType => {
            let i = g(s);
            s.methods[i].args[0].1 = u64t();
        }
        Edit::RetType => {
            let i = g(s);
            s.methods[i].ret = u64t();
        }
        Edit::FieldType => s.arg_fields[0].1 = u64t(),
        Edit::Bump => s.version += 1,
        Edit::ClosureArgType | Edit::ClosureRetType => {
            for (_, t) in s.methods[0].args.iter_mut() {
                if let Ty::Closure(_, a, r) = t {
                    if edit == Edit::ClosureArgType {
                        *a = bx(u64t())
                    } else {
                        *r = bx(u64t())
                    }
                }
            }
        }
        Edit::OtherArgType => s.other[0].args[0].1 = u64t(),
        Edit::OtherRetType => s.other[0].ret = u64t(),
        Edit::OtherAddMethod => s.other.push(m("h3", &[("x", u32t())], u32t())),
        Edit::OtherRemoveMethod => {
            s.other.pop();
        }
        Edit::SetType(i) => {
            let slot = kind.slot().expect("SetType only in type-matrix families");
            *s = types_spec(slot, &alphabet(slot)[i]);
        }
    }
}

pub fn spec(kind: Kind, revs: &[Revision], idx: usize) -> Spec {
    match revs[idx].parent {
        None => base_spec(kind),
        Some(p) => {
            let mut s = spec(kind, revs, p);
            apply(kind, revs[idx].edit, &mut s);
            s
        }
    }
}

// ---------------------------------------------------------------------------------------------
// abstract definitions (what one ledger entry records), and the compatibility relation

/// WIRE FORM of a type: how savefile-abi moves a value of the type across the boundary.
/// Owned serializable values travel serialized, so their wire form is the grammar of the
/// serialized form; borrowed values, trait objects and closures have calling conventions of their
/// own and are therefore never the same as an owned type.
#[derive(Clone, PartialEq, Eq, Hash, PartialOrd, Ord, Debug)]
pub enum AType {
    /// fixed-size scalar, by canonical name (usize = u64, isize = i64: 64-bit targets)
    Scalar(&'static str),
    /// owned string: length + utf-8 bytes
    OwnedString,
    /// `&str`: raw pointer + length into the memory of the caller
    RawStr,
    Unit,
    Ref(Box<AType>),
    /// length + elements (Vec, VecDeque, maps as sequences of pairs)
    Seq(Box<AType>),
    /// `&[T]`
    Slice(Box<AType>),
    Array(usize, Box<AType>),
    Opt(Box<AType>),
    /// fields in order (field names and the struct name are not part of the serialized form)
    Struct(Vec<AType>),
    /// variants in order with their payloads
    Enum(Vec<(String, Vec<AType>)>),
    /// (takes &mut self, arguments, result)
    Closure(bool, Vec<AType>, Box<AType>),
    Trait(ADef),
    /// owning pointer to a trait object / closure
    BoxedDyn(Box<AType>),
    Future(Box<AType>),
}
#[derive(Clone, PartialEq, Eq, Hash, PartialOrd, Ord, Debug)]
pub struct AMethod {
    pub name: String,
    pub is_async: bool,
    pub args: Vec<AType>,
    pub ret: AType,
}
#[derive(Clone, PartialEq, Eq, Hash, PartialOrd, Ord, Debug)]
pub struct ADef {
    pub methods: Vec<AMethod>,
}

/// The wire form of `t` in the revision `s` as seen at `version`.
pub fn wire(s: &Spec, t: &Ty, version: u32) -> AType {
    let w = |t: &Ty| Box::new(wire(s, t, version));
    match t {
        Ty::P("usize") => AType::Scalar("u64"),
        Ty::P("isize") => AType::Scalar("i64"),
        Ty::P("String") => AType::OwnedString,
        Ty::P(n) => AType::Scalar(n),
        Ty::Unit => AType::Unit,
        Ty::Str | Ty::StaticStr => AType::RawStr,
        Ty::Ref(t) => AType::Ref(w(t)),
        Ty::Vec(t) | Ty::VecDeque(t) => AType::Seq(w(t)),
        Ty::Slice(t) => AType::Slice(w(t)),
        Ty::Array(t, n) => AType::Array(*n, w(t)),
        Ty::Opt(t) => AType::Opt(w(t)),
        // Box<T> of an owned serializable T: schema and serialized form of T
        Ty::Boxed(t) => *w(t),
        Ty::Tuple(ts) => AType::Struct(ts.iter().map(|t| wire(s, t, version)).collect()),
        Ty::Result(a, b) => AType::Enum(vec![("Ok".to_string(), vec![*w(a)]), ("Err".to_string(), vec![*w(b)])]),
        Ty::HashMap(k, v) | Ty::BTreeMap(k, v) => AType::Seq(Box::new(AType::Struct(vec![*w(k), *w(v)]))),
        Ty::Arg => AType::Struct(s.arg_fields.iter().filter(|f| f.2 <= version).map(|f| wire(s, &f.1, version)).collect()),
        Ty::Aux("Arg2") => AType::Struct(vec![AType::Scalar("u32"), AType::Scalar("u32")]),
        Ty::Aux("En3") => AType::Enum(vec![("A".to_string(), vec![]), ("B".to_string(), vec![]), ("C".to_string(), vec![])]),
        Ty::Aux(n) => panic!("no such auxiliary type {}", n),
        Ty::Std("std::time::Duration") => AType::Struct(vec![AType::Scalar("u128")]),
        Ty::Std("std::ops::Range<u32>") => AType::Struct(vec![AType::Scalar("u32"), AType::Scalar("u32")]),
        Ty::Std("std::collections::BTreeSet<u32>") => AType::Seq(Box::new(AType::Scalar("u32"))),
        Ty::Std("std::sync::Arc<str>") | Ty::Std("std::path::PathBuf") => AType::OwnedString,
        Ty::Std(n) => panic!("no such standard type {}", n),
        Ty::En => AType::Enum(s.en_variants.iter().filter(|v| v.1 <= version).map(|v| (v.0.clone(), v.2.iter().map(|t| wire(s, t, version)).collect())).collect()),
        Ty::Closure(how, a, r) => {
            let c = AType::Closure(*how == ClosureHow::RefMutFnMut, vec![*w(a)], w(r));
            if *how == ClosureHow::BoxFn {
                AType::BoxedDyn(Box::new(c))
            } else {
                c
            }
        }
        Ty::Other(boxed) => {
            let d = AType::Trait(ADef { methods: s.other.iter().map(|m| amethod(Kind::Plain, s, m, version)).collect() });
            if *boxed {
                AType::BoxedDyn(Box::new(d))
            } else {
                AType::Ref(Box::new(d))
            }
        }
    }
}
fn amethod(kind: Kind, s: &Spec, m: &Method, version: u32) -> AMethod {
    let ret = wire(s, &m.ret, version);
    AMethod {
        name: m.name.clone(),
        is_async: kind.shape() == Kind::AsyncTrait,
        args: m.args.iter().map(|(_, t)| wire(s, t, version)).collect(),
        ret: if kind.shape() == Kind::BoxedFuture { AType::Future(Box::new(ret)) } else { ret },
    }
}
/// The definition of the interface of `s` as seen at `version` (fields / variants introduced
/// later do not exist there).
pub fn adef(kind: Kind, s: &Spec, version: u32) -> ADef {
    ADef { methods: s.methods.iter().map(|m| amethod(kind, s, m, version)).collect() }
}

fn add(r: String, out: &mut Vec<String>) {
    if !out.contains(&r) {
        out.push(r)
    }
}

/// Why a value position of type `new` does not accept what was recorded as `old`. `what` names
/// the position (`arg_type` / `ret_type`).
fn type_incompat(new: &AType, old: &AType, prefix: &str, what: &str, out: &mut Vec<String>) {
    match (new, old) {
        (AType::Trait(nd), AType::Trait(od)) => incompat(nd, od, &format!("{}nested_", prefix), out),
        (AType::BoxedDyn(n), AType::BoxedDyn(o)) => type_incompat(n, o, prefix, what, out),
        (AType::Ref(n), AType::Ref(o)) if matches!((&**n, &**o), (AType::Trait(_), AType::Trait(_))) => type_incompat(n, o, prefix, what, out),
        (AType::Closure(nm, na, nr), AType::Closure(om, oa, or)) => {
            if nm != om {
                add(format!("{}closure_mutability", prefix), out);
            }
            if na != oa {
                add(format!("{}closure_arg_type", prefix), out);
            }
            if nr != or {
                add(format!("{}closure_ret_type", prefix), out);
            }
        }
        (AType::Struct(a), AType::Struct(b)) if a != b => add(format!("{}{}_struct", prefix, what), out),
        (AType::Enum(a), AType::Enum(b)) if a != b => add(format!("{}{}_enum", prefix, what), out),
        (a, b) if a != b => add(format!("{}{}", prefix, what), out),
        _ => {}
    }
}

/// Why `new` is NOT backward compatible with the recorded `old` (empty = compatible).
/// Rules, from the property text: every recorded method must still exist (removed method =
/// breaking), with the same number of arguments, the same argument types and the same return
/// type; methods that only exist in `new` are fine. A trait-object argument is compatible when
/// its own definition is compatible by the same rules (reasons prefixed `nested_`); a closure
/// argument must have the same signature.
pub fn incompat(new: &ADef, old: &ADef, prefix: &str, out: &mut Vec<String>) {
    for om in &old.methods {
        let Some(nm) = new.methods.iter().find(|x| x.name == om.name) else {
            add(format!("{}removed_method", prefix), out);
            continue;
        };
        if nm.is_async != om.is_async {
            add(format!("{}ret_type", prefix), out);
        }
        if nm.args.len() != om.args.len() {
            add(format!("{}arg_count", prefix), out);
        } else {
            for (na, oa) in nm.args.iter().zip(om.args.iter()) {
                type_incompat(na, oa, prefix, "arg_type", out);
            }
        }
        match (&nm.ret, &om.ret) {
            // a returned trait object / closure: compared like an argument of that kind
            (AType::BoxedDyn(_), AType::BoxedDyn(_)) => type_incompat(&nm.ret, &om.ret, prefix, "ret_type", out),
            (a, b) if a != b => add(format!("{}ret_type", prefix), out),
            _ => {}
        }
    }
}

// ---------------------------------------------------------------------------------------------
// source emission (used by build.rs)

#[allow(dead_code)]
fn emit_methods(kind: Kind, methods: &[Method], out: &mut String) {
    for me in methods {
        let mut args = String::from("&self");
        for (n, t) in &me.args {
            args.push_str(&format!(", {}: {}", n, t.src()));
        }
        match kind.shape() {
            Kind::AsyncTrait => out.push_str(&format!("        async fn {}({}) -> {};\n", me.name, args, me.ret.src())),
            Kind::BoxedFuture => out.push_str(&format!("        fn {}({}) -> Pin<Box<dyn Future<Output = {}>>>;\n", me.name, args, me.ret.src())),
            _ => out.push_str(&format!("        fn {}({}) -> {};\n", me.name, args, me.ret.src())),
        }
    }
}

#[allow(dead_code)]
pub fn module_name(kind: Kind, rev: usize) -> String {
    format!("k{}_r{}", kind.index(), rev)
}

/// Rust source of the module holding revision `rev` of interface kind `kind`.
#[allow(dead_code)]
pub fn emit_module(kind: Kind, rev: usize, label: &str, s: &Spec) -> String {
    let mut o = String::new();
    o.push_str(&format!("/// kind {} revision {} ({})\n", kind.label(), rev, label));
    o.push_str(&format!("pub mod {} {{\n", module_name(kind, rev)));
    o.push_str("    #![allow(dead_code, unused_imports)]\n");
    o.push_str("    use savefile::prelude::*;\n    use savefile_derive::Savefile;\n    use savefile_derive::savefile_abi_exportable;\n");
    o.push_str("    use std::future::Future;\n    use std::pin::Pin;\n    use async_trait::async_trait;\n");
    // the evolution families always declare Arg and En; the type-matrix families only what they use
    let evolution = kind.slot().is_none();
    let uses_en = evolution || s.uses_en();
    let uses_arg = evolution || s.uses_arg();
    // (En may be a field of Arg and Arg may be the payload of a variant of En, never both)
    let emit_arg = |o: &mut String| {
        o.push_str("    #[derive(Savefile)]\n    pub struct Arg {\n");
        for (n, t, from) in &s.arg_fields {
            if *from > 0 {
                o.push_str(&format!("        #[savefile_versions = \"{}..\"]\n", from));
            }
            o.push_str(&format!("        pub {}: {},\n", n, t.src()));
        }
        o.push_str("    }\n");
    };
    if uses_arg {
        emit_arg(&mut o);
    }
    if uses_en {
        o.push_str("    #[derive(Savefile)]\n    pub enum En {\n");
        for (n, from, payload) in &s.en_variants {
            if *from > 0 {
                o.push_str(&format!("        #[savefile_versions = \"{}..\"]\n", from));
            }
            match payload {
                Some(t) => o.push_str(&format!("        {}({}),\n", n, t.src())),
                None => o.push_str(&format!("        {},\n", n)),
            }
        }
        o.push_str("    }\n");
    }
    for (name, decl) in AUX {
        if s.uses_aux(name) {
            o.push_str(decl);
        }
    }
    if !s.other.is_empty() {
        o.push_str(&format!("    #[savefile_abi_exportable(version = {})]\n    pub trait Other {{\n", s.version));
        emit_methods(Kind::Plain, &s.other, &mut o);
        o.push_str("    }\n");
    }
    if kind.shape() == Kind::AsyncTrait {
        o.push_str("    #[async_trait]\n");
    }
    o.push_str(&format!("    #[savefile_abi_exportable(version = {})]\n    pub trait Iface {{\n", s.version));
    emit_methods(kind, &s.methods, &mut o);
    o.push_str("    }\n}\n\n");
    o
}

/// The whole generated file: all modules plus the dispatch functions.
#[allow(dead_code)]
pub fn emit_all() -> String {
    let mut o = String::from("// generated by build.rs from src/family.rs - do not edit\n\n");
    let mut run = String::new();
    let mut def = String::new();
    let mut latest = String::new();
    for kind in KINDS {
        let revs = revisions(kind);
        for (i, r) in revs.iter().enumerate() {
            let s = spec(kind, &revs, i);
            o.push_str(&emit_module(kind, i, &r.label, &s));
            let md = module_name(kind, i);
            run.push_str(&format!("        ({}, {}) => savefile_abi::verify_compatiblity::<dyn {}::Iface>(dir),\n", kind.index(), i, md));
            def.push_str(&format!(
                "        ({}, {}) => <dyn {}::Iface as savefile_abi::AbiExportable>::get_definition(version),\n",
                kind.index(),
                i,
                md
            ));
            latest.push_str(&format!(
                "        ({}, {}) => <dyn {}::Iface as savefile_abi::AbiExportable>::get_latest_version(),\n",
                kind.index(),
                i,
                md
            ));
        }
    }
    o.push_str("/// one ledger run of the real code for revision (kind, rev) on directory `dir`\n");
    o.push_str("pub fn run(kind: usize, rev: usize, dir: &str) -> Result<(), savefile::SavefileError> {\n    match (kind, rev) {\n");
    o.push_str(&run);
    o.push_str("        _ => panic!(\"vabi15: no such revision\"),\n    }\n}\n");
    o.push_str("pub fn definition(kind: usize, rev: usize, version: u32) -> savefile::AbiTraitDefinition {\n    match (kind, rev) {\n");
    o.push_str(&def);
    o.push_str("        _ => panic!(\"vabi15: no such revision\"),\n    }\n}\n");
    o.push_str("pub fn latest_version(kind: usize, rev: usize) -> u32 {\n    match (kind, rev) {\n");
    o.push_str(&latest);
    o.push_str("        _ => panic!(\"vabi15: no such revision\"),\n    }\n}\n");
    o
}
