// The revision family of C15, shared by build.rs (which emits one Rust module per revision, so
// that the REAL `#[savefile_abi_exportable]` / `#[derive(Savefile)]` macros expand it) and by
// main.rs (which derives the abstract definitions the reference ledger model works on).
//
// Pure std Rust, no dependency on savefile: whether a revision is compatible with a recorded one
// is decided here, from the construction of the revision, never by asking the library.
//
// Every revision declares `trait Iface` (the ledger keys its files by trait name) in a module of
// its own. A revision is (parent revision, one edit); the base revision of every interface kind:
//
//     struct Arg { a: u32 }        enum En { A, B }
//     trait Iface { fn f(&self, x: u32, s: Arg, e: En [, kind specific argument]) -> u32;
//                   fn g(&self, y: u32) -> u32; }
//
// Interface kinds: plain methods; `#[async_trait]` async methods; methods returning
// `Pin<Box<dyn Future<Output = T>>>`; `f` takes a closure `c: &dyn Fn(u32) -> u32`; `f` takes a
// boxed trait object `o: Box<dyn Other>` (`trait Other { fn h(&self, x: u32) -> u32; fn h2(..) }`).

#[derive(Clone, Copy, PartialEq, Eq, Hash, PartialOrd, Ord, Debug)]
pub enum Kind {
    Plain,
    AsyncTrait,
    BoxedFuture,
    Closure,
    BoxedTrait,
}
pub const KINDS: [Kind; 5] = [Kind::Plain, Kind::AsyncTrait, Kind::BoxedFuture, Kind::Closure, Kind::BoxedTrait];
impl Kind {
    pub fn label(self) -> &'static str {
        match self {
            Kind::Plain => "plain",
            Kind::AsyncTrait => "async_trait",
            Kind::BoxedFuture => "boxed_future",
            Kind::Closure => "closure",
            Kind::BoxedTrait => "boxed_trait",
        }
    }
    pub fn index(self) -> usize {
        KINDS.iter().position(|k| *k == self).unwrap()
    }
    pub fn from_label(s: &str) -> Option<Kind> {
        KINDS.iter().copied().find(|k| k.label() == s)
    }
}

#[derive(Clone, Copy, PartialEq, Eq, Hash, PartialOrd, Ord, Debug)]
pub enum Prim {
    U32,
    U64,
}
impl Prim {
    fn src(self) -> &'static str {
        match self {
            Prim::U32 => "u32",
            Prim::U64 => "u64",
        }
    }
}

#[derive(Clone, PartialEq, Eq, Debug)]
pub enum ArgTy {
    Prim(Prim),
    Arg,
    En,
    /// `&dyn Fn(a) -> r`
    Closure(Prim, Prim),
    /// `Box<dyn Other>`
    Other,
}

#[derive(Clone, PartialEq, Eq, Debug)]
pub struct Method {
    pub name: String,
    pub args: Vec<(String, ArgTy)>,
    /// logical result type; the interface kind decides how it is wrapped (async fn / boxed future)
    pub ret: Prim,
}

/// Concrete source-level description of one revision.
#[derive(Clone, PartialEq, Eq, Debug)]
pub struct Spec {
    pub version: u32,
    pub methods: Vec<Method>,
    /// fields of `struct Arg`: (name, type, first version that has it)
    pub arg_fields: Vec<(String, Prim, u32)>,
    /// variants of `enum En`: (name, first version that has it)
    pub en_variants: Vec<(String, u32)>,
    /// methods of `trait Other` (boxed-trait kind only)
    pub other: Vec<Method>,
}

#[derive(Clone, Copy, PartialEq, Eq, Debug)]
pub enum Edit {
    /// identical definition, compiled a second time in another module
    Same,
    AddMethod,
    /// new method declared in front of the existing ones
    AddMethodFront,
    /// `#[savefile_versions = "1.."] b: u32` in Arg, interface version 1
    AddVField,
    /// `#[savefile_versions = "1.."] C` in En, interface version 1
    AddVariant,
    RemoveMethod,
    ArgCount,
    ArgType,
    RetType,
    /// Arg.a: u32 -> u64 with no versioning
    FieldType,
    /// version number + 1, nothing else
    Bump,
    /// `#[savefile_versions = "1.."] b: u64` in Arg, interface version 1 (an alternative version 1)
    AddVFieldWide,
    /// `#[savefile_versions = "2.."] c: u32` in Arg, interface version 2
    AddVField2,
    /// `#[savefile_versions = "2.."] D` in En, interface version 2 (an alternative version 2)
    AddVariant2,
    /// the versioned field `b` of Arg is dropped again, the version number stays
    DropVField,
    ClosureArgType,
    ClosureRetType,
    OtherArgType,
    OtherRetType,
    OtherAddMethod,
    OtherRemoveMethod,
}

/// What the property text says about the edit, relative to the parent revision (used only to
/// cross-check the structural model at start-up).
#[derive(Clone, Copy, PartialEq, Eq, Debug)]
pub enum Class {
    Compatible,
    Breaking,
}
impl Edit {
    pub fn class(self) -> Class {
        use Edit::*;
        match self {
            Same | AddMethod | AddMethodFront | AddVField | AddVariant | Bump | AddVFieldWide | AddVField2 | AddVariant2 | OtherAddMethod => Class::Compatible,
            RemoveMethod | ArgCount | ArgType | RetType | FieldType | DropVField | ClosureArgType | ClosureRetType | OtherArgType | OtherRetType | OtherRemoveMethod => {
                Class::Breaking
            }
        }
    }
}

#[derive(Clone, Debug)]
pub struct Revision {
    pub label: &'static str,
    pub parent: Option<usize>,
    pub edit: Edit,
    /// presented only in the thorough tier (the module is always generated)
    pub thorough_only: bool,
}

pub fn revisions(kind: Kind) -> Vec<Revision> {
    let r = |label, parent, edit| Revision { label, parent: Some(parent), edit, thorough_only: false };
    let t = |label, parent, edit| Revision { label, parent: Some(parent), edit, thorough_only: true };
    let mut v = vec![
        Revision { label: "base", parent: None, edit: Edit::Same, thorough_only: false },
        r("same", 0, Edit::Same),
        r("add_method", 0, Edit::AddMethod),
        r("add_method_front", 0, Edit::AddMethodFront),
        r("add_vfield", 0, Edit::AddVField),
        r("add_variant", 0, Edit::AddVariant),
        r("remove_method", 0, Edit::RemoveMethod),
        r("arg_count", 0, Edit::ArgCount),
        r("arg_type", 0, Edit::ArgType),
        r("ret_type", 0, Edit::RetType),
        r("field_type", 0, Edit::FieldType),
        r("bump", 0, Edit::Bump),
        r("add_vfield_wide", 0, Edit::AddVFieldWide),
        r("vfield_then_method", 4, Edit::AddMethod),
        r("vfield_then_vfield2", 4, Edit::AddVField2),
        r("vfield_then_remove", 4, Edit::RemoveMethod),
        r("vfield_then_variant2", 4, Edit::AddVariant2),
        r("bump_then_bump", 11, Edit::Bump),
        t("vfield_then_drop_field", 4, Edit::DropVField),
        t("variant_then_method", 5, Edit::AddMethod),
        t("variant_then_vfield2", 5, Edit::AddVField2),
        t("vfield2_then_arg_type", 14, Edit::ArgType),
    ];
    match kind {
        Kind::Closure => {
            v.push(r("closure_arg_type", 0, Edit::ClosureArgType));
            v.push(r("closure_ret_type", 0, Edit::ClosureRetType));
        }
        Kind::BoxedTrait => {
            v.push(r("other_arg_type", 0, Edit::OtherArgType));
            v.push(r("other_ret_type", 0, Edit::OtherRetType));
            v.push(r("other_add_method", 0, Edit::OtherAddMethod));
            v.push(r("other_remove_method", 0, Edit::OtherRemoveMethod));
        }
        _ => {}
    }
    v
}

fn m(name: &str, args: &[(&str, ArgTy)], ret: Prim) -> Method {
    Method { name: name.to_string(), args: args.iter().map(|(n, t)| (n.to_string(), t.clone())).collect(), ret }
}

pub fn base_spec(kind: Kind) -> Spec {
    let mut f_args = vec![("x", ArgTy::Prim(Prim::U32)), ("s", ArgTy::Arg), ("e", ArgTy::En)];
    match kind {
        Kind::Closure => f_args.push(("c", ArgTy::Closure(Prim::U32, Prim::U32))),
        Kind::BoxedTrait => f_args.push(("o", ArgTy::Other)),
        _ => {}
    }
    Spec {
        version: 0,
        methods: vec![m("f", &f_args, Prim::U32), m("g", &[("y", ArgTy::Prim(Prim::U32))], Prim::U32)],
        arg_fields: vec![("a".to_string(), Prim::U32, 0)],
        en_variants: vec![("A".to_string(), 0), ("B".to_string(), 0)],
        other: if kind == Kind::BoxedTrait {
            vec![m("h", &[("x", ArgTy::Prim(Prim::U32))], Prim::U32), m("h2", &[("x", ArgTy::Prim(Prim::U32))], Prim::U32)]
        } else {
            vec![]
        },
    }
}

fn apply(edit: Edit, s: &mut Spec) {
    let g = |s: &mut Spec| s.methods.iter().position(|x| x.name == "g").expect("method g");
    match edit {
        Edit::Same => {}
        Edit::AddMethod => s.methods.push(m("added", &[("z", ArgTy::Prim(Prim::U32))], Prim::U32)),
        Edit::AddMethodFront => s.methods.insert(0, m("added", &[("z", ArgTy::Prim(Prim::U32))], Prim::U32)),
        Edit::AddVField => {
            s.arg_fields.push(("b".to_string(), Prim::U32, 1));
            s.version = s.version.max(1);
        }
        Edit::AddVFieldWide => {
            s.arg_fields.push(("b".to_string(), Prim::U64, 1));
            s.version = s.version.max(1);
        }
        Edit::AddVField2 => {
            s.arg_fields.push(("c".to_string(), Prim::U32, 2));
            s.version = s.version.max(2);
        }
        Edit::DropVField => s.arg_fields.retain(|f| f.0 != "b"),
        Edit::AddVariant2 => {
            s.en_variants.push(("D".to_string(), 2));
            s.version = s.version.max(2);
        }
        Edit::AddVariant => {
            s.en_variants.push(("C".to_string(), 1));
            s.version = s.version.max(1);
        }
        Edit::RemoveMethod => {
            let i = g(s);
            s.methods.remove(i);
        }
        Edit::ArgCount => {
            let i = g(s);
            s.methods[i].args.push(("y2".to_string(), ArgTy::Prim(Prim::U32)));
        }
        Edit::ArgType => {
            let i = g(s);
            s.methods[i].args[0].1 = ArgTy::Prim(Prim::U64);
        }
        Edit::RetType => {
            let i = g(s);
            s.methods[i].ret = Prim::U64;
        }
        Edit::FieldType => s.arg_fields[0].1 = Prim::U64,
        Edit::Bump => s.version += 1,
        Edit::ClosureArgType | Edit::ClosureRetType => {
            for (_, t) in s.methods[0].args.iter_mut() {
                if let ArgTy::Closure(a, r) = t {
                    if edit == Edit::ClosureArgType {
                        *a = Prim::U64
                    } else {
                        *r = Prim::U64
                    }
                }
            }
        }
        Edit::OtherArgType => s.other[0].args[0].1 = ArgTy::Prim(Prim::U64),
        Edit::OtherRetType => s.other[0].ret = Prim::U64,
        Edit::OtherAddMethod => s.other.push(m("h3", &[("x", ArgTy::Prim(Prim::U32))], Prim::U32)),
        Edit::OtherRemoveMethod => {
            s.other.pop();
        }
    }
}

pub fn spec(kind: Kind, revs: &[Revision], idx: usize) -> Spec {
    match revs[idx].parent {
        None => base_spec(kind),
        Some(p) => {
            let mut s = spec(kind, revs, p);
            apply(revs[idx].edit, &mut s);
            s
        }
    }
}

// ---------------------------------------------------------------------------------------------
// abstract definitions (what one ledger entry records), and the compatibility relation

#[derive(Clone, PartialEq, Eq, Hash, PartialOrd, Ord, Debug)]
pub enum AType {
    Prim(Prim),
    Struct(Vec<(String, AType)>),
    Enum(Vec<String>),
    Closure(Vec<AType>, Box<AType>),
    Trait(ADef),
    Future(Box<AType>),
}
#[derive(Clone, PartialEq, Eq, Hash, PartialOrd, Ord, Debug)]
pub struct AMethod {
    pub name: String,
    pub is_async: bool,
    pub args: Vec<AType>,
    pub ret: AType,
}
#[derive(Clone, PartialEq, Eq, Hash, PartialOrd, Ord, Debug)]
pub struct ADef {
    pub methods: Vec<AMethod>,
}

fn atype(_kind: Kind, s: &Spec, t: &ArgTy, version: u32) -> AType {
    match t {
        ArgTy::Prim(p) => AType::Prim(*p),
        ArgTy::Arg => AType::Struct(s.arg_fields.iter().filter(|f| f.2 <= version).map(|f| (f.0.clone(), AType::Prim(f.1))).collect()),
        ArgTy::En => AType::Enum(s.en_variants.iter().filter(|v| v.1 <= version).map(|v| v.0.clone()).collect()),
        ArgTy::Closure(a, r) => AType::Closure(vec![AType::Prim(*a)], Box::new(AType::Prim(*r))),
        ArgTy::Other => AType::Trait(ADef { methods: s.other.iter().map(|m| amethod(Kind::Plain, s, m, version)).collect() }),
    }
}
fn amethod(kind: Kind, s: &Spec, m: &Method, version: u32) -> AMethod {
    let ret = AType::Prim(m.ret);
    AMethod {
        name: m.name.clone(),
        is_async: kind == Kind::AsyncTrait,
        args: m.args.iter().map(|(_, t)| atype(kind, s, t, version)).collect(),
        ret: if kind == Kind::BoxedFuture { AType::Future(Box::new(ret)) } else { ret },
    }
}
/// The definition of the interface of `s` as seen at `version` (fields / variants introduced
/// later do not exist there).
pub fn adef(kind: Kind, s: &Spec, version: u32) -> ADef {
    ADef { methods: s.methods.iter().map(|m| amethod(kind, s, m, version)).collect() }
}

/// Why `new` is NOT backward compatible with the recorded `old` (empty = compatible).
/// Rules, from the property text: every recorded method must still exist (removed method =
/// breaking), with the same number of arguments, the same argument types and the same return
/// type; methods that only exist in `new` are fine. A trait-object argument is compatible when
/// its own definition is compatible by the same rules (reasons prefixed `nested_`); a closure
/// argument must have the same signature.
pub fn incompat(new: &ADef, old: &ADef, prefix: &str, out: &mut Vec<String>) {
    let add = |r: String, out: &mut Vec<String>| {
        if !out.contains(&r) {
            out.push(r)
        }
    };
    for om in &old.methods {
        let Some(nm) = new.methods.iter().find(|x| x.name == om.name) else {
            add(format!("{}removed_method", prefix), out);
            continue;
        };
        if nm.is_async != om.is_async {
            add(format!("{}ret_type", prefix), out);
        }
        if nm.args.len() != om.args.len() {
            add(format!("{}arg_count", prefix), out);
        } else {
            for (na, oa) in nm.args.iter().zip(om.args.iter()) {
                match (na, oa) {
                    (AType::Trait(nd), AType::Trait(od)) => incompat(nd, od, &format!("{}nested_", prefix), out),
                    (AType::Closure(na, nr), AType::Closure(oa, or)) => {
                        if na != oa {
                            add(format!("{}closure_arg_type", prefix), out);
                        }
                        if nr != or {
                            add(format!("{}closure_ret_type", prefix), out);
                        }
                    }
                    (AType::Struct(a), AType::Struct(b)) if a != b => add(format!("{}arg_type_struct", prefix), out),
                    (AType::Enum(a), AType::Enum(b)) if a != b => add(format!("{}arg_type_enum", prefix), out),
                    (a, b) if a != b => add(format!("{}arg_type", prefix), out),
                    _ => {}
                }
            }
        }
        if nm.ret != om.ret {
            add(format!("{}ret_type", prefix), out);
        }
    }
}

// ---------------------------------------------------------------------------------------------
// source emission (used by build.rs)

#[allow(dead_code)]
fn emit_methods(kind: Kind, methods: &[Method], out: &mut String) {
    for me in methods {
        let mut args = String::from("&self");
        for (n, t) in &me.args {
            let ty = match t {
                ArgTy::Prim(p) => p.src().to_string(),
                ArgTy::Arg => "Arg".to_string(),
                ArgTy::En => "En".to_string(),
                ArgTy::Closure(a, r) => format!("&dyn Fn({}) -> {}", a.src(), r.src()),
                ArgTy::Other => "Box<dyn Other>".to_string(),
            };
            args.push_str(&format!(", {}: {}", n, ty));
        }
        match kind {
            Kind::AsyncTrait => out.push_str(&format!("        async fn {}({}) -> {};\n", me.name, args, me.ret.src())),
            Kind::BoxedFuture => out.push_str(&format!("        fn {}({}) -> Pin<Box<dyn Future<Output = {}>>>;\n", me.name, args, me.ret.src())),
            _ => out.push_str(&format!("        fn {}({}) -> {};\n", me.name, args, me.ret.src())),
        }
    }
}

#[allow(dead_code)]
pub fn module_name(kind: Kind, rev: usize) -> String {
    format!("k{}_r{}", kind.index(), rev)
}

/// Rust source of the module holding revision `rev` of interface kind `kind`.
#[allow(dead_code)]
pub fn emit_module(kind: Kind, rev: usize, label: &str, s: &Spec) -> String {
    let mut o = String::new();
    o.push_str(&format!("/// kind {} revision {} ({})\n", kind.label(), rev, label));
    o.push_str(&format!("pub mod {} {{\n", module_name(kind, rev)));
    o.push_str("    #![allow(dead_code, unused_imports)]\n");
    o.push_str("    use savefile::prelude::*;\n    use savefile_derive::Savefile;\n    use savefile_derive::savefile_abi_exportable;\n");
    o.push_str("    use std::future::Future;\n    use std::pin::Pin;\n    use async_trait::async_trait;\n");
    o.push_str("    #[derive(Savefile)]\n    pub struct Arg {\n");
    for (n, t, from) in &s.arg_fields {
        if *from > 0 {
            o.push_str(&format!("        #[savefile_versions = \"{}..\"]\n", from));
        }
        o.push_str(&format!("        pub {}: {},\n", n, t.src()));
    }
    o.push_str("    }\n    #[derive(Savefile)]\n    pub enum En {\n");
    for (n, from) in &s.en_variants {
        if *from > 0 {
            o.push_str(&format!("        #[savefile_versions = \"{}..\"]\n", from));
        }
        o.push_str(&format!("        {},\n", n));
    }
    o.push_str("    }\n");
    if !s.other.is_empty() {
        o.push_str(&format!("    #[savefile_abi_exportable(version = {})]\n    pub trait Other {{\n", s.version));
        emit_methods(Kind::Plain, &s.other, &mut o);
        o.push_str("    }\n");
    }
    if kind == Kind::AsyncTrait {
        o.push_str("    #[async_trait]\n");
    }
    o.push_str(&format!("    #[savefile_abi_exportable(version = {})]\n    pub trait Iface {{\n", s.version));
    emit_methods(kind, &s.methods, &mut o);
    o.push_str("    }\n}\n\n");
    o
}

/// The whole generated file: all modules plus the dispatch functions.
#[allow(dead_code)]
pub fn emit_all() -> String {
    let mut o = String::from("// generated by build.rs from src/family.rs - do not edit\n\n");
    let mut run = String::new();
    let mut def = String::new();
    let mut latest = String::new();
    for kind in KINDS {
        let revs = revisions(kind);
        for (i, r) in revs.iter().enumerate() {
            let s = spec(kind, &revs, i);
            o.push_str(&emit_module(kind, i, r.label, &s));
            let md = module_name(kind, i);
            run.push_str(&format!("        ({}, {}) => savefile_abi::verify_compatiblity::<dyn {}::Iface>(dir),\n", kind.index(), i, md));
            def.push_str(&format!(
                "        ({}, {}) => <dyn {}::Iface as savefile_abi::AbiExportable>::get_definition(version),\n",
                kind.index(),
                i,
                md
            ));
            latest.push_str(&format!(
                "        ({}, {}) => <dyn {}::Iface as savefile_abi::AbiExportable>::get_latest_version(),\n",
                kind.index(),
                i,
                md
            ));
        }
    }
    o.push_str("/// one ledger run of the real code for revision (kind, rev) on directory `dir`\n");
    o.push_str("pub fn run(kind: usize, rev: usize, dir: &str) -> Result<(), savefile::SavefileError> {\n    match (kind, rev) {\n");
    o.push_str(&run);
    o.push_str("        _ => panic!(\"vabi15: no such revision\"),\n    }\n}\n");
    o.push_str("pub fn definition(kind: usize, rev: usize, version: u32) -> savefile::AbiTraitDefinition {\n    match (kind, rev) {\n");
    o.push_str(&def);
    o.push_str("        _ => panic!(\"vabi15: no such revision\"),\n    }\n}\n");
    o.push_str("pub fn latest_version(kind: usize, rev: usize) -> u32 {\n    match (kind, rev) {\n");
    o.push_str(&latest);
    o.push_str("        _ => panic!(\"vabi15: no such revision\"),\n    }\n}\n");
    o
}
