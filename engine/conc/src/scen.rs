//! Scenarios: closed harnesses of a main task plus 1–3 threads, each thread a short list of
//! operations on the real savefile-abi code. All data (no closures), so that a scenario id is a
//! complete description of the harness and a replay file only needs the id and the schedule.
use crate::ifaces::{self, *};
use savefile_abi::AbiConnection;
use std::sync::Arc;

#[derive(Clone, Debug, PartialEq)]
pub enum Op {
    // creation through an in-process entry point (TEMPLATES cache)
    NewCalc,
    NewCalcPlain,
    NewText,
    NewVer,
    NewOuter,
    // creation through load_shared_library (ENTRY + LIBRARY caches, then TEMPLATES + CreateInstance)
    LoadCalc,
    LoadText,
    LoadReent,
    LoadAdder,
    // calls on the thread's own connection
    Add(u32, u32),
    Apply(u32),
    ApplyNested(u32),
    Feed(u32),
    Make(u32),
    Concat(u32),
    Shout(&'static str),
    VerGet(u32),
    VerSum,
    OuterRun(u32),
    OuterRunCb(u32),
    ReentVal(u32),
    AdderSimple(u32, u32),
    AdderSub(u32, u32),
    // calls on the connection shared by all threads (created by the main task's setup)
    SharedCalc,
    SApply(u32),
    SFeed(u32),
    SMake(u32),
    // shareability family: calls on ONE connection shared between the threads (Tally / TallySync)
    TBump(u32),
    TRecord(u32),
    TTotal,
    TRecorded,
    // self-test only: harness-owned shuttle mutexes / a deliberately racy counter
    LockAB,
    LockBA,
    RacyInc,
    ReadCounter,
}

pub struct Scenario {
    pub id: &'static str,
    pub title: &'static str,
    pub setup: Vec<Op>,
    pub threads: Vec<Vec<Op>>,
    pub post: Vec<Op>,
    pub selftest: bool,
    /// needs the cdylib of /repo/savefile-abi-min-lib-impl
    pub needs_plugin: bool,
    pub thorough_only: bool,
    /// larger harness: bounded exploration only
    pub large: bool,
    /// the threads share one connection of this kind (only if the compiler lets safe code do so)
    pub share: Share,
}

#[derive(Clone, Copy, Debug, PartialEq)]
pub enum Share {
    No,
    /// `AbiConnection<dyn Tally>`, `Tally: Send` but not Sync, Cell/RefCell state
    Tally,
    /// `AbiConnection<dyn TallySync>`, `TallySync: Send + Sync`, atomic state (positive control)
    TallySync,
}

impl Scenario {
    /// Preemption bounds explored, in order (None = unbounded). Iterative context bounding:
    /// every bound is a complete DFS of all schedules with at most that many preemptions.
    pub fn bounds(&self, thorough: bool) -> Vec<Option<u32>> {
        if self.threads.is_empty() {
            return vec![Some(0)];
        }
        if !thorough {
            return vec![Some(0), Some(1), Some(2)];
        }
        if self.large {
            vec![Some(0), Some(1), Some(2), Some(3)]
        } else if self.threads.len() <= 2 {
            vec![Some(0), Some(1), Some(2), Some(3), None]
        } else {
            vec![Some(0), Some(1), Some(2), Some(3), Some(4), Some(5)]
        }
    }
}

fn scn(id: &'static str, title: &'static str, setup: Vec<Op>, threads: Vec<Vec<Op>>, post: Vec<Op>) -> Scenario {
    Scenario {
        id,
        title,
        setup,
        threads,
        post,
        selftest: false,
        needs_plugin: false,
        thorough_only: false,
        large: false,
        share: Share::No,
    }
}

pub fn all() -> Vec<Scenario> {
    use Op::*;
    let std_post = || vec![NewCalc, Add(10, 20), NewCalcPlain, Apply(4), NewText, Shout("post")];
    let mut v = vec![];
    v.push(scn(
        "S1",
        "two threads create a connection for the same interface (first use), then call",
        vec![],
        vec![vec![NewCalc, Add(1, 2)], vec![NewCalc, Add(3, 4)]],
        std_post(),
    ));
    v.push(scn(
        "S1n",
        "same interface, first use, then a call with a closure argument (callee creates the nested connection)",
        vec![],
        vec![vec![NewCalc, Apply(5)], vec![NewCalc, Apply(7)]],
        std_post(),
    ));
    v.push(scn(
        "S1w",
        "same interface, cache already warm (main created one before), threads create and call",
        vec![NewCalc, Apply(1)],
        vec![vec![NewCalc, Apply(5), Make(2)], vec![NewCalc, Feed(7)]],
        std_post(),
    ));
    v.push(scn(
        "S2",
        "two threads, different interfaces, first use, then call",
        vec![],
        vec![vec![NewCalc, Add(1, 2)], vec![NewText, Shout("abc")]],
        std_post(),
    ));
    v.push(scn(
        "S2v",
        "different interfaces, one with a caller/callee version skew",
        vec![],
        vec![vec![NewVer, VerGet(5), VerSum], vec![NewCalc, Make(3)]],
        vec![NewVer, VerGet(6), NewCalc, Add(1, 1)],
    ));
    v.push(scn(
        "S3",
        "two threads call one shared connection with closure / boxed-trait arguments and return values while a third creates a connection",
        vec![SharedCalc],
        vec![vec![SApply(3), SFeed(4)], vec![SMake(5), SApply(6)], vec![NewText, Shout("x")]],
        std_post(),
    ));
    v.push(scn(
        "S4",
        "load_shared_library of the same image and the same interface from two threads (ENTRY, LIBRARY, TEMPLATES, CreateInstance)",
        vec![],
        vec![vec![LoadCalc, Add(1, 2)], vec![LoadCalc, Add(3, 4)]],
        vec![LoadCalc, Add(5, 6), NewCalc, Add(7, 8)],
    ));
    v.push(scn(
        "S4d",
        "load_shared_library of the same image for two different interfaces (same LIBRARY key, different ENTRY keys), then calls that create nested connections",
        vec![],
        vec![vec![LoadCalc, Apply(2)], vec![LoadText, Shout("q")]],
        vec![LoadText, Shout("r"), LoadCalc, Make(1)],
    ));
    let mut s = scn(
        "S4p",
        "load_shared_library of the repository's cdylib (savefile-abi-min-lib-impl) from two threads, calls with a boxed callback",
        vec![],
        vec![vec![LoadAdder, AdderSimple(1, 2), AdderSub(9, 4)], vec![LoadAdder, AdderSub(7, 2)]],
        vec![LoadAdder, AdderSimple(5, 6)],
    );
    s.needs_plugin = true;
    s.thorough_only = true;
    v.push(s);
    v.push(scn(
        "S5",
        "three threads: two create the same interface and make calls that create nested connections, one creates another interface",
        vec![],
        vec![vec![NewCalc, Apply(5)], vec![NewCalc, Make(2)], vec![NewText, Shout("z")]],
        std_post(),
    ));
    v.push(scn(
        "S5m",
        "three threads: in-process creation, load_shared_library and version-skewed creation mixed",
        vec![],
        vec![vec![LoadCalc, Feed(1)], vec![NewCalcPlain, Apply(2)], vec![NewVer, VerGet(3)]],
        std_post(),
    ));
    let mut s = scn(
        "S3L",
        "larger S3: three calls per thread on the shared connection, third thread creates and calls",
        vec![SharedCalc],
        vec![vec![SApply(3), SFeed(4), SMake(1)], vec![SMake(5), SApply(6), SFeed(2)], vec![NewCalc, Feed(9)]],
        std_post(),
    );
    s.large = true;
    s.thorough_only = true;
    v.push(s);
    let mut s = scn(
        "S5L",
        "larger S5: three operations per thread, three interfaces, in-process and load_shared_library creation",
        vec![],
        vec![vec![NewCalc, Apply(5), Feed(1)], vec![LoadCalc, Make(2), Concat(3)], vec![NewText, Shout("z"), NewVer]],
        std_post(),
    );
    s.large = true;
    s.thorough_only = true;
    v.push(s);
    for (id, share, title) in [
        ("Y1", Share::Tally, "one connection to a Send-but-not-Sync implementation (Cell read, scheduling point, write) shared by two threads, if safe code can share it"),
        ("YC", Share::TallySync, "positive control: one connection to a Send+Sync implementation (atomic counter) shared by two threads"),
    ] {
        let mut s = scn(id, title, vec![], vec![vec![TBump(1), TBump(2)], vec![TBump(10)]], vec![TTotal]);
        s.share = share;
        v.push(s);
    }
    for (id, share, title) in [
        ("Y2", Share::Tally, "as Y1 with a RefCell borrow held across the scheduling point"),
        ("YC2", Share::TallySync, "positive control for Y2 (atomic state)"),
    ] {
        let mut s = scn(id, title, vec![], vec![vec![TRecord(1)], vec![TRecord(2), TBump(5)]], vec![TRecorded, TTotal]);
        s.share = share;
        v.push(s);
    }
    v.push(scn(
        "R1",
        "single thread: an implementation's method, and a caller's closure run by the callee, create further connections",
        vec![NewOuter, OuterRun(3), OuterRunCb(4), NewCalc, ApplyNested(5)],
        vec![],
        vec![NewText, Shout("r1")],
    ));
    v.push(scn(
        "R2",
        "single thread: an implementation's constructor (run by CreateInstance inside load_shared_library) creates a connection",
        vec![LoadReent, ReentVal(1)],
        vec![],
        vec![NewText, Shout("r2")],
    ));
    // ---- detection self-test, not part of the C16 verdict
    let mut s = scn(
        "X1",
        "self-test: two harness-owned mutexes taken in opposite orders",
        vec![],
        vec![vec![LockAB], vec![LockBA]],
        vec![ReadCounter],
    );
    s.selftest = true;
    v.push(s);
    let mut s = scn(
        "X2",
        "self-test: lost update (load; store under separate critical sections)",
        vec![],
        vec![vec![RacyInc], vec![RacyInc]],
        vec![ReadCounter],
    );
    s.selftest = true;
    v.push(s);
    v
}

pub fn by_id(id: &str) -> Option<Scenario> {
    all().into_iter().find(|s| s.id == id)
}

/// State shared by all tasks of one execution.
pub struct Env {
    pub shared_calc: Option<AbiConnection<dyn Calc>>,
    pub a: shuttle::sync::Mutex<()>,
    pub b: shuttle::sync::Mutex<()>,
    pub counter: shuttle::sync::Mutex<u32>,
    pub plugin: Option<String>,
}

/// Connections owned by one task.
#[derive(Default)]
pub struct Ctx {
    calc: Option<AbiConnection<dyn Calc>>,
    text: Option<AbiConnection<dyn Text>>,
    ver: Option<AbiConnection<dyn ver1::Versioned>>,
    outer: Option<AbiConnection<dyn Outer>>,
    reent: Option<AbiConnection<dyn Reent>>,
    adder: Option<AbiConnection<dyn savefile_abi_min_lib::AdderInterface>>,
}

struct Cb(std::sync::atomic::AtomicU32);
impl savefile_abi_min_lib::AdderCallback for Cb {
    fn set(&self, value: u32) {
        self.0.store(value, std::sync::atomic::Ordering::SeqCst)
    }
    fn get(&self) -> u32 {
        self.0.load(std::sync::atomic::Ordering::SeqCst)
    }
}
struct CbRef(Arc<Cb>);
impl savefile_abi_min_lib::AdderCallback for CbRef {
    fn set(&self, value: u32) {
        self.0.set(value)
    }
    fn get(&self) -> u32 {
        savefile_abi_min_lib::AdderCallback::get(&*self.0)
    }
}

fn created<T: ?Sized>(slot: &mut Option<AbiConnection<T>>, r: ifaces::R<AbiConnection<T>>) -> String {
    match r {
        Ok(c) => {
            let f = template_facts(&c);
            *slot = Some(c);
            format!("ok {}", f)
        }
        Err(e) => format!("err {}", err_kind(&e)),
    }
}

const NO_CONN: &str = "no-connection";

/// Executes one operation on the real code and renders what the caller can observe.
pub fn exec_op(op: &Op, ctx: &mut Ctx, env: &Env) -> String {
    use Op::*;
    let triple = |v: u32| v.wrapping_mul(3).wrapping_add(1);
    match op {
        NewCalc => created(&mut ctx.calc, new_calc()),
        NewCalcPlain => created(&mut ctx.calc, new_calc_plain()),
        NewText => created(&mut ctx.text, new_text()),
        NewVer => created(&mut ctx.ver, new_ver()),
        NewOuter => created(&mut ctx.outer, new_outer()),
        LoadCalc => created(&mut ctx.calc, AbiConnection::<dyn Calc>::load_shared_library("")),
        LoadText => created(&mut ctx.text, AbiConnection::<dyn Text>::load_shared_library("")),
        LoadReent => created(&mut ctx.reent, AbiConnection::<dyn Reent>::load_shared_library("")),
        LoadAdder => created(
            &mut ctx.adder,
            AbiConnection::<dyn savefile_abi_min_lib::AdderInterface>::load_shared_library(env.plugin.as_deref().unwrap_or("/nonexistent")),
        ),
        Add(a, b) => ctx.calc.as_ref().map(|c| c.add(*a, *b).to_string()).unwrap_or(NO_CONN.into()),
        Apply(x) => ctx.calc.as_ref().map(|c| c.apply(&triple, *x).to_string()).unwrap_or(NO_CONN.into()),
        ApplyNested(x) => ctx
            .calc
            .as_ref()
            .map(|c| {
                c.apply(
                    &|v| {
                        // runs inside the callee's method: creates yet another connection
                        let t = AbiConnection::<dyn Text>::from_boxed_trait(Box::new(TextImpl)).expect("Text in closure");
                        t.len_of("xy") as u32 + v
                    },
                    *x,
                )
                .to_string()
            })
            .unwrap_or(NO_CONN.into()),
        Feed(x) => ctx.calc.as_ref().map(|c| c.feed(Box::new(Counter::new(*x))).to_string()).unwrap_or(NO_CONN.into()),
        Make(x) => ctx
            .calc
            .as_ref()
            .map(|c| {
                let s = c.make(*x);
                format!("{},{}", s.next(), s.next())
            })
            .unwrap_or(NO_CONN.into()),
        Concat(n) => ctx.calc.as_ref().map(|c| c.concat("k", *n)).unwrap_or(NO_CONN.into()),
        Shout(s) => ctx.text.as_ref().map(|c| format!("{}/{}", c.shout(s.to_string()), c.len_of(s))).unwrap_or(NO_CONN.into()),
        VerGet(x) => ctx
            .ver
            .as_ref()
            .map(|c| {
                use ver1::Versioned;
                c.get(ver1::Arg { x: *x, y: 77 }).to_string()
            })
            .unwrap_or(NO_CONN.into()),
        VerSum => ctx
            .ver
            .as_ref()
            .map(|c| {
                use ver1::Versioned;
                c.sum(&[1, 2, 3, 4]).to_string()
            })
            .unwrap_or(NO_CONN.into()),
        OuterRun(x) => ctx.outer.as_ref().map(|c| c.run(*x).to_string()).unwrap_or(NO_CONN.into()),
        OuterRunCb(x) => ctx.outer.as_ref().map(|c| c.run_cb(&triple, *x).to_string()).unwrap_or(NO_CONN.into()),
        ReentVal(x) => ctx.reent.as_ref().map(|c| c.val(*x).to_string()).unwrap_or(NO_CONN.into()),
        AdderSimple(a, b) => ctx
            .adder
            .as_ref()
            .map(|c| {
                use savefile_abi_min_lib::AdderInterface;
                c.add_simple(*a, *b).to_string()
            })
            .unwrap_or(NO_CONN.into()),
        AdderSub(a, b) => ctx
            .adder
            .as_ref()
            .map(|c| {
                use savefile_abi_min_lib::AdderInterface;
                let cb = Arc::new(Cb(std::sync::atomic::AtomicU32::new(0)));
                let r = c.sub(*a, *b, Box::new(CbRef(cb.clone())));
                format!("{} cb={}", r, savefile_abi_min_lib::AdderCallback::get(&*cb))
            })
            .unwrap_or(NO_CONN.into()),
        SharedCalc => "shared".into(),
        SApply(x) => env.shared_calc.as_ref().map(|c| c.apply(&triple, *x).to_string()).unwrap_or(NO_CONN.into()),
        SFeed(x) => env.shared_calc.as_ref().map(|c| c.feed(Box::new(Counter::new(*x))).to_string()).unwrap_or(NO_CONN.into()),
        SMake(x) => env
            .shared_calc
            .as_ref()
            .map(|c| {
                let s = c.make(*x);
                format!("{},{}", s.next(), s.next())
            })
            .unwrap_or(NO_CONN.into()),
        TBump(_) | TRecord(_) | TTotal | TRecorded => "not-a-ctx-op".into(),
        LockAB => {
            let _a = env.a.lock().unwrap();
            let _b = env.b.lock().unwrap();
            "ab".into()
        }
        LockBA => {
            let _b = env.b.lock().unwrap();
            let _a = env.a.lock().unwrap();
            "ba".into()
        }
        RacyInc => {
            let v = *env.counter.lock().unwrap();
            *env.counter.lock().unwrap() = v + 1;
            "inc".into()
        }
        ReadCounter => env.counter.lock().unwrap().to_string(),
    }
}

/// What one execution lets an observer see. `results` and `post` are compared with the
/// sequential reference; the rest describes the interleaving.
#[derive(Clone, Debug, Default, PartialEq)]
pub struct Obs {
    pub setup: Vec<String>,
    pub results: Vec<Vec<String>>,
    pub post: Vec<String>,
}

pub enum Mode {
    Concurrent,
    /// thread bodies one after another in the main task, in this order
    Sequential(Vec<usize>),
}

/// The body of one execution (runs as shuttle's main task).
pub fn run_body(s: &Scenario, mode: &Mode, plugin: &Option<String>) -> Obs {
    match s.share {
        Share::No => {}
        Share::Tally => return run_shared_tally(s, mode),
        Share::TallySync => return run_shared_tally_sync(s, mode),
    }
    let mut obs = Obs::default();
    let mut main_ctx = Ctx::default();
    let mut env = Env {
        shared_calc: None,
        a: shuttle::sync::Mutex::new(()),
        b: shuttle::sync::Mutex::new(()),
        counter: shuttle::sync::Mutex::new(0),
        plugin: plugin.clone(),
    };
    for op in &s.setup {
        if *op == Op::SharedCalc {
            match new_calc() {
                Ok(c) => {
                    obs.setup.push(format!("ok {}", template_facts(&c)));
                    env.shared_calc = Some(c);
                }
                Err(e) => obs.setup.push(format!("err {}", err_kind(&e))),
            }
        } else {
            let r = exec_op(op, &mut main_ctx, &env);
            obs.setup.push(r);
        }
    }
    let env = Arc::new(env);
    match mode {
        Mode::Concurrent => {
            let mut handles = vec![];
            for ops in &s.threads {
                let ops = ops.clone();
                let env = env.clone();
                handles.push(shuttle::thread::spawn(move || {
                    let mut ctx = Ctx::default();
                    let r: Vec<String> = ops.iter().map(|op| exec_op(op, &mut ctx, &env)).collect();
                    drop(ctx); // connections are dropped by the thread that created them
                    r
                }));
            }
            for h in handles {
                match h.join() {
                    Ok(r) => obs.results.push(r),
                    Err(_) => obs.results.push(vec!["thread-panicked".into()]),
                }
            }
        }
        Mode::Sequential(order) => {
            obs.results = vec![vec![]; s.threads.len()];
            for &i in order {
                let mut ctx = Ctx::default();
                obs.results[i] = s.threads[i].iter().map(|op| exec_op(op, &mut ctx, &env)).collect();
            }
        }
    }
    // after the threads: fresh connections must come up and behave as in the reference
    let mut post_ctx = Ctx::default();
    for op in &s.post {
        obs.post.push(exec_op(op, &mut post_ctx, &env));
    }
    drop(post_ctx);
    drop(main_ctx);
    drop(env);
    obs
}

fn tally_op(c: &AbiConnection<dyn Tally>, op: &Op) -> String {
    match op {
        Op::TBump(b) => c.bump(*b).to_string(),
        Op::TRecord(v) => c.record(*v).to_string(),
        Op::TTotal => c.total().to_string(),
        Op::TRecorded => c.recorded().to_string(),
        _ => "unsupported".into(),
    }
}
fn tally_sync_op(c: &AbiConnection<dyn TallySync>, op: &Op) -> String {
    match op {
        Op::TBump(b) => c.bump(*b).to_string(),
        Op::TRecord(v) => c.record(*v).to_string(),
        Op::TTotal => c.total().to_string(),
        Op::TRecorded => c.recorded().to_string(),
        _ => "unsupported".into(),
    }
}

pub const NOT_SHAREABLE: &str = "not_shareable";

/// Body of the shareability scenarios, expanded once per CONCRETE connection type (inside a
/// generic function the resolution below would always pick the fallback). `Sharer::run_shared`
/// resolves at compile time either to the inherent method (exists only for `C: Send + Sync`;
/// spawns shuttle threads that all use the same `Arc<C>`) or to the trait default that answers
/// `None`: then safe code cannot make overlapping calls on the connection at all and the
/// scenario is trivially fine.
macro_rules! shared_body {
    ($s:expr, $mode:expr, $new:expr, $op:path, $conn:ty) => {{
        #[allow(unused_imports)]
        use crate::ifaces::NotShareable;
        let s: &Scenario = $s;
        let mut obs = Obs::default();
        let conn: $conn = match $new {
            Ok(c) => c,
            Err(e) => {
                obs.setup.push(format!("err {}", err_kind(&e)));
                return obs;
            }
        };
        obs.setup.push(format!("ok {}", template_facts(&conn)));
        let conn = Arc::new(conn);
        match $mode {
            Mode::Sequential(order) => {
                obs.results = vec![vec![]; s.threads.len()];
                for &i in order {
                    obs.results[i] = s.threads[i].iter().map(|o| $op(&conn, o)).collect();
                }
            }
            Mode::Concurrent => {
                let bodies: Vec<Body<$conn>> = s
                    .threads
                    .iter()
                    .map(|ops| {
                        let ops = ops.clone();
                        let b: Body<$conn> = Box::new(move |c: &$conn| ops.iter().map(|o| $op(c, o)).collect());
                        b
                    })
                    .collect();
                match Sharer::<$conn>(std::marker::PhantomData).run_shared(&conn, bodies) {
                    Some(r) => obs.results = r,
                    None => {
                        // the compiler does not let safe code share this connection: the only
                        // executions that exist are the sequential ones
                        crate::shim::note_impl(NOT_SHAREABLE);
                        obs.results = vec![vec![]; s.threads.len()];
                        for i in 0..s.threads.len() {
                            obs.results[i] = s.threads[i].iter().map(|o| $op(&conn, o)).collect();
                        }
                    }
                }
            }
        }
        for o in &s.post {
            obs.post.push($op(&conn, o));
        }
        obs
    }};
}

fn run_shared_tally(s: &Scenario, mode: &Mode) -> Obs {
    shared_body!(s, mode, new_tally(), tally_op, AbiConnection<dyn Tally>)
}
fn run_shared_tally_sync(s: &Scenario, mode: &Mode) -> Obs {
    shared_body!(s, mode, new_tally_sync(), tally_sync_op, AbiConnection<dyn TallySync>)
}

pub fn permutations(n: usize) -> Vec<Vec<usize>> {
    fn rec(cur: &mut Vec<usize>, n: usize, out: &mut Vec<Vec<usize>>) {
        if cur.len() == n {
            out.push(cur.clone());
            return;
        }
        for i in 0..n {
            if !cur.contains(&i) {
                cur.push(i);
                rec(cur, n, out);
                cur.pop();
            }
        }
    }
    let mut out = vec![];
    rec(&mut vec![], n, &mut out);
    out
}
