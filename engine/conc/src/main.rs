//! vconc: engine for C16 (stub)
fn main() {
    vcommon::machinery_error("vconc not implemented yet");
}
