//! vconc: engine for property C16 — "ABI connections are safe to create and use concurrently".
//!
//! Stateless model checking of the REAL savefile-abi code: closed 1–3 thread harnesses run under
//! shuttle's engine; our own scheduler enumerates, depth first, ALL schedules with at most p
//! preemptions (p = 0,1,2,… iterative context bounding). The three global cache mutexes of
//! savefile-abi are mirrored by shuttle mutexes through the `verif_hooks` callbacks (shim.rs), the
//! caches are reset at the start of every execution.
//!
//! Process structure: the parent (this binary without `--child-*`) runs every scenario × bound
//! exploration in child processes of itself (a failing execution leaves real mutexes locked or
//! poisoned; savefile-abi leaks one template per negotiation, so long explorations are cut into
//! chunks that resume the DFS stack in a fresh process). A failure reported by a child is
//! replayed twice in two more fresh children before it becomes a violation.
mod ifaces;
mod scen;
mod sched;
mod shim;

use scen::{Mode, Obs, Scenario};
use sched::{Level, PbDfs, Replay};
use shim::{EvKind, ExecLog, LOCK_NAMES, SHIM};
use std::cell::RefCell;
use std::collections::{BTreeMap, BTreeSet};
use std::io::Write;
use vcommon::serde_json::{self, json, Map, Value};

const MAX_STEPS: usize = 20_000;
const STACK: usize = 1 << 20;

// ---------------------------------------------------------------------------------------------
// per-process state of a child (everything runs on one OS thread)

#[derive(Default)]
struct Tally {
    executions: u64,
    new_executions: u64,
    contended: u64,
    new_contended: u64,
    contended_acquisitions: u64,
    ops: u64,
    evaluations: u64,
    validated: u64,
    schedule_hashes: BTreeSet<u64>,
    outcomes: BTreeMap<String, u64>,
    samples: Vec<Value>,
    last_sample: Option<Value>,
    max_negotiations_per_key: u64,
    preemption_histogram: BTreeMap<u32, u64>,
}

struct ChildCtx {
    scenario: String,
    bound: String,
    prev: Option<u32>,
    mode: String,
    reference: Option<Obs>,
    last: Option<(Obs, ExecLog)>,
    tally: Tally,
    stop: bool,
    failure_printed: bool,
}

thread_local! {
    static CHILD: RefCell<Option<ChildCtx>> = const { RefCell::new(None) };
}

fn with_child<T>(f: impl FnOnce(&mut ChildCtx) -> T) -> T {
    CHILD.with(|c| f(c.borrow_mut().as_mut().expect("child context")))
}

fn fnv(path: &[u32]) -> u64 {
    let mut h: u64 = 0xcbf29ce484222325;
    for p in path {
        for b in p.to_le_bytes() {
            h ^= b as u64;
            h = h.wrapping_mul(0x100000001b3);
        }
    }
    h
}

fn path_str(p: &[u32]) -> String {
    p.iter().map(|x| x.to_string()).collect::<Vec<_>>().join(",")
}

fn emit(prefix: &str, v: &Value) {
    let mut out = std::io::stdout().lock();
    let _ = writeln!(out, "{} {}", prefix, v);
    let _ = out.flush();
}

/// One failure line; the first one printed by a child is the child's result.
fn print_failure(oracle: &str, kind: &str, locks: &str, detail: &str) {
    let (path, preempt) = SHIM.with(|s| {
        let s = s.borrow();
        (s.path.clone(), s.preemptions)
    });
    let already = with_child(|c| {
        let a = c.failure_printed;
        c.failure_printed = true;
        c.stop = true;
        a
    });
    if already {
        return;
    }
    let v = with_child(|c| {
        json!({
            "scenario": c.scenario, "bound": c.bound, "mode": c.mode,
            "oracle": oracle, "kind": kind, "locks": locks, "detail": detail,
            "schedule": path_str(&path), "preemptions": preempt,
            "executions_before": c.tally.executions,
        })
    });
    emit("F", &v);
}

/// Called from the acquire callback when a task re-acquires a cache mutex it already holds.
pub fn report_self_deadlock(task: usize, lock: usize) {
    print_failure(
        "deadlock",
        "self_reentrant",
        LOCK_NAMES[lock],
        &format!(
            "task{} calls Guard::lock on {} while it already holds that mutex: the real std::sync::Mutex never returns (single-thread self-deadlock)",
            task, LOCK_NAMES[lock]
        ),
    );
}

fn outcome_string(log: &ExecLog) -> String {
    if log.impl_events.iter().any(|(t, _)| *t == scen::NOT_SHAREABLE) {
        return scen::NOT_SHAREABLE.to_string();
    }
    if !log.impl_events.is_empty() {
        // shareability family: the interleaving of the implementation's read / write steps
        let ev: Vec<String> = log.impl_events.iter().map(|(t, k)| format!("{}{}", t, k)).collect();
        return format!("calls[{}]", ev.join(","));
    }
    let neg: Vec<String> = log.negotiations.iter().map(|(k, t)| format!("{}:t{}", k, t)).collect();
    let mut firsts = vec![];
    for (li, name) in LOCK_NAMES.iter().enumerate() {
        let mut order: Vec<usize> = vec![];
        for (k, t, l) in &log.events {
            if *k == EvKind::Acquired && *l == li && *t != 0 && !order.contains(t) {
                order.push(*t);
            }
        }
        if !order.is_empty() {
            firsts.push(format!("{}:{}", &name[..1], order.iter().map(|t| t.to_string()).collect::<Vec<_>>().join(">")));
        }
    }
    format!("negotiated[{}] first-acquire[{}]", neg.join(","), firsts.join(" "))
}

fn shuttle_config() -> shuttle::Config {
    let mut c = shuttle::Config::new();
    c.stack_size = STACK;
    c.failure_persistence = shuttle::FailurePersistence::None;
    c.max_steps = shuttle::MaxSteps::FailAfter(MAX_STEPS);
    c.silence_warnings = true;
    // a panicking task must not be followed by further scheduling (a second panic would abort)
    c.ungraceful_shutdown_config.immediately_return_on_panic = true;
    c
}

/// Runs `runner.run(body)` and classifies what shuttle reports.
fn run_shuttle<S: shuttle::scheduler::Scheduler + 'static>(scheduler: S, body: impl Fn() + Send + Sync + 'static) -> Result<(), (String, String, String, String)> {
    let runner = shuttle::Runner::new(scheduler, shuttle_config());
    let r = std::panic::catch_unwind(std::panic::AssertUnwindSafe(|| {
        runner.run(body);
    }));
    match r {
        Ok(()) => Ok(()),
        Err(p) => {
            let msg = if let Some(s) = p.downcast_ref::<&str>() {
                s.to_string()
            } else if let Some(s) = p.downcast_ref::<String>() {
                s.clone()
            } else {
                "<non-string panic payload>".to_string()
            };
            let last = vcommon::take_last_panic();
            let (graph, locks) = shim::wait_for_graph();
            let lock_names = locks.iter().map(|l| LOCK_NAMES[*l]).collect::<Vec<_>>().join(",");
            if msg.starts_with("deadlock!") {
                Err(("deadlock".into(), "lock_cycle".into(), lock_names, format!("no task is runnable: {}", if graph.is_empty() { "all unfinished tasks are blocked on harness-owned mutexes".to_string() } else { graph })))
            } else if msg.contains("exceeded max_steps") {
                Err(("livelock".into(), "step_cap".into(), lock_names, format!("more than {} scheduling decisions; {}", MAX_STEPS, graph)))
            } else {
                Err(("panic".into(), "panic".into(), lock_names, format!("{} | {}", msg, last)))
            }
        }
    }
}

fn self_deadlock_seen(log: &ExecLog) -> bool {
    log.self_deadlock.is_some()
}

/// One execution under a fixed scheduler (reference runs and replays). Err = failure line data.
fn run_single(s: &'static Scenario, mode: Mode, choices: Vec<u32>, plugin: Option<String>) -> (Option<(Obs, ExecLog)>, Option<(String, String, String, String)>, sched::ReplayShared) {
    let sch = Replay::new(choices);
    let shared = sch.shared.clone();
    with_child(|c| c.last = None);
    let r = run_shuttle(sch, move || {
        shim::begin_execution();
        let obs = scen::run_body(s, &mode, &plugin);
        let log = shim::end_execution();
        with_child(|c| c.last = Some((obs, log)));
    });
    let last = with_child(|c| c.last.take());
    let sh = std::mem::take(&mut *shared.borrow_mut());
    (last, r.err(), sh)
}

fn leak_scenario(id: &str) -> &'static Scenario {
    match scen::by_id(id) {
        Some(s) => Box::leak(Box::new(s)),
        None => vcommon::machinery_error(&format!("unknown scenario {}", id)),
    }
}

/// Sequential reference: the thread bodies one after another in one task, for every order of the
/// threads; all orders must agree (the scenarios are built so that results do not depend on the
/// order), otherwise the harness is wrong.
fn compute_reference(s: &'static Scenario, plugin: &Option<String>) -> Result<Obs, ()> {
    let mut reference: Option<Obs> = None;
    for order in scen::permutations(s.threads.len()) {
        let mode_name = format!("sequential:{}", order.iter().map(|x| x.to_string()).collect::<Vec<_>>().join("."));
        with_child(|c| c.mode = mode_name.clone());
        let (last, err, _) = run_single(s, Mode::Sequential(order.clone()), vec![], plugin.clone());
        if let Some((oracle, kind, locks, detail)) = err {
            print_failure(&oracle, &kind, &locks, &format!("in the sequential reference run: {}", detail));
            return Err(());
        }
        let Some((obs, log)) = last else {
            emit("M", &json!("reference run produced no observation"));
            std::process::exit(2);
        };
        if self_deadlock_seen(&log) || with_child(|c| c.failure_printed) {
            return Err(());
        }
        if log.leftover_guards != 0 {
            emit("M", &json!("reference run left mirror guards behind"));
            std::process::exit(2);
        }
        match &reference {
            None => reference = Some(obs),
            Some(r) => {
                if *r != obs {
                    emit("M", &json!(format!("scenario {}: sequential results depend on the thread order: {:?} vs {:?}", s.id, r, obs)));
                    std::process::exit(2);
                }
            }
        }
    }
    Ok(reference.unwrap())
}

fn obs_json(o: &Obs) -> Value {
    json!({"setup": o.setup, "threads": o.results, "post": o.post})
}

fn first_difference(r: &Obs, o: &Obs) -> Option<(String, String)> {
    if r.setup != o.setup {
        return Some(("result_mismatch".into(), format!("setup results {:?}, sequential reference {:?}", o.setup, r.setup)));
    }
    for (i, (a, b)) in r.results.iter().zip(o.results.iter()).enumerate() {
        if a != b {
            return Some(("result_mismatch".into(), format!("thread {} observed {:?}, sequential reference {:?}", i + 1, b, a)));
        }
    }
    if r.results.len() != o.results.len() {
        return Some(("result_mismatch".into(), "different number of threads".into()));
    }
    if r.post != o.post {
        return Some(("post_state_mismatch".into(), format!("after the threads joined: {:?}, sequential reference {:?}", o.post, r.post)));
    }
    None
}

/// Oracle for one completed concurrent execution. Returns the failure, if any.
fn judge(obs: &Obs, log: &ExecLog, reference: &Obs) -> Option<(String, String, String, String)> {
    if let Some((t, l)) = log.self_deadlock {
        return Some(("deadlock".into(), "self_reentrant".into(), LOCK_NAMES[l].into(), format!("task{} re-acquired {}", t, LOCK_NAMES[l])));
    }
    if log.leftover_guards != 0 {
        return Some(("lock_leak".into(), "guard_not_released".into(), String::new(), format!("{} cache guards still held after all threads joined", log.leftover_guards)));
    }
    first_difference(reference, obs).map(|(o, d)| (o, "differs_from_sequential".into(), String::new(), d))
}

// ---------------------------------------------------------------------------------------------
// child: exploration of one scenario at one preemption bound (one chunk)

fn parse_levels(s: &str) -> Vec<Level> {
    if s.is_empty() {
        return vec![];
    }
    s.split(',')
        .map(|l| {
            let (o, i) = l.split_once(':').unwrap_or_else(|| vcommon::machinery_error("bad --resume"));
            Level { options: o.split('.').map(|x| x.parse().unwrap()).collect(), idx: i.parse().unwrap() }
        })
        .collect()
}
fn levels_str(l: &[Level]) -> String {
    l.iter()
        .map(|l| format!("{}:{}", l.options.iter().map(|x| x.to_string()).collect::<Vec<_>>().join("."), l.idx))
        .collect::<Vec<_>>()
        .join(",")
}

struct ChildArgs {
    scenario: String,
    bound: Option<u32>,
    prev: Option<u32>,
    max_exec: u64,
    resume: Option<Vec<Level>>,
    plugin: Option<String>,
    mode: String,
    schedule: Vec<u32>,
}

fn opt(extra: &[String], key: &str) -> Option<String> {
    extra.iter().position(|a| a == key).and_then(|i| extra.get(i + 1).cloned())
}

fn child_args(extra: &[String], scenario: String) -> ChildArgs {
    let bound = match opt(extra, "--bound").as_deref() {
        None | Some("inf") => None,
        Some(x) => Some(x.parse().unwrap_or_else(|_| vcommon::machinery_error("bad --bound"))),
    };
    let prev = match opt(extra, "--prev").as_deref() {
        None | Some("none") => None,
        Some(x) => Some(x.parse().unwrap_or_else(|_| vcommon::machinery_error("bad --prev"))),
    };
    ChildArgs {
        scenario,
        bound,
        prev,
        max_exec: opt(extra, "--max-exec").and_then(|x| x.parse().ok()).unwrap_or(u64::MAX),
        resume: opt(extra, "--resume").map(|s| parse_levels(&s)),
        plugin: opt(extra, "--plugin"),
        mode: opt(extra, "--mode").unwrap_or_else(|| "concurrent".into()),
        schedule: opt(extra, "--schedule")
            .map(|s| s.split(',').filter(|x| !x.is_empty()).map(|x| x.parse().unwrap_or_else(|_| vcommon::machinery_error("bad --schedule"))).collect())
            .unwrap_or_default(),
    }
}

fn init_child(a: &ChildArgs) {
    vcommon::quiet_panics();
    shim::install();
    let bound = a.bound.map(|b| b.to_string()).unwrap_or_else(|| "inf".into());
    CHILD.with(|c| {
        *c.borrow_mut() = Some(ChildCtx {
            scenario: a.scenario.clone(),
            bound,
            prev: a.prev,
            mode: "concurrent".into(),
            reference: None,
            last: None,
            tally: Tally::default(),
            stop: false,
            failure_printed: false,
        })
    });
}

/// A scheduler wrapper that stops the exploration once a failure has been printed.
struct Stoppable(PbDfs);
impl shuttle::scheduler::Scheduler for Stoppable {
    fn new_execution(&mut self) -> Option<shuttle::scheduler::Schedule> {
        if with_child(|c| c.stop) {
            self.0.shared.borrow_mut().stop_requested = true;
        }
        self.0.new_execution()
    }
    fn next_task(&mut self, r: &[&shuttle::scheduler::Task], c: Option<shuttle::scheduler::TaskId>, y: bool) -> Option<shuttle::scheduler::TaskId> {
        self.0.next_task(r, c, y)
    }
    fn next_u64(&mut self) -> u64 {
        0
    }
}

fn child_explore(a: ChildArgs) -> ! {
    init_child(&a);
    let s = leak_scenario(&a.scenario);
    let plugin = a.plugin.clone();
    let reference = match compute_reference(s, &plugin) {
        Ok(r) => r,
        Err(()) => std::process::exit(0), // failure line already printed
    };
    with_child(|c| {
        c.reference = Some(reference.clone());
        c.mode = "concurrent".into();
    });
    let dfs = PbDfs::new(a.bound, a.max_exec, a.resume.clone());
    let shared = dfs.shared.clone();
    let plugin2 = plugin.clone();
    let r = run_shuttle(Stoppable(dfs), move || {
        shim::begin_execution();
        let obs = scen::run_body(s, &Mode::Concurrent, &plugin2);
        let log = shim::end_execution();
        let failure = with_child(|c| {
            let reference = c.reference.as_ref().unwrap();
            let t = &mut c.tally;
            t.executions += 1;
            let is_new = c.prev.map(|p| log.preemptions > p).unwrap_or(true);
            let overlaps = log.overlaps();
            let contended = log.blocked > 0 || overlaps > 0;
            if is_new {
                t.new_executions += 1;
            }
            if contended {
                t.contended += 1;
                if is_new {
                    t.new_contended += 1;
                }
            }
            t.contended_acquisitions += (log.blocked + overlaps) as u64;
            *t.preemption_histogram.entry(log.preemptions).or_insert(0) += 1;
            t.schedule_hashes.insert(fnv(&log.path));
            let nops = s.setup.len() + s.post.len() + s.threads.iter().map(|x| x.len()).sum::<usize>();
            t.ops += nops as u64;
            // oracle evaluations: termination + no panic (this line is only reached then),
            // one comparison per operation result, lock-leak check
            t.evaluations += 2 + nops as u64;
            t.validated += 1;
            let mut per_key: BTreeMap<&str, u64> = BTreeMap::new();
            for (k, _) in &log.negotiations {
                *per_key.entry(k).or_insert(0) += 1;
            }
            t.max_negotiations_per_key = t.max_negotiations_per_key.max(per_key.values().copied().max().unwrap_or(0));
            let outcome = outcome_string(&log);
            *t.outcomes.entry(outcome.clone()).or_insert(0) += 1;
            let sample = json!({
                "scenario": c.scenario, "bound": c.bound, "schedule": path_str(&log.path),
                "preemptions": log.preemptions, "blocked_acquisitions": log.blocked, "overlapping_calls": overlaps,
                "outcome": outcome, "results": obs_json(&obs),
            });
            if t.samples.len() < 2 || (contended && t.samples.len() < 3) {
                t.samples.push(sample);
            } else {
                t.last_sample = Some(sample);
            }
            judge(&obs, &log, reference)
        });
        if let Some((oracle, kind, locks, detail)) = failure {
            print_failure(&oracle, &kind, &locks, &detail);
        }
    });
    if let Err((oracle, kind, locks, detail)) = r {
        print_failure(&oracle, &kind, &locks, &detail);
    }
    let sh = shared.borrow();
    let out = with_child(|c| {
        let t = &mut c.tally;
        let mut samples = t.samples.clone();
        if let Some(l) = t.last_sample.take() {
            samples.push(l);
        }
        json!({
            "scenario": c.scenario, "bound": c.bound,
            "executions": t.executions, "new_executions": t.new_executions,
            "contended": t.contended, "new_contended": t.new_contended,
            "contended_acquisitions": t.contended_acquisitions,
            "ops": t.ops, "evaluations": t.evaluations, "validated": t.validated,
            "distinct_schedules": t.schedule_hashes.len(),
            "outcomes": t.outcomes, "samples": samples,
            "max_negotiations_per_key": t.max_negotiations_per_key,
            "preemption_histogram": t.preemption_histogram.iter().map(|(k, v)| (k.to_string(), json!(v))).collect::<Map<String, Value>>(),
            "decisions": sh.decisions, "scheduler_executions": sh.executions,
            "exhausted": sh.exhausted, "chunk_end": sh.chunk_end,
            "levels": levels_str(&sh.levels), "max_depth": sh.max_depth,
            "nondeterminism": sh.nondeterminism,
            "failed": c.failure_printed,
            "reference": obs_json(c.reference.as_ref().unwrap()),
        })
    });
    emit("R", &out);
    std::process::exit(0)
}

// ---------------------------------------------------------------------------------------------
// child: replay of one recorded schedule

fn child_replay(a: ChildArgs) -> ! {
    init_child(&a);
    let s = leak_scenario(&a.scenario);
    let plugin = a.plugin.clone();
    let mode = if let Some(order) = a.mode.strip_prefix("sequential:") {
        Mode::Sequential(order.split('.').filter(|x| !x.is_empty()).map(|x| x.parse().unwrap()).collect())
    } else if a.mode == "sequential" {
        Mode::Sequential(vec![])
    } else {
        Mode::Concurrent
    };
    let mut reference = None;
    if let Mode::Concurrent = mode {
        match compute_reference(s, &plugin) {
            Ok(r) => reference = Some(r),
            Err(()) => {
                emit("O", &json!({"failed": true, "oracle": "reference_failed", "kind": "", "note": "the sequential reference of this scenario fails (see the F line)"}));
                std::process::exit(0)
            }
        }
    }
    with_child(|c| {
        c.mode = a.mode.clone();
        c.failure_printed = true; // a replay prints O lines, not F lines
    });
    let (last, err, sh) = run_single(s, mode, a.schedule.clone(), plugin);
    let mut failure = err;
    let sd = SHIM.with(|s| s.borrow().self_deadlock);
    let mut obs_v = Value::Null;
    let mut outcome = String::new();
    let mut events = 0usize;
    if let Some((obs, log)) = &last {
        obs_v = obs_json(obs);
        outcome = outcome_string(log);
        events = log.events.len();
        if failure.is_none() {
            failure = match &reference {
                Some(r) => judge(obs, log, r),
                None => log.self_deadlock.map(|(t, l)| ("deadlock".to_string(), "self_reentrant".to_string(), LOCK_NAMES[l].to_string(), format!("task{} re-acquired {}", t, LOCK_NAMES[l]))),
            };
        }
    }
    if let (Some((t, l)), true) = (sd, failure.as_ref().map(|f| f.1 != "self_reentrant").unwrap_or(true)) {
        // the self-deadlock marker wins over whatever the swallowed panic caused later
        failure = Some(("deadlock".into(), "self_reentrant".into(), LOCK_NAMES[l].into(), format!("task{} re-acquired {}", t, LOCK_NAMES[l])));
    }
    let path = SHIM.with(|s| s.borrow().path.clone());
    let out = json!({
        "failed": failure.is_some(),
        "oracle": failure.as_ref().map(|f| f.0.clone()),
        "kind": failure.as_ref().map(|f| f.1.clone()),
        "locks": failure.as_ref().map(|f| f.2.clone()),
        "detail": failure.as_ref().map(|f| f.3.clone()),
        "observed": obs_v,
        "reference": reference.as_ref().map(obs_json),
        "outcome": outcome,
        "lock_events": events,
        "executed_schedule": path_str(&path),
        "diverged": sh.diverged,
        "ran_past_recording": sh.ran_past_recording,
    });
    emit("O", &out);
    std::process::exit(0)
}

// ---------------------------------------------------------------------------------------------
// child: the scenario on the real OS thread, no callbacks, no shuttle (cross-check of a reported
// self-deadlock: the real std mutex must really hang)

fn child_real(a: ChildArgs) -> ! {
    let s = leak_scenario(&a.scenario);
    let order: Vec<usize> = (0..s.threads.len()).collect();
    savefile_abi::verif_hooks::reset_caches();
    let obs = scen::run_body(s, &Mode::Sequential(order), &a.plugin);
    emit("O", &json!({"completed": true, "observed": obs_json(&obs)}));
    std::process::exit(0)
}

// ---------------------------------------------------------------------------------------------
// parent

struct ChildOut {
    lines: Vec<(char, Value)>,
    status_ok: bool,
    status: String,
    stderr_tail: String,
    timed_out: bool,
}

fn run_child(prop: &str, args: &[String], timeout_s: u64) -> ChildOut {
    use std::process::{Command, Stdio};
    let exe = std::env::current_exe().expect("current_exe");
    let mut child = Command::new(exe)
        .arg(prop)
        .args(args)
        .stdin(Stdio::null())
        .stdout(Stdio::piped())
        .stderr(Stdio::piped())
        .spawn()
        .unwrap_or_else(|e| vcommon::machinery_error(&format!("cannot spawn child: {}", e)));
    let mut stdout = child.stdout.take().unwrap();
    let mut stderr = child.stderr.take().unwrap();
    let oh = std::thread::spawn(move || {
        let mut b = Vec::new();
        let _ = std::io::Read::read_to_end(&mut stdout, &mut b);
        b
    });
    let eh = std::thread::spawn(move || {
        let mut b = Vec::new();
        let _ = std::io::Read::read_to_end(&mut stderr, &mut b);
        b
    });
    // the wall clock only bounds a hung child (a machinery error), it never decides a verdict
    let start = std::time::Instant::now();
    let mut timed_out = false;
    let status = loop {
        match child.try_wait() {
            Ok(Some(st)) => break st,
            Ok(None) => {
                if start.elapsed().as_secs() > timeout_s {
                    timed_out = true;
                    let _ = child.kill();
                    break child.wait().expect("wait");
                }
                std::thread::sleep(std::time::Duration::from_millis(5));
            }
            Err(e) => vcommon::machinery_error(&format!("wait failed: {}", e)),
        }
    };
    let out = String::from_utf8_lossy(&oh.join().unwrap_or_default()).to_string();
    let err = String::from_utf8_lossy(&eh.join().unwrap_or_default()).to_string();
    let mut lines = vec![];
    for l in out.lines() {
        let mut ch = l.chars();
        let (Some(p), Some(' ')) = (ch.next(), ch.next()) else { continue };
        if !"FROM".contains(p) {
            continue;
        }
        if let Ok(v) = serde_json::from_str::<Value>(&l[2..]) {
            lines.push((p, v));
        }
    }
    ChildOut {
        lines,
        status_ok: status.success(),
        status: format!("{:?}", status),
        stderr_tail: err.chars().rev().take(1200).collect::<String>().chars().rev().collect(),
        timed_out,
    }
}

#[derive(Clone)]
struct Job {
    scenario: &'static str,
    bound: Option<u32>,
    prev: Option<u32>,
}

#[derive(Default)]
struct JobResult {
    executions: u64,
    new_executions: u64,
    contended: u64,
    new_contended: u64,
    contended_acquisitions: u64,
    ops: u64,
    evaluations: u64,
    validated: u64,
    distinct_schedules: u64,
    decisions: u64,
    outcomes: BTreeMap<String, u64>,
    samples: Vec<Value>,
    max_negotiations_per_key: u64,
    max_depth: u64,
    histogram: BTreeMap<String, u64>,
    exhausted: bool,
    cap_hit: bool,
    chunks: u64,
    failure: Option<Value>,
    reference: Value,
}

struct Limits {
    chunk: u64,
    max_exec_per_job: u64,
    child_timeout_s: u64,
}

fn bound_name(b: Option<u32>) -> String {
    b.map(|x| x.to_string()).unwrap_or_else(|| "inf".into())
}

fn run_job(prop: &str, job: &Job, lim: &Limits, plugin: &Option<String>) -> JobResult {
    let mut res = JobResult::default();
    let mut resume: Option<String> = None;
    loop {
        let mut args: Vec<String> = vec![
            "--child-explore".into(),
            job.scenario.into(),
            "--bound".into(),
            bound_name(job.bound),
            "--prev".into(),
            job.prev.map(|p| p.to_string()).unwrap_or_else(|| "none".into()),
            "--max-exec".into(),
            lim.chunk.to_string(),
        ];
        if let Some(r) = &resume {
            args.push("--resume".into());
            args.push(r.clone());
        }
        if let Some(p) = plugin {
            args.push("--plugin".into());
            args.push(p.clone());
        }
        let out = run_child(prop, &args, lim.child_timeout_s);
        res.chunks += 1;
        if let Some((_, m)) = out.lines.iter().find(|(p, _)| *p == 'M') {
            vcommon::machinery_error(&format!("scenario {} bound {}: {}", job.scenario, bound_name(job.bound), m));
        }
        let f = out.lines.iter().find(|(p, _)| *p == 'F').map(|(_, v)| v.clone());
        let r = out.lines.iter().find(|(p, _)| *p == 'R').map(|(_, v)| v.clone());
        if let Some(f) = f {
            // counts of the failing chunk are still added when available
            if let Some(r) = &r {
                add_chunk(&mut res, r);
            }
            res.failure = Some(f);
            return res;
        }
        if out.timed_out {
            vcommon::machinery_error(&format!(
                "scenario {} bound {}: child did not finish within {} s (a hang that the lock model does not explain); stderr: {}",
                job.scenario,
                bound_name(job.bound),
                lim.child_timeout_s,
                out.stderr_tail
            ));
        }
        let Some(r) = r else {
            vcommon::machinery_error(&format!(
                "scenario {} bound {}: child ended without a result ({}); stderr: {}",
                job.scenario,
                bound_name(job.bound),
                out.status,
                out.stderr_tail
            ));
        };
        if !out.status_ok {
            vcommon::machinery_error(&format!("scenario {} bound {}: child status {}", job.scenario, bound_name(job.bound), out.status));
        }
        if let Some(n) = r["nondeterminism"].as_str() {
            vcommon::machinery_error(&format!("scenario {} bound {}: nondeterministic execution: {}", job.scenario, bound_name(job.bound), n));
        }
        add_chunk(&mut res, &r);
        if r["exhausted"].as_bool() == Some(true) {
            res.exhausted = true;
            return res;
        }
        if r["chunk_end"].as_bool() != Some(true) {
            vcommon::machinery_error(&format!("scenario {} bound {}: exploration stopped for no reason: {}", job.scenario, bound_name(job.bound), r));
        }
        if res.executions >= lim.max_exec_per_job {
            res.cap_hit = true;
            return res;
        }
        resume = Some(r["levels"].as_str().unwrap_or("").to_string());
    }
}

fn add_chunk(res: &mut JobResult, r: &Value) {
    let g = |k: &str| r[k].as_u64().unwrap_or(0);
    res.executions += g("executions");
    res.new_executions += g("new_executions");
    res.contended += g("contended");
    res.new_contended += g("new_contended");
    res.contended_acquisitions += g("contended_acquisitions");
    res.ops += g("ops");
    res.evaluations += g("evaluations");
    res.validated += g("validated");
    res.distinct_schedules += g("distinct_schedules");
    res.decisions += g("decisions");
    res.max_negotiations_per_key = res.max_negotiations_per_key.max(g("max_negotiations_per_key"));
    res.max_depth = res.max_depth.max(g("max_depth"));
    if let Some(o) = r["outcomes"].as_object() {
        for (k, v) in o {
            *res.outcomes.entry(k.clone()).or_insert(0) += v.as_u64().unwrap_or(0);
        }
    }
    if let Some(o) = r["preemption_histogram"].as_object() {
        for (k, v) in o {
            *res.histogram.entry(k.clone()).or_insert(0) += v.as_u64().unwrap_or(0);
        }
    }
    if let Some(s) = r["samples"].as_array() {
        for x in s {
            if res.samples.len() < 3 {
                res.samples.push(x.clone());
            }
        }
    }
    res.reference = r["reference"].clone();
}

fn run_jobs(prop: &str, jobs: &[Job], lim: &Limits, plugin: &Option<String>, workers: usize) -> Vec<JobResult> {
    let next = std::sync::atomic::AtomicUsize::new(0);
    let results: Vec<std::sync::Mutex<Option<JobResult>>> = jobs.iter().map(|_| std::sync::Mutex::new(None)).collect();
    std::thread::scope(|sc| {
        for _ in 0..workers.max(1) {
            sc.spawn(|| loop {
                let i = next.fetch_add(1, std::sync::atomic::Ordering::SeqCst);
                if i >= jobs.len() {
                    break;
                }
                let r = run_job(prop, &jobs[i], lim, plugin);
                *results[i].lock().unwrap() = Some(r);
            });
        }
    });
    results.into_iter().map(|m| m.into_inner().unwrap().expect("job result")).collect()
}

/// Replays a failure in two fresh processes. Ok(observation) if both agree and still fail.
fn confirm(prop: &str, f: &Value, plugin: &Option<String>, timeout_s: u64) -> Result<Value, String> {
    let mut obs = vec![];
    for _ in 0..2 {
        let mut args: Vec<String> = vec![
            "--child-replay".into(),
            f["scenario"].as_str().unwrap_or("").into(),
            "--mode".into(),
            f["mode"].as_str().unwrap_or("concurrent").into(),
            "--schedule".into(),
            f["schedule"].as_str().unwrap_or("").into(),
        ];
        if let Some(p) = plugin {
            args.push("--plugin".into());
            args.push(p.clone());
        }
        let out = run_child(prop, &args, timeout_s);
        if out.timed_out {
            return Err("replay child timed out".into());
        }
        let Some((_, o)) = out.lines.iter().find(|(p, _)| *p == 'O') else {
            return Err(format!("replay child gave no observation ({}): {}", out.status, out.stderr_tail));
        };
        obs.push(o.clone());
    }
    if obs[0] != obs[1] {
        return Err(format!("two replays of the same schedule differ: {} vs {}", obs[0], obs[1]));
    }
    if let Some(d) = obs[0]["diverged"].as_str() {
        return Err(format!("replay diverged from the recorded schedule: {}", d));
    }
    if obs[0]["failed"].as_bool() != Some(true) {
        return Err(format!("the failure did not reproduce under the recorded schedule: {}", obs[0]));
    }
    if obs[0]["oracle"] != f["oracle"] || obs[0]["kind"] != f["kind"] {
        return Err(format!("replay fails differently: explored {} / {}, replay {} / {}", f["oracle"], f["kind"], obs[0]["oracle"], obs[0]["kind"]));
    }
    Ok(obs[0].clone())
}

fn build_plugin() -> Result<String, String> {
    let root = vcommon::verif_root();
    let target = root.join(".work").join("vconc-plugin-target");
    let _ = std::fs::create_dir_all(&target);
    let out = std::process::Command::new("cargo")
        .current_dir("/repo")
        .args(["build", "--offline", "--locked", "-q", "--manifest-path", "/repo/savefile-abi-min-lib-impl/Cargo.toml", "--target-dir"])
        .arg(&target)
        .env_remove("CARGO_TARGET_DIR")
        .env_remove("RUSTFLAGS")
        .env_remove("CARGO_ENCODED_RUSTFLAGS")
        .output()
        .map_err(|e| format!("cannot run cargo: {}", e))?;
    if !out.status.success() {
        let e = String::from_utf8_lossy(&out.stderr);
        return Err(format!("cargo build of savefile-abi-min-lib-impl failed: {}", e.chars().take(600).collect::<String>()));
    }
    let so = target.join("debug").join("libsavefile_abi_min_lib_impl.so");
    if !so.exists() {
        return Err(format!("{} not produced", so.display()));
    }
    Ok(so.to_string_lossy().to_string())
}

struct SelfTest {
    report: Value,
}

/// Detection self-test of the explorer itself (not part of the C16 verdict): the injected
/// lock-order inversion must be reported as a deadlock and the lost update as a result mismatch,
/// each with a schedule that reproduces twice.
fn selftest(prop: &str, lim: &Limits) -> SelfTest {
    let mut rep = Map::new();
    for (id, want_oracle) in [("X1", "deadlock"), ("X2", "post_state_mismatch")] {
        let mut per_bound = vec![];
        let mut found: Option<(u32, Value)> = None;
        let mut prev = None;
        for b in 0..=2u32 {
            let r = run_job(prop, &Job { scenario: id, bound: Some(b), prev }, lim, &None);
            per_bound.push(json!({"bound": b, "schedules": r.executions, "exhausted": r.exhausted, "failed": r.failure.is_some()}));
            if let Some(f) = r.failure {
                found = Some((b, f));
                break;
            }
            prev = Some(b);
        }
        let Some((b, f)) = found else {
            vcommon::machinery_error(&format!("self-test {}: the injected defect was not found with up to 2 preemptions", id));
        };
        if f["oracle"].as_str() != Some(want_oracle) {
            vcommon::machinery_error(&format!("self-test {}: expected oracle {}, got {}", id, want_oracle, f));
        }
        if b == 0 {
            vcommon::machinery_error(&format!("self-test {}: failure without any preemption, the self-test harness is wrong: {}", id, f));
        }
        match confirm(prop, &f, &None, lim.child_timeout_s) {
            Ok(_) => {}
            Err(e) => vcommon::machinery_error(&format!("self-test {}: {}", id, e)),
        }
        rep.insert(
            id.to_string(),
            json!({
                "expected": want_oracle, "found_at_bound": b, "executions_before_failure": f["executions_before"],
                "schedule": f["schedule"], "detail": f["detail"], "replayed_twice_identical": true, "per_bound": per_bound,
            }),
        );
    }
    SelfTest { report: Value::Object(rep) }
}

fn replay_mode(prop: &str, path: &std::path::Path) -> ! {
    let text = std::fs::read_to_string(path).unwrap_or_else(|e| vcommon::machinery_error(&format!("cannot read {}: {}", path.display(), e)));
    let doc: Value = serde_json::from_str(&text).unwrap_or_else(|e| vcommon::machinery_error(&format!("bad replay file: {}", e)));
    let case = &doc["case"];
    let scenario = case["scenario"].as_str().unwrap_or("");
    let Some(s) = scen::by_id(scenario) else { vcommon::machinery_error("replay file names an unknown scenario") };
    let plugin = if s.needs_plugin {
        match build_plugin() {
            Ok(p) => Some(p),
            Err(e) => vcommon::machinery_error(&e),
        }
    } else {
        None
    };
    println!("replaying scenario {} ({}), mode {}, schedule [{}]", scenario, s.title, case["mode"].as_str().unwrap_or("concurrent"), case["schedule"].as_str().unwrap_or(""));
    match confirm(prop, case, &plugin, 600) {
        Ok(o) => {
            println!("still fails (two identical replays): oracle={} kind={} locks={}", o["oracle"], o["kind"], o["locks"]);
            println!("  {}", o["detail"].as_str().unwrap_or(""));
            println!("  observed: {}", o["observed"]);
            println!("  reference: {}", o["reference"]);
            std::process::exit(1)
        }
        Err(e) => {
            if e.starts_with("the failure did not reproduce") {
                println!("passes now: {}", e);
                std::process::exit(0)
            }
            if e.starts_with("replay fails differently") {
                println!("fails, but differently: {}", e);
                std::process::exit(1)
            }
            vcommon::machinery_error(&format!("replay: {}", e))
        }
    }
}

fn main() {
    let args = vcommon::parse_args();
    if args.property != "C16" {
        vcommon::machinery_error(&format!("vconc serves C16, not {}", args.property));
    }
    if let Some(id) = opt(&args.extra, "--child-explore") {
        child_explore(child_args(&args.extra, id));
    }
    if let Some(id) = opt(&args.extra, "--child-replay") {
        child_replay(child_args(&args.extra, id));
    }
    if let Some(id) = opt(&args.extra, "--child-real") {
        child_real(child_args(&args.extra, id));
    }
    let prop = args.property.clone();
    if let Some(p) = &args.replay {
        replay_mode(&prop, p);
    }
    let thorough = args.tier == vcommon::Tier::Thorough;
    let lim = Limits {
        chunk: 20_000,
        max_exec_per_job: if thorough { 6_000_000 } else { 400_000 },
        child_timeout_s: if thorough { 1500 } else { 120 },
    };
    if args.extra.iter().any(|a| a == "--selftest") {
        let st = selftest(&prop, &lim);
        println!("{}", serde_json::to_string_pretty(&st.report).unwrap());
        println!("SELFTEST OK");
        std::process::exit(0);
    }
    // the compile-time Sync probe must be able to answer both ways, and the positive control
    // interface must be shareable
    if !ifaces::PROBE_CONTROL_TRUE || ifaces::PROBE_CONTROL_FALSE {
        vcommon::machinery_error("the compile-time Sync probe does not discriminate (u32 / Cell<u32> controls)");
    }
    if !ifaces::TALLYSYNC_CONN_IS_SYNC {
        vcommon::machinery_error("AbiConnection<dyn TallySync> (TallySync: Send + Sync) is not Sync: the positive control of the shareability family cannot run");
    }
    let mut run = vcommon::Run::new(&args, "model_checking");
    let workers = std::thread::available_parallelism().map(|n| n.get()).unwrap_or(4).min(16);

    // 0. the explorer must find the two injected defects
    let st = selftest(&prop, &lim);

    // 1. optional real cdylib
    let mut plugin = None;
    let mut plugin_note = "not built in the quick tier".to_string();
    if thorough {
        match build_plugin() {
            Ok(p) => {
                plugin_note = format!("built {}", p);
                plugin = Some(p);
            }
            Err(e) => {
                plugin_note = format!("S4p skipped: {}", e);
                run.notes.push(plugin_note.clone());
            }
        }
    }

    // 2. jobs: scenario x bound (iterative context bounding)
    let scenarios: Vec<Scenario> = scen::all().into_iter().filter(|s| !s.selftest && (thorough || !s.thorough_only) && (!s.needs_plugin || plugin.is_some())).collect();
    let mut jobs = vec![];
    for s in &scenarios {
        let mut prev = None;
        for b in s.bounds(thorough) {
            jobs.push(Job { scenario: s.id, bound: b, prev });
            prev = b;
        }
    }
    let results = run_jobs(&prop, &jobs, &lim, &plugin, workers);

    // 3. aggregate
    let mut per_scenario = Map::new();
    let mut states = 0u64;
    let mut transitions = 0u64;
    let mut validated = 0u64;
    let mut evaluations = 0u64;
    let mut nontrivial = 0u64;
    let mut ops = 0u64;
    let mut exhaustive = true;
    let mut all_outcomes = 0u64;
    let mut samples: Vec<Value> = vec![];
    for s in &scenarios {
        let mut bounds = vec![];
        let mut outcomes: BTreeSet<String> = BTreeSet::new();
        let mut reported = false;
        let mut prev_total: Option<u64> = None;
        let mut contended_any = 0u64;
        let mut completed_bound = "none".to_string();
        for (j, r) in jobs.iter().zip(results.iter()) {
            if j.scenario != s.id {
                continue;
            }
            let bname = bound_name(j.bound);
            if let Some(f) = &r.failure {
                if !reported {
                    reported = true;
                    match confirm(&prop, f, &plugin, lim.child_timeout_s) {
                        Ok(o) => {
                            let mut real_run = Value::Null;
                            if f["kind"].as_str() == Some("self_reentrant") {
                                // cross-check without shim and scheduler: the real mutex must hang
                                let mut a: Vec<String> = vec!["--child-real".into(), s.id.into()];
                                if let Some(p) = &plugin {
                                    a.push("--plugin".into());
                                    a.push(p.clone());
                                }
                                let out = run_child(&prop, &a, 3);
                                if out.lines.iter().any(|(p, v)| *p == 'O' && v["completed"].as_bool() == Some(true)) {
                                    vcommon::machinery_error(&format!("scenario {}: the shim reported a self-deadlock but the same operations complete on the real code without the shim", s.id));
                                }
                                real_run = json!(if out.timed_out { "same operations on the real OS thread without shim or scheduler: no progress, killed after 3 s" } else { "real run ended abnormally" });
                            }
                            let tags = vcommon::tags(&[
                                ("scenario", s.id.to_string()),
                                ("kind", f["kind"].as_str().unwrap_or("").to_string()),
                                ("lock", f["locks"].as_str().unwrap_or("").to_string()),
                                ("mode", f["mode"].as_str().unwrap_or("").split(':').next().unwrap_or("").to_string()),
                            ]);
                            run.violation(vcommon::Violation {
                                oracle: f["oracle"].as_str().unwrap_or("").to_string(),
                                tags,
                                summary: format!(
                                    "scenario {} ({}), bound {}, schedule [{}]: {}",
                                    s.id,
                                    s.title,
                                    bname,
                                    f["schedule"].as_str().unwrap_or(""),
                                    f["detail"].as_str().unwrap_or("")
                                ),
                                case: json!({
                                    "scenario": s.id, "title": s.title, "mode": f["mode"], "schedule": f["schedule"],
                                    "bound": bname, "oracle": f["oracle"], "kind": f["kind"], "locks": f["locks"],
                                    "setup": format!("{:?}", s.setup), "threads": format!("{:?}", s.threads), "post": format!("{:?}", s.post),
                                    "observed": o["observed"], "reference": o["reference"], "detail": f["detail"],
                                    "real_run_without_shim": real_run,
                                }),
                            });
                        }
                        Err(e) => vcommon::machinery_error(&format!("scenario {} bound {}: {} (failure line: {})", s.id, bname, e, f)),
                    }
                }
            } else {
                // consistency of iterative bounding: bound p = bound p-1 plus the schedules that
                // use more preemptions
                if let Some(pt) = prev_total {
                    if !r.cap_hit && r.executions != pt + r.new_executions {
                        vcommon::machinery_error(&format!(
                            "scenario {} bound {}: {} schedules, but previous bound had {} and {} use more preemptions",
                            s.id, bname, r.executions, pt, r.new_executions
                        ));
                    }
                }
                if r.distinct_schedules != r.executions {
                    vcommon::machinery_error(&format!("scenario {} bound {}: {} executions but {} distinct schedules", s.id, bname, r.executions, r.distinct_schedules));
                }
                if r.exhausted {
                    completed_bound = bname.clone();
                    prev_total = Some(r.executions);
                } else {
                    prev_total = None;
                }
            }
            if r.cap_hit {
                exhaustive = false;
                run.notes.push(format!("scenario {} bound {}: execution cap {} hit, not exhaustive at this bound", s.id, bname, lim.max_exec_per_job));
            }
            states += r.new_executions;
            nontrivial += r.new_contended;
            transitions += r.decisions;
            validated += r.validated;
            evaluations += r.evaluations;
            ops += r.ops;
            contended_any += r.contended;
            for k in r.outcomes.keys() {
                outcomes.insert(k.clone());
            }
            for x in &r.samples {
                if samples.len() < 14 && (samples.iter().filter(|y| y["scenario"] == x["scenario"]).count() < 1 || x["blocked_acquisitions"].as_u64().unwrap_or(0) > 0 && samples.iter().filter(|y| y["scenario"] == x["scenario"]).count() < 2) {
                    samples.push(x.clone());
                }
            }
            bounds.push(json!({
                "bound": bname, "schedules": r.executions, "new_at_this_bound": r.new_executions,
                "with_blocked_acquisition": r.contended, "scheduling_decisions": r.decisions,
                "max_depth": r.max_depth, "exhausted": r.exhausted, "processes": r.chunks,
                "by_preemptions": r.histogram, "failed": r.failure.is_some(),
            }));
        }
        // vacuity guards for the racing scenarios
        let not_shareable = outcomes.len() == 1 && outcomes.contains(scen::NOT_SHAREABLE);
        if s.share != scen::Share::No {
            let probe = match s.share {
                scen::Share::Tally => ifaces::TALLY_CONN_IS_SYNC,
                _ => ifaces::TALLYSYNC_CONN_IS_SYNC,
            };
            if !reported && probe == not_shareable {
                vcommon::machinery_error(&format!("scenario {}: the compile-time probe says Sync={} but the sharing helper answered the opposite", s.id, probe));
            }
        }
        if !reported && s.threads.len() >= 2 && !not_shareable {
            if outcomes.len() < 2 {
                vcommon::machinery_error(&format!("scenario {}: only {} distinct outcome(s): the threads never raced", s.id, outcomes.len()));
            }
            if contended_any == 0 {
                vcommon::machinery_error(&format!("scenario {}: no execution with a blocked acquisition or overlapping calls", s.id));
            }
        }
        all_outcomes += outcomes.len() as u64;
        let maxneg = jobs.iter().zip(results.iter()).filter(|(j, _)| j.scenario == s.id).map(|(_, r)| r.max_negotiations_per_key).max().unwrap_or(0);
        per_scenario.insert(
            s.id.to_string(),
            json!({
                "title": s.title, "threads": s.threads.len(),
                "setup": format!("{:?}", s.setup), "thread_ops": format!("{:?}", s.threads), "post": format!("{:?}", s.post),
                "bounds": bounds, "completed_bound": completed_bound,
                "distinct_outcomes": outcomes.len(), "outcomes": outcomes.iter().take(12).collect::<Vec<_>>(),
                "max_negotiations_per_cache_key": maxneg,
                "shared_connection": match s.share {
                    scen::Share::No => Value::Null,
                    _ if not_shareable => json!("not_shareable: AbiConnection of this interface is not Sync, safe code cannot make overlapping calls (trivially fine)"),
                    _ => json!("shareable: Arc<AbiConnection<..>> moved into the threads by safe code"),
                },
                "violation": reported,
            }),
        );
    }
    if samples.is_empty() {
        samples.push(json!("no completed execution"));
    }
    run.exhaustive = exhaustive;
    let mut cov = Map::new();
    cov.insert("states".into(), json!(states.max(1)));
    cov.insert("transitions".into(), json!(transitions));
    cov.insert("traces_validated_against_impl".into(), json!(validated));
    cov.insert("evaluations".into(), json!(evaluations));
    cov.insert("distinct_nontrivial".into(), json!(nontrivial));
    cov.insert(
        "rule".into(),
        json!("state = (scenario, schedule): every schedule of the scenario's tasks with at most p preemptions, enumerated depth first for p = 0,1,2(,3,unbounded); a schedule is counted once, at the smallest bound that contains it. transitions = scheduling decisions. non-trivial = during the execution at least one task was BLOCKED in Guard::lock on a cache mutex held by another task (seen by the scheduler as a waiting task that is not runnable), or, in the shareability scenarios Y*, two calls on the shared connection overlapped (another task ran between a call's read and its write)"),
    );
    cov.insert("samples".into(), Value::Array(samples));
    cov.insert("exhaustive".into(), json!(exhaustive));
    cov.insert("implementation_operations".into(), json!(ops));
    cov.insert("distinct_outcomes".into(), json!(all_outcomes));
    cov.insert("preemption_bounds".into(), json!(if thorough { "0..3 for all scenarios, then unbounded (2-thread scenarios) or 4 and 5 (3-thread scenarios); see scenarios.*.bounds" } else { "0..2" }));
    cov.insert("scenarios".into(), Value::Object(per_scenario));
    cov.insert("explorer_selftest".into(), st.report);
    cov.insert(
        "shareability_probe".into(),
        json!({
            "AbiConnection<dyn Tally> is Sync (Tally: Send, Cell/RefCell state)": ifaces::TALLY_CONN_IS_SYNC,
            "AbiConnection<dyn TallySync> is Sync (TallySync: Send + Sync, atomic state)": ifaces::TALLYSYNC_CONN_IS_SYNC,
            "control u32 is Sync": ifaces::PROBE_CONTROL_TRUE,
            "control Cell<u32> is Sync": ifaces::PROBE_CONTROL_FALSE,
        }),
    );
    cov.insert("cdylib".into(), json!(plugin_note));
    cov.insert("caps".into(), json!({"executions_per_scenario_and_bound": lim.max_exec_per_job, "executions_per_process": lim.chunk, "scheduling_decisions_per_execution": MAX_STEPS}));
    let assumptions = vec![
        "scheduling points are the operations on the three cache mutexes (before acquire, before release, blocking), thread spawn/join and task exit; the code between two scheduling points is atomic".to_string(),
        "memory-ordering effects are not modelled (sequentially consistent, one OS thread); data races on unguarded data are invisible".to_string(),
        "code of a dynamically loaded library (including its own copy of the savefile-abi caches) is atomic".to_string(),
        "the verif_hooks callbacks in Guard::lock are the only way the cache mutexes are taken; a cache mutex taken elsewhere is outside the model".to_string(),
        "closed harnesses of 2-3 threads with 1-3 operations each; preemption bound as stated".to_string(),
    ];
    run.finish(cov, assumptions)
}
