//! The ABI interfaces and implementations the C16 scenarios are built from. Small on purpose:
//! every method kind that makes savefile-abi create *further* connections is present
//! (closure argument, boxed trait argument, boxed trait return value), plus a caller/callee
//! version skew so that the negotiated template is not trivial.
#![allow(non_local_definitions)]
use crate::shim;
use savefile_abi::{AbiConnection, AbiExportable, AbiProtocol};
use savefile_derive::{savefile_abi_export, savefile_abi_exportable};

// ---------------------------------------------------------------------------------------------
// interface A: Calc (+ nested interface Source, + closure wrapper interfaces made by the macro)

#[savefile_abi_exportable(version = 0)]
pub trait Source: Send + Sync {
    fn next(&self) -> u32;
}

#[savefile_abi_exportable(version = 0)]
pub trait Calc: Send + Sync {
    fn add(&self, a: u32, b: u32) -> u32;
    /// closure argument: the callee creates a connection to the caller's closure wrapper
    fn apply(&self, f: &dyn Fn(u32) -> u32, x: u32) -> u32;
    /// boxed trait argument: the callee creates an `AbiConnection<dyn Source>`
    fn feed(&self, src: Box<dyn Source>) -> u32;
    /// boxed trait return value: the caller creates an `AbiConnection<dyn Source>`
    fn make(&self, base: u32) -> Box<dyn Source>;
    fn concat(&self, s: &str, n: u32) -> String;
}

pub struct Counter(pub std::sync::atomic::AtomicU32);
impl Counter {
    pub fn new(v: u32) -> Counter {
        Counter(std::sync::atomic::AtomicU32::new(v))
    }
}
impl Source for Counter {
    fn next(&self) -> u32 {
        self.0.fetch_add(1, std::sync::atomic::Ordering::SeqCst)
    }
}

#[derive(Default)]
pub struct CalcImpl;
impl Calc for CalcImpl {
    fn add(&self, a: u32, b: u32) -> u32 {
        a.wrapping_add(b)
    }
    fn apply(&self, f: &dyn Fn(u32) -> u32, x: u32) -> u32 {
        f(x).wrapping_add(f(x + 1))
    }
    fn feed(&self, src: Box<dyn Source>) -> u32 {
        src.next() * 100 + src.next()
    }
    fn make(&self, base: u32) -> Box<dyn Source> {
        Box::new(Counter::new(base))
    }
    fn concat(&self, s: &str, n: u32) -> String {
        format!("{}#{}", s, n)
    }
}
savefile_abi_export!(CalcImpl, Calc);

// ---------------------------------------------------------------------------------------------
// interface B: Text

#[savefile_abi_exportable(version = 0)]
pub trait Text: Send + Sync {
    fn shout(&self, s: String) -> String;
    fn len_of(&self, s: &str) -> usize;
}
#[derive(Default)]
pub struct TextImpl;
impl Text for TextImpl {
    fn shout(&self, s: String) -> String {
        s.to_uppercase()
    }
    fn len_of(&self, s: &str) -> usize {
        s.len()
    }
}
savefile_abi_export!(TextImpl, Text);

// ---------------------------------------------------------------------------------------------
// interface C: Versioned, caller at version 1 talking to an implementation at version 0

pub mod ver0 {
    use savefile_derive::{savefile_abi_exportable, Savefile};
    #[derive(Savefile, Clone, Debug)]
    pub struct Arg {
        pub x: u32,
    }
    #[savefile_abi_exportable(version = 0)]
    pub trait Versioned: Send + Sync {
        fn get(&self, a: Arg) -> u32;
        fn sum(&self, v: &[u32]) -> u32;
    }
}
pub mod ver1 {
    use savefile_derive::{savefile_abi_exportable, Savefile};
    #[derive(Savefile, Clone, Debug)]
    pub struct Arg {
        pub x: u32,
        #[savefile_versions = "1.."]
        pub y: u32,
    }
    #[savefile_abi_exportable(version = 1)]
    pub trait Versioned: Send + Sync {
        fn get(&self, a: Arg) -> u32;
        fn sum(&self, v: &[u32]) -> u32;
        /// only known to the newer caller
        fn extra(&self) -> u32;
    }
}
pub struct VerImpl;
impl ver0::Versioned for VerImpl {
    fn get(&self, a: ver0::Arg) -> u32 {
        a.x + 1000
    }
    fn sum(&self, v: &[u32]) -> u32 {
        v.iter().sum()
    }
}

// ---------------------------------------------------------------------------------------------
// reentrancy: an implementation whose *method* creates a connection, and one whose
// *constructor* (run by savefile-abi through CreateInstance) does.

#[savefile_abi_exportable(version = 0)]
pub trait Outer: Send + Sync {
    fn run(&self, x: u32) -> u32;
    fn run_cb(&self, f: &dyn Fn(u32) -> u32, x: u32) -> u32;
}
#[derive(Default)]
pub struct OuterImpl;
impl Outer for OuterImpl {
    fn run(&self, x: u32) -> u32 {
        let t = AbiConnection::<dyn Text>::from_boxed_trait(Box::new(TextImpl)).expect("nested Text connection");
        t.len_of("abc") as u32 + x
    }
    fn run_cb(&self, f: &dyn Fn(u32) -> u32, x: u32) -> u32 {
        let c = new_calc_plain().expect("nested Calc connection");
        c.apply(f, x)
    }
}
savefile_abi_export!(OuterImpl, Outer);

#[savefile_abi_exportable(version = 0)]
pub trait Reent: Send + Sync {
    fn val(&self, x: u32) -> u32;
}
pub struct ReentImpl {
    inner: AbiConnection<dyn Text>,
}
impl Default for ReentImpl {
    /// Runs inside savefile-abi's `CreateInstance` handler.
    fn default() -> Self {
        ReentImpl {
            inner: AbiConnection::<dyn Text>::from_boxed_trait(Box::new(TextImpl)).expect("Text connection in constructor"),
        }
    }
}
impl Reent for ReentImpl {
    fn val(&self, x: u32) -> u32 {
        self.inner.len_of("four") as u32 + x
    }
}
savefile_abi_export!(ReentImpl, Reent);

// ---------------------------------------------------------------------------------------------
// Entry points that count the version negotiation (InterrogateVersion is the first message of
// the three-message template negotiation) and otherwise forward to the macro generated entry.
// The cache key of a connection is (TypeId, entry), so all threads using the same counting
// entry collide on one key exactly like with the plain entry.

unsafe extern "C" fn counted_calc(flag: AbiProtocol) {
    if let AbiProtocol::InterrogateVersion { .. } = &flag {
        shim::note_negotiation("Calc");
    }
    unsafe { (<dyn Calc as AbiExportable>::ABI_ENTRY)(flag) }
}
unsafe extern "C" fn counted_text(flag: AbiProtocol) {
    if let AbiProtocol::InterrogateVersion { .. } = &flag {
        shim::note_negotiation("Text");
    }
    unsafe { (<dyn Text as AbiExportable>::ABI_ENTRY)(flag) }
}
unsafe extern "C" fn counted_ver(flag: AbiProtocol) {
    if let AbiProtocol::InterrogateVersion { .. } = &flag {
        shim::note_negotiation("Versioned");
    }
    unsafe { (<dyn ver0::Versioned as AbiExportable>::ABI_ENTRY)(flag) }
}

pub type R<T> = Result<T, savefile::SavefileError>;

pub fn new_calc() -> R<AbiConnection<dyn Calc>> {
    let b: Box<dyn Calc> = Box::new(CalcImpl);
    unsafe { AbiConnection::<dyn Calc>::from_boxed_trait_for_test(counted_calc, b) }
}
pub fn new_calc_plain() -> R<AbiConnection<dyn Calc>> {
    AbiConnection::<dyn Calc>::from_boxed_trait(Box::new(CalcImpl))
}
pub fn new_text() -> R<AbiConnection<dyn Text>> {
    let b: Box<dyn Text> = Box::new(TextImpl);
    unsafe { AbiConnection::<dyn Text>::from_boxed_trait_for_test(counted_text, b) }
}
pub fn new_ver() -> R<AbiConnection<dyn ver1::Versioned>> {
    let b: Box<dyn ver0::Versioned> = Box::new(VerImpl);
    unsafe { AbiConnection::<dyn ver1::Versioned>::from_boxed_trait_for_test(counted_ver, b) }
}
pub fn new_outer() -> R<AbiConnection<dyn Outer>> {
    AbiConnection::<dyn Outer>::from_boxed_trait(Box::new(OuterImpl))
}

/// The observable part of a negotiated template: effective version, and per caller method the
/// callee's method number and the by-reference compatibility mask.
pub fn template_facts<T: ?Sized>(c: &AbiConnection<T>) -> String {
    let t = &c.template;
    let ms: Vec<String> = t
        .methods
        .iter()
        .map(|m| {
            format!(
                "{}:{}:{:x}",
                m.method_name,
                m.callee_method_number.map(|n| n.to_string()).unwrap_or_else(|| "-".into()),
                m.compatibility_mask
            )
        })
        .collect();
    format!("v{}[{}]", t.effective_version, ms.join(","))
}

/// Variant name of the error only (never the message text).
pub fn err_kind(e: &savefile::SavefileError) -> String {
    let d = format!("{:?}", e);
    d.chars().take_while(|c| c.is_ascii_alphanumeric() || *c == '_').collect()
}

// ---------------------------------------------------------------------------------------------
// Shareability family: `AbiConnection<T>` gives no mutual exclusion, so it may be `Sync` only when
// the implementation behind it is. `Tally: Send` (NOT Sync) keeps its state in Cell / RefCell and
// does read – scheduling point – write; `TallySync: Send + Sync` is the positive control with an
// atomic counter. Whether safe code can share a connection between threads is decided at compile
// time by the trait system, so the scenarios first ask the compiler (probe below) and share the
// connection only through a helper that exists only when the bound holds.

#[savefile_abi_exportable(version = 0)]
pub trait Tally: Send {
    fn bump(&self, by: u32) -> u32;
    fn record(&self, v: u32) -> u32;
    fn total(&self) -> u32;
    fn recorded(&self) -> u32;
}
#[derive(Default)]
pub struct TallyImpl {
    count: std::cell::Cell<u32>,
    log: std::cell::RefCell<Vec<u32>>,
}
impl Tally for TallyImpl {
    fn bump(&self, by: u32) -> u32 {
        shim::note_impl("r");
        let v = self.count.get();
        shim::sched_point();
        self.count.set(v + by);
        shim::note_impl("w");
        by
    }
    fn record(&self, v: u32) -> u32 {
        shim::note_impl("r");
        let mut l = self.log.borrow_mut();
        shim::sched_point();
        l.push(v);
        shim::note_impl("w");
        v
    }
    fn total(&self) -> u32 {
        self.count.get()
    }
    fn recorded(&self) -> u32 {
        self.log.borrow().iter().sum::<u32>() * 100 + self.log.borrow().len() as u32
    }
}

#[savefile_abi_exportable(version = 0)]
pub trait TallySync: Send + Sync {
    fn bump(&self, by: u32) -> u32;
    fn record(&self, v: u32) -> u32;
    fn total(&self) -> u32;
    fn recorded(&self) -> u32;
}
#[derive(Default)]
pub struct TallySyncImpl {
    count: std::sync::atomic::AtomicU32,
    sum: std::sync::atomic::AtomicU32,
    n: std::sync::atomic::AtomicU32,
}
impl TallySync for TallySyncImpl {
    fn bump(&self, by: u32) -> u32 {
        shim::note_impl("r");
        shim::sched_point();
        self.count.fetch_add(by, std::sync::atomic::Ordering::SeqCst);
        shim::note_impl("w");
        by
    }
    fn record(&self, v: u32) -> u32 {
        shim::note_impl("r");
        shim::sched_point();
        self.sum.fetch_add(v, std::sync::atomic::Ordering::SeqCst);
        self.n.fetch_add(1, std::sync::atomic::Ordering::SeqCst);
        shim::note_impl("w");
        v
    }
    fn total(&self) -> u32 {
        self.count.load(std::sync::atomic::Ordering::SeqCst)
    }
    fn recorded(&self) -> u32 {
        self.sum.load(std::sync::atomic::Ordering::SeqCst) * 100 + self.n.load(std::sync::atomic::Ordering::SeqCst)
    }
}

pub fn new_tally() -> R<AbiConnection<dyn Tally>> {
    AbiConnection::<dyn Tally>::from_boxed_trait(Box::new(TallyImpl::default()))
}
pub fn new_tally_sync() -> R<AbiConnection<dyn TallySync>> {
    AbiConnection::<dyn TallySync>::from_boxed_trait(Box::new(TallySyncImpl::default()))
}

/// Compile-time probe (inherent-impl specialisation): `Probe::<X>::IS_SYNC` resolves to the
/// inherent constant when `X: Sync` holds and to the blanket trait default otherwise.
pub struct Probe<T: ?Sized>(std::marker::PhantomData<T>);
pub trait ProbeFallback {
    const IS_SYNC: bool = false;
}
impl<T: ?Sized> ProbeFallback for Probe<T> {}
impl<T: ?Sized + Sync> Probe<T> {
    pub const IS_SYNC: bool = true;
}
pub const TALLY_CONN_IS_SYNC: bool = <Probe<AbiConnection<dyn Tally>>>::IS_SYNC;
pub const TALLYSYNC_CONN_IS_SYNC: bool = <Probe<AbiConnection<dyn TallySync>>>::IS_SYNC;
// the probe itself must be able to answer both ways
pub const PROBE_CONTROL_TRUE: bool = <Probe<u32>>::IS_SYNC;
pub const PROBE_CONTROL_FALSE: bool = <Probe<std::cell::Cell<u32>>>::IS_SYNC;

/// Sharing a value between shuttle threads by the only means safe code has: `Arc<C>` moved into
/// `thread::spawn`, which compiles only for `C: Send + Sync`. The inherent method exists only
/// under that bound; otherwise method resolution falls through to the trait default, which
/// answers `None` (= safe code cannot share this connection).
pub type Body<C> = Box<dyn Fn(&C) -> Vec<String> + Send + 'static>;
pub struct Sharer<C>(pub std::marker::PhantomData<C>);
pub trait NotShareable<C> {
    fn run_shared(&self, _c: &std::sync::Arc<C>, _bodies: Vec<Body<C>>) -> Option<Vec<Vec<String>>> {
        None
    }
}
impl<C> NotShareable<C> for Sharer<C> {}
impl<C: Send + Sync + 'static> Sharer<C> {
    pub fn run_shared(&self, c: &std::sync::Arc<C>, bodies: Vec<Body<C>>) -> Option<Vec<Vec<String>>> {
        let mut handles = vec![];
        for b in bodies {
            let c = c.clone();
            handles.push(shuttle::thread::spawn(move || b(&c)));
        }
        Some(handles.into_iter().map(|h| h.join().unwrap_or_else(|_| vec!["thread-panicked".into()])).collect())
    }
}
