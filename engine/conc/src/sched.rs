//! Preemption-bounded depth-first scheduler (iterative context bounding) and the replay
//! scheduler. Both implement `shuttle::scheduler::Scheduler`.
//!
//! A *scheduling point* is every call of `next_task` by shuttle's engine (before each lock
//! acquisition, before each lock release, at thread spawn, at blocking, at task exit). At a point
//! where the task that ran last is still runnable, choosing another task costs one preemption;
//! when the budget is spent only the running task is offered. The running task is always the
//! first option, so within one bound schedules with fewer preemptions come first.
use crate::shim::SHIM;
use shuttle::scheduler::{Schedule, Scheduler, Task, TaskId};
use std::cell::RefCell;
use std::rc::Rc;

#[derive(Clone, Debug)]
pub struct Level {
    pub options: Vec<u32>,
    pub idx: usize,
}

#[derive(Default, Debug)]
pub struct SchedShared {
    pub executions: u64,
    pub decisions: u64,
    /// DFS ran out of alternatives: the space of this bound is completely enumerated
    pub exhausted: bool,
    /// stopped because the per-process execution budget was used up (resume with `levels`)
    pub chunk_end: bool,
    pub stop_requested: bool,
    pub nondeterminism: Option<String>,
    /// snapshot of the DFS stack for resumption (valid when chunk_end)
    pub levels: Vec<Level>,
    pub max_depth: usize,
}

pub struct PbDfs {
    bound: Option<u32>,
    max_exec: u64,
    levels: Vec<Level>,
    step: usize,
    used: u32,
    started: bool,
    /// the stack was loaded from a previous process: it already designates the next schedule
    resumed: bool,
    pub shared: Rc<RefCell<SchedShared>>,
}

impl PbDfs {
    pub fn new(bound: Option<u32>, max_exec: u64, resume: Option<Vec<Level>>) -> PbDfs {
        PbDfs {
            bound,
            max_exec,
            resumed: resume.is_some(),
            levels: resume.unwrap_or_default(),
            step: 0,
            used: 0,
            started: false,
            shared: Rc::new(RefCell::new(SchedShared::default())),
        }
    }
    fn backtrack(&mut self) {
        while let Some(l) = self.levels.last_mut() {
            if l.idx + 1 < l.options.len() {
                l.idx += 1;
                return;
            }
            self.levels.pop();
        }
    }
}

fn note_blocked(ids: &[u32]) {
    SHIM.with(|s| {
        let mut s = s.borrow_mut();
        let blocked: Vec<u64> = s
            .waiting
            .iter()
            .filter(|(t, _)| !ids.contains(&(**t as u32)))
            .map(|(_, (_, req))| *req)
            .collect();
        for r in blocked {
            s.blocked_reqs.insert(r);
        }
    });
}

impl Scheduler for PbDfs {
    fn new_execution(&mut self) -> Option<Schedule> {
        let mut sh = self.shared.borrow_mut();
        if sh.stop_requested || sh.nondeterminism.is_some() {
            return None;
        }
        if self.started {
            if self.step != self.levels.len() {
                sh.nondeterminism = Some(format!(
                    "execution ended after {} decisions but the DFS stack has {} levels",
                    self.step,
                    self.levels.len()
                ));
                return None;
            }
            drop(sh);
            self.backtrack();
            sh = self.shared.borrow_mut();
            if self.levels.is_empty() {
                sh.exhausted = true;
                return None;
            }
        } else if self.resumed && self.levels.is_empty() {
            sh.exhausted = true;
            return None;
        }
        if sh.executions >= self.max_exec {
            sh.chunk_end = true;
            sh.levels = self.levels.clone();
            return None;
        }
        self.started = true;
        sh.executions += 1;
        self.step = 0;
        self.used = 0;
        SHIM.with(|s| {
            let mut s = s.borrow_mut();
            s.path.clear();
            s.preemptions = 0;
        });
        Some(Schedule::new(0))
    }

    fn next_task(&mut self, runnable: &[&Task], current: Option<TaskId>, _is_yielding: bool) -> Option<TaskId> {
        let ids: Vec<u32> = runnable.iter().map(|t| usize::from(t.id()) as u32).collect();
        note_blocked(&ids);
        let cur = current.map(|c| usize::from(c) as u32);
        let cur_runnable = cur.map(|c| ids.contains(&c)).unwrap_or(false);
        let options: Vec<u32> = if cur_runnable {
            let c = cur.unwrap();
            let budget_left = self.bound.map(|b| self.used < b).unwrap_or(true);
            if budget_left {
                std::iter::once(c).chain(ids.iter().copied().filter(|x| *x != c)).collect()
            } else {
                vec![c]
            }
        } else {
            ids.clone()
        };
        let choice = if self.step < self.levels.len() {
            let l = &self.levels[self.step];
            if l.options != options {
                self.shared.borrow_mut().nondeterminism = Some(format!(
                    "decision {}: options were {:?} when first seen, now {:?}",
                    self.step, l.options, options
                ));
                return None;
            }
            l.options[l.idx]
        } else {
            self.levels.push(Level { options: options.clone(), idx: 0 });
            options[0]
        };
        if cur_runnable && Some(choice) != cur {
            self.used += 1;
        }
        self.step += 1;
        {
            let mut sh = self.shared.borrow_mut();
            sh.decisions += 1;
            if self.step > sh.max_depth {
                sh.max_depth = self.step;
            }
        }
        let used = self.used;
        SHIM.with(|s| {
            let mut s = s.borrow_mut();
            s.path.push(choice);
            s.preemptions = used;
        });
        Some(TaskId::from(choice as usize))
    }

    fn next_u64(&mut self) -> u64 {
        0
    }
}

/// Follows a recorded list of task choices exactly. Past its end (only possible when the
/// recording stopped at a failure) it keeps running the current task, else the lowest id.
#[derive(Default, Debug)]
pub struct ReplayShared {
    pub diverged: Option<String>,
    pub ran_past_recording: bool,
    pub decisions: u64,
}
pub struct Replay {
    choices: Vec<u32>,
    step: usize,
    done: bool,
    used: u32,
    pub shared: Rc<RefCell<ReplayShared>>,
}
impl Replay {
    pub fn new(choices: Vec<u32>) -> Replay {
        Replay { choices, step: 0, done: false, used: 0, shared: Rc::new(RefCell::new(ReplayShared::default())) }
    }
}
impl Scheduler for Replay {
    fn new_execution(&mut self) -> Option<Schedule> {
        if self.done {
            return None;
        }
        self.done = true;
        SHIM.with(|s| {
            let mut s = s.borrow_mut();
            s.path.clear();
            s.preemptions = 0;
        });
        Some(Schedule::new(0))
    }
    fn next_task(&mut self, runnable: &[&Task], current: Option<TaskId>, _is_yielding: bool) -> Option<TaskId> {
        let ids: Vec<u32> = runnable.iter().map(|t| usize::from(t.id()) as u32).collect();
        note_blocked(&ids);
        let cur = current.map(|c| usize::from(c) as u32);
        let cur_runnable = cur.map(|c| ids.contains(&c)).unwrap_or(false);
        let choice = if self.step < self.choices.len() {
            let c = self.choices[self.step];
            if !ids.contains(&c) {
                self.shared.borrow_mut().diverged =
                    Some(format!("decision {}: recorded task {} is not runnable (runnable: {:?})", self.step, c, ids));
                return None;
            }
            c
        } else {
            self.shared.borrow_mut().ran_past_recording = true;
            if cur_runnable {
                cur.unwrap()
            } else {
                ids[0]
            }
        };
        if cur_runnable && Some(choice) != cur {
            self.used += 1;
        }
        self.step += 1;
        self.shared.borrow_mut().decisions += 1;
        let used = self.used;
        SHIM.with(|s| {
            let mut s = s.borrow_mut();
            s.path.push(choice);
            s.preemptions = used;
        });
        Some(TaskId::from(choice as usize))
    }
    fn next_u64(&mut self) -> u64 {
        0
    }
}
