//! The lock shim: savefile-abi's `Guard::lock` reports acquire/release of its three global cache
//! mutexes to the two callbacks below. Each real mutex is mirrored by a `shuttle::sync::Mutex<()>`
//! created per execution; the callbacks lock/unlock the mirror, so every lock operation is a
//! scheduling point, blocking and deadlock are modelled by shuttle, and the real `std` mutex
//! underneath is always uncontended.
//!
//! shuttle runs all tasks of an execution as coroutines on ONE OS thread, therefore a plain
//! `thread_local!` is shared by all tasks: everything here is keyed by shuttle task id.
use std::cell::RefCell;
use std::collections::{BTreeMap, BTreeSet};
use std::sync::Arc;

type SGuard = shuttle::sync::MutexGuard<'static, ()>;

pub const LOCK_NAMES: [&str; 3] = ["LIBRARY", "ENTRY", "TEMPLATES"];

#[derive(Clone, Copy, Debug, PartialEq, Eq)]
pub enum EvKind {
    Request,
    Acquired,
    Released,
}

#[derive(Default)]
pub struct Shim {
    /// true only while a shuttle execution of a scenario is running
    pub active: bool,
    pub addrs: Vec<usize>,
    mutexes: Vec<Arc<shuttle::sync::Mutex<()>>>,
    held: BTreeMap<(usize, usize), SGuard>,
    /// task -> (lock, request number) while the task is inside `lock()`
    pub waiting: BTreeMap<usize, (usize, u64)>,
    pub events: Vec<(EvKind, usize, usize)>,
    /// request numbers of acquisitions during which the task was seen blocked by the scheduler
    pub blocked_reqs: BTreeSet<u64>,
    reqno: u64,
    pub self_deadlock: Option<(usize, usize)>,
    pub unknown_addr: Option<usize>,
    /// (interface, task) in the order the negotiations started
    pub negotiations: Vec<(&'static str, usize)>,
    /// (tag, task) events recorded by the Tally implementations ("r" = read done, "w" = written)
    pub impl_events: Vec<(&'static str, usize)>,
    /// scheduler bookkeeping for the current execution
    pub path: Vec<u32>,
    pub preemptions: u32,
}

thread_local! {
    pub static SHIM: RefCell<Shim> = RefCell::new(Shim::default());
}

pub fn install() {
    let addrs = savefile_abi::verif_hooks::cache_addresses();
    SHIM.with(|s| s.borrow_mut().addrs = addrs.to_vec());
    savefile_abi::verif_hooks::set_lock_callbacks(Some(on_acquire), Some(on_release));
}

fn me() -> usize {
    usize::from(shuttle::current::me())
}

/// Start of an execution: forget everything cached in savefile-abi, fresh mirror mutexes.
pub fn begin_execution() {
    SHIM.with(|s| {
        let mut s = s.borrow_mut();
        if !s.held.is_empty() {
            drop(s);
            vcommon::machinery_error("lock shim: mirror guards left over from the previous execution");
        }
        s.mutexes = (0..3).map(|_| Arc::new(shuttle::sync::Mutex::new(()))).collect();
        s.waiting.clear();
        s.events.clear();
        s.blocked_reqs.clear();
        s.negotiations.clear();
        s.impl_events.clear();
        s.self_deadlock = None;
        s.active = true;
    });
    savefile_abi::verif_hooks::reset_caches();
}

pub struct ExecLog {
    pub events: Vec<(EvKind, usize, usize)>,
    pub blocked: usize,
    pub negotiations: Vec<(&'static str, usize)>,
    pub impl_events: Vec<(&'static str, usize)>,
    pub self_deadlock: Option<(usize, usize)>,
    pub leftover_guards: usize,
    pub path: Vec<u32>,
    pub preemptions: u32,
}

pub fn end_execution() -> ExecLog {
    SHIM.with(|s| {
        let mut s = s.borrow_mut();
        s.active = false;
        if let Some(a) = s.unknown_addr {
            drop(s);
            vcommon::machinery_error(&format!("Guard::lock reported a mutex at {:#x} that verif_hooks::cache_addresses() does not list: the lock model is incomplete", a));
        }
        ExecLog {
            events: std::mem::take(&mut s.events),
            blocked: s.blocked_reqs.len(),
            negotiations: std::mem::take(&mut s.negotiations),
            impl_events: std::mem::take(&mut s.impl_events),
            self_deadlock: s.self_deadlock,
            leftover_guards: s.held.len(),
            path: s.path.clone(),
            preemptions: s.preemptions,
        }
    })
}

pub fn note_negotiation(iface: &'static str) {
    SHIM.with(|s| {
        let mut s = s.borrow_mut();
        if s.active {
            let t = me();
            s.negotiations.push((iface, t));
        }
    });
}

/// Event recorded by an implementation under test (Tally family).
pub fn note_impl(tag: &'static str) {
    SHIM.with(|s| {
        let mut s = s.borrow_mut();
        if s.active {
            let t = me();
            s.impl_events.push((tag, t));
        }
    });
}

/// A scheduling point inside an implementation (between its read and its write).
pub fn sched_point() {
    let active = SHIM.with(|s| s.borrow().active);
    if active {
        shuttle::thread::yield_now();
    }
}

impl ExecLog {
    /// Calls on the implementation that overlapped: another task's event lies between a call's
    /// "r" and its own "w".
    pub fn overlaps(&self) -> usize {
        let mut n = 0;
        for (i, (tag, t)) in self.impl_events.iter().enumerate() {
            if *tag != "r" {
                continue;
            }
            for (tag2, t2) in &self.impl_events[i + 1..] {
                if t2 == t {
                    if *tag2 == "w" {
                        break;
                    }
                } else {
                    n += 1;
                    break;
                }
            }
        }
        n
    }
}

/// Who holds what and who waits for what, for failure reports.
pub fn wait_for_graph() -> (String, Vec<usize>) {
    SHIM.with(|s| {
        let s = s.borrow();
        let mut parts = vec![];
        let mut locks = BTreeSet::new();
        for (t, (l, _)) in &s.waiting {
            let holder = s.held.keys().find(|(_, hl)| hl == l).map(|(ht, _)| *ht);
            let holds: Vec<&str> = s.held.keys().filter(|(ht, _)| ht == t).map(|(_, hl)| LOCK_NAMES[*hl]).collect();
            parts.push(format!(
                "task{} waits for {} (held by {}) while holding [{}]",
                t,
                LOCK_NAMES[*l],
                holder.map(|h| format!("task{}", h)).unwrap_or_else(|| "nobody".into()),
                holds.join(",")
            ));
            locks.insert(*l);
        }
        (parts.join("; "), locks.into_iter().collect())
    })
}

fn on_acquire(addr: usize) {
    // (pitfall 4) outside a shuttle execution the hook does nothing
    let prep = SHIM.with(|s| {
        let mut s = s.borrow_mut();
        if !s.active {
            return None;
        }
        let Some(idx) = s.addrs.iter().position(|a| *a == addr) else {
            s.unknown_addr = Some(addr);
            return None;
        };
        let t = me();
        if s.held.contains_key(&(t, idx)) {
            s.self_deadlock = Some((t, idx));
            return Some(Err((t, idx)));
        }
        s.reqno += 1;
        let req = s.reqno;
        s.events.push((EvKind::Request, t, idx));
        s.waiting.insert(t, (idx, req));
        Some(Ok((t, idx, s.mutexes[idx].clone())))
    });
    match prep {
        None => {}
        Some(Err((t, idx))) => {
            // The real code would now call `lock()` on a std mutex this very thread already
            // holds: it never returns. Report first (the panic below may be swallowed by a
            // catch_unwind of savefile-abi, or abort the process at an `extern "C"` frame).
            crate::report_self_deadlock(t, idx);
            panic!("vconc: task{} re-acquires {} which it already holds (self-deadlock in the real code)", t, LOCK_NAMES[idx]);
        }
        Some(Ok((t, idx, m))) => {
            // no RefCell borrow is held here: lock() switches to other tasks
            let g = m.lock().unwrap_or_else(|e| e.into_inner());
            // SAFETY: the mirror mutex is kept alive by `Shim::mutexes` until the next
            // `begin_execution`, which refuses to run while any guard is still stored.
            let g: SGuard = unsafe { std::mem::transmute::<shuttle::sync::MutexGuard<'_, ()>, SGuard>(g) };
            SHIM.with(|s| {
                let mut s = s.borrow_mut();
                s.waiting.remove(&t);
                s.events.push((EvKind::Acquired, t, idx));
                s.held.insert((t, idx), g);
            });
        }
    }
}

fn on_release(addr: usize) {
    let g = SHIM.with(|s| {
        let mut s = s.borrow_mut();
        if !s.active {
            return None;
        }
        let idx = s.addrs.iter().position(|a| *a == addr)?;
        let t = me();
        let g = s.held.remove(&(t, idx));
        if g.is_some() {
            s.events.push((EvKind::Released, t, idx));
        }
        g
    });
    // dropping the mirror guard is a scheduling point; no borrow is held
    drop(g);
}
