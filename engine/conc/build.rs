// The vconc binary exports its `abi_entry_<Trait>` symbols in its dynamic symbol table, so that
// `AbiConnection::load_shared_library("")` (dlopen of the main program) finds them: this puts the
// ENTRY_CACHE / LIBRARY_CACHE / CreateInstance path of savefile-abi under the scheduler without a
// second image (a real cdylib carries its own, uninstrumented copy of the savefile-abi statics).
fn main() {
    println!("cargo:rustc-link-arg-bins=-rdynamic");
    println!("cargo:rerun-if-changed=build.rs");
}
