//! Build script of shard 1 of the C09 interface family: the generator is shared (`gen.rs`).
#![allow(dead_code)]
include!("../../gen.rs");

fn main() {
    println!("cargo:rerun-if-changed=build.rs");
    println!("cargo:rerun-if-changed=../../gen.rs");
    let out = std::path::PathBuf::from(std::env::var("OUT_DIR").unwrap()).join("family.rs");
    std::fs::write(out, emit_traits(1)).unwrap();
}
