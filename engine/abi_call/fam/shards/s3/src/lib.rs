//! One shard of the generated interface family (see ../../gen.rs).
#![allow(unused_mut, unused_variables, non_snake_case, clippy::all)]
use savefile_abi::AbiConnection;
use savefile_derive::savefile_abi_exportable;
use std::future::Future;
use std::pin::Pin;
use vabi09fam::support::*;
use vcommon::serde_json::Value;

include!(concat!(env!("OUT_DIR"), "/family.rs"));
