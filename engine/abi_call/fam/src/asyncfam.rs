//! The `#[async_trait]` member of the interface family (hand-written: one trait, because the
//! implementation must be `Send + Sync` and therefore cannot reuse the generated recorder).
use crate::support::*;
use async_trait::async_trait;
use savefile_abi::AbiConnection;
use savefile_derive::savefile_abi_exportable;
use std::sync::atomic::{AtomicU8, Ordering};
use vcommon::serde_json::{json, Value};

#[async_trait]
#[savefile_abi_exportable(version = 0)]
pub trait TrAsync {
    async fn m0(&mut self, x: u32, y: String) -> u32;
    async fn m1(&self, x: u32) -> String;
    async fn m2(&self, s: S, v: Vec<S>) -> u32;
    fn zz_after(&mut self, x: u32) -> u32;
}

pub struct ImAsync {
    ret: Value,
    panic: AtomicU8,
    _t: Tracker,
    _bomb: DropBomb,
}
impl ImAsync {
    fn body(&self) {
        match self.panic.swap(PANIC_NONE, Ordering::SeqCst) {
            PANIC_STATIC => panic!("boom-static-str"),
            PANIC_FORMATTED => panic!("boom-formatted {}", 41 + 1),
            PANIC_ANY => std::panic::panic_any(42i32),
            _ => {}
        }
    }
    fn pend(&self) -> PendFut {
        PendFut::new("await", self.ret["pending"].as_u64().unwrap_or(0) as u32, 0, self.ret["wake"].as_str() == Some("deferred"))
    }
}

#[async_trait]
impl TrAsync for ImAsync {
    async fn m0(&mut self, x: u32, y: String) -> u32 {
        log(json!({"ev": "enter", "m": "m0"}));
        log(json!({"ev": "arg", "i": 0, "v": x}));
        log(json!({"ev": "arg", "i": 1, "v": y}));
        self.pend().await;
        self.body();
        self.ret["val"].as_u64().unwrap_or(0) as u32
    }
    async fn m1(&self, x: u32) -> String {
        log(json!({"ev": "enter", "m": "m1"}));
        log(json!({"ev": "arg", "i": 0, "v": x}));
        self.pend().await;
        self.body();
        self.ret["sval"].as_str().unwrap_or("").to_string()
    }
    async fn m2(&self, s: S, v: Vec<S>) -> u32 {
        log(json!({"ev": "enter", "m": "m2"}));
        log(json!({"ev": "arg", "i": 0, "v": s_to_json(&s)}));
        log(json!({"ev": "arg", "i": 1, "v": Value::Array(v.iter().map(s_to_json).collect())}));
        self.pend().await;
        self.body();
        self.ret["val"].as_u64().unwrap_or(0) as u32
    }
    fn zz_after(&mut self, x: u32) -> u32 {
        log(json!({"ev": "enter", "m": "zz_after"}));
        x.wrapping_add(1)
    }
}

fn call_async(t: &mut dyn TrAsync, m: usize, cc: &CallCtx, args: &[Value]) -> Value {
    match m {
        0 => {
            let fut = t.m0(mk_u32(cc, 0, &args[0]), mk_string(cc, 1, &args[1]));
            drive(cc, fut, |v| json!(v))
        }
        1 => {
            let fut = t.m1(mk_u32(cc, 0, &args[0]));
            drive(cc, fut, |v| json!(v))
        }
        2 => {
            let fut = t.m2(mk_s(cc, 0, &args[0]), mk_vecs(cc, 1, &args[1]));
            drive(cc, fut, |v| json!(v))
        }
        _ => unreachable!(),
    }
}

struct DAsync(Box<dyn TrAsync>);
struct AAsync(AbiConnection<dyn TrAsync>);
impl Target for DAsync {
    fn call(&mut self, m: usize, cc: &CallCtx, args: &[Value]) -> Value {
        call_async(&mut *self.0, m, cc, args)
    }
    fn after(&mut self, x: u32) -> u32 {
        self.0.zz_after(x)
    }
    fn passable(&self, _m: &str, _i: usize) -> Option<bool> {
        None
    }
}
impl Target for AAsync {
    fn call(&mut self, m: usize, cc: &CallCtx, args: &[Value]) -> Value {
        call_async(&mut self.0, m, cc, args)
    }
    fn after(&mut self, x: u32) -> u32 {
        self.0.zz_after(x)
    }
    fn passable(&self, m: &str, i: usize) -> Option<bool> {
        Some(self.0.get_arg_passable_by_ref(m, i))
    }
}
fn mk_async(abi: bool, cx: ImplCtx) -> Result<Box<dyn Target>, String> {
    let (ret, panic, t, bomb) = cx.into_parts();
    let b: Box<dyn TrAsync> = Box::new(ImAsync { ret, panic: AtomicU8::new(panic), _t: t, _bomb: bomb });
    if abi {
        match AbiConnection::from_boxed_trait(b) {
            Ok(c) => Ok(Box::new(AAsync(c))),
            Err(e) => Err(format!("{:?}", e)),
        }
    } else {
        Ok(Box::new(DAsync(b)))
    }
}

pub static RET_KINDS: &[RetKindMeta] = &[
    RetKindMeta { id: "afut_u32", ty: "async u32", future: true, owned: true, quick: true },
    RetKindMeta { id: "afut_string", ty: "async String", future: true, owned: true, quick: true },
];

pub static TRAITS: &[TraitMeta] = &[TraitMeta {
    ord: usize::MAX,
    name: "TrAsync",
    quick: true,
    isolate: false,
    outside_domain: false,
    make: mk_async,
    methods: &[
        MethodMeta { name: "m0", recv_mut: true, args: &["u32", "string"], ret: "afut_u32", group: "G" },
        MethodMeta { name: "m1", recv_mut: false, args: &["u32"], ret: "afut_string", group: "G" },
        MethodMeta { name: "m2", recv_mut: false, args: &["s", "vecs"], ret: "afut_u32", group: "G" },
    ],
}];
