//! The alphabets of the generated interface family as data (see gen.rs / build.rs). The traits
//! generated from them live in the shard crates `vabi09fam_s*`.
use crate::support::*;

include!(concat!(env!("OUT_DIR"), "/meta.rs"));
