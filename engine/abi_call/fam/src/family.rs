//! The generated interface family (see build.rs).
use crate::support::*;
use savefile_abi::AbiConnection;
use savefile_derive::savefile_abi_exportable;
use std::future::Future;
use std::pin::Pin;
use vcommon::serde_json::Value;

include!(concat!(env!("OUT_DIR"), "/family.rs"));
