//! Hand-written half of the C09 harness: the shared data types, the recording context of the
//! implementations, the caller-side argument builders / return observers, the per-thread event
//! log and the drop registry. The generated half (`$OUT_DIR/family.rs`) only strings these
//! functions together for every enumerated signature.
use savefile_derive::{savefile_abi_exportable, Savefile};
use std::cell::{Cell, RefCell};
use std::future::Future;
use std::pin::Pin;
use std::sync::atomic::{AtomicUsize, Ordering};
use std::sync::Arc;
use std::task::{Context, Poll, Wake, Waker};
use vcommon::serde_json::{json, Map, Value};

// ------------------------------------------------------------------------------------------
// data types that cross the boundary
// ------------------------------------------------------------------------------------------

#[derive(Savefile, Clone, Debug, PartialEq)]
pub struct S {
    pub a: u32,
    pub b: String,
    pub c: u8,
}

#[derive(Savefile, Clone, Copy, Debug, PartialEq)]
#[repr(C)]
pub struct P {
    pub x: u32,
    pub y: u32,
}

/// A struct that is NOT layout-stable (`Option` has no defined layout): references to it and
/// slices of it are serialized even between identical binaries. Serialized: 4 + 1 (+ 1) bytes.
#[derive(Savefile, Clone, Debug, PartialEq)]
pub struct O {
    pub w: u32,
    pub tag: Option<u8>,
}

/// An enum without `repr`: serialized as variant number (1 byte) + payload (0, 4 or 8 + n bytes).
#[derive(Savefile, Clone, Debug, PartialEq)]
pub enum E {
    A,
    B(u32),
    C(String),
}

/// The exported trait used for boxed / borrowed trait objects in both directions.
#[savefile_abi_exportable(version = 0)]
pub trait T2 {
    fn get(&self, x: u32) -> u32;
    fn set(&mut self, x: u32);
    fn name(&self) -> String;
}

// ------------------------------------------------------------------------------------------
// the world: one totally ordered event log and one drop registry per thread
// ------------------------------------------------------------------------------------------

thread_local! {
    static LOG: RefCell<Vec<Value>> = const { RefCell::new(Vec::new()) };
    /// (label, number of times dropped)
    static REG: RefCell<Vec<(String, u32)>> = const { RefCell::new(Vec::new()) };
    /// drops of an object whose tracker had already been dropped (memory not yet reused)
    static DOUBLE: Cell<u32> = const { Cell::new(0) };
    /// calls executed on the implementation (direct or through a connection)
    pub static CALLS: Cell<u64> = const { Cell::new(0) };
    /// one-shot: the next caller-side closure invocation panics
    pub static CB_PANIC: Cell<bool> = const { Cell::new(false) };
}

pub fn log(v: Value) {
    LOG.with(|l| l.borrow_mut().push(v));
}
pub fn take_log() -> Vec<Value> {
    LOG.with(|l| std::mem::take(&mut *l.borrow_mut()))
}
pub fn reset_world() {
    LOG.with(|l| l.borrow_mut().clear());
    REG.with(|r| r.borrow_mut().clear());
    DOUBLE.with(|d| d.set(0));
    CB_PANIC.with(|c| c.set(false));
}
pub fn count_call() {
    CALLS.with(|c| c.set(c.get() + 1));
}
pub fn double_drops() -> u32 {
    DOUBLE.with(|d| d.get())
}
/// label -> drop count of every tracked object created since `reset_world`
pub fn drop_snapshot() -> Map<String, Value> {
    REG.with(|r| r.borrow().iter().map(|(l, n)| (l.clone(), json!(n))).collect())
}
pub fn checkpoint(at: &str) {
    log(json!({"ev": "drops", "at": at, "counts": Value::Object(drop_snapshot())}));
}

const LIVE: u64 = 0x5AFE_11FE_0B1E_C7ED;
const DEAD: u64 = 0xDEAD_0B1E_C7ED_DEAD;

/// Embedded in every owned object whose lifetime the property talks about. Dropping registers
/// in the thread's registry; a second drop of the same (not yet reused) memory is recognised by
/// the magic word and recorded instead of silently counted.
pub struct Tracker {
    magic: u64,
    id: usize,
}
impl Tracker {
    pub fn new(label: &str) -> Tracker {
        let id = REG.with(|r| {
            let mut r = r.borrow_mut();
            let mut l = label.to_string();
            let mut n = 1;
            while r.iter().any(|(x, _)| *x == l) {
                n += 1;
                l = format!("{}~{}", label, n);
            }
            r.push((l, 0));
            r.len() - 1
        });
        Tracker { magic: LIVE, id }
    }
    /// touch the tracker so a closure that owns it really captures it
    pub fn alive(&self) -> bool {
        unsafe { std::ptr::read_volatile(&self.magic) == LIVE }
    }
}
impl Drop for Tracker {
    fn drop(&mut self) {
        let m = unsafe { std::ptr::read_volatile(&self.magic) };
        if m != LIVE {
            DOUBLE.with(|d| d.set(d.get() + 1));
        }
        unsafe { std::ptr::write_volatile(&mut self.magic, DEAD) };
        let id = self.id;
        REG.with(|r| {
            if let Some(e) = r.borrow_mut().get_mut(id) {
                e.1 += 1;
            }
        });
    }
}

// ------------------------------------------------------------------------------------------
// metadata emitted by the generator
// ------------------------------------------------------------------------------------------

pub struct ArgKindMeta {
    pub id: &'static str,
    pub ty: &'static str,
    pub is_ref: bool,
    pub fixed: bool,
    pub owned: bool,
    pub closure: bool,
    pub quick: bool,
    /// member of the pair alphabet (group B)
    pub pair: bool,
}
pub struct RetKindMeta {
    pub id: &'static str,
    pub ty: &'static str,
    pub future: bool,
    pub owned: bool,
    pub quick: bool,
}
pub struct MethodMeta {
    pub name: &'static str,
    pub recv_mut: bool,
    pub args: &'static [&'static str],
    pub ret: &'static str,
    pub group: &'static str,
}
pub struct TraitMeta {
    /// position in the generated family (the canonical order of the work list)
    pub ord: usize,
    pub name: &'static str,
    pub quick: bool,
    pub isolate: bool,
    pub outside_domain: bool,
    pub make: fn(bool, ImplCtx) -> Result<Box<dyn Target>, String>,
    pub methods: &'static [MethodMeta],
}

/// One live implementation, reached directly (`Box<dyn Trait>`) or through an `AbiConnection`.
pub trait Target {
    fn call(&mut self, method: usize, cc: &CallCtx, args: &[Value]) -> Value;
    fn after(&mut self, x: u32) -> u32;
    /// `AbiConnection::get_arg_passable_by_ref`, `None` for the direct target
    fn passable(&self, method: &str, arg: usize) -> Option<bool>;
}

// ------------------------------------------------------------------------------------------
// small JSON helpers
// ------------------------------------------------------------------------------------------

fn u32_of(v: &Value) -> u32 {
    v.as_u64().unwrap_or_else(|| vcommon::machinery_error(&format!("case value is not a u32: {}", v))) as u32
}
fn str_of(v: &Value) -> String {
    v.as_str().unwrap_or_else(|| vcommon::machinery_error(&format!("case value is not a string: {}", v))).to_string()
}
pub fn s_to_json(s: &S) -> Value {
    json!({"a": s.a, "b": s.b, "c": s.c})
}
pub fn s_of(v: &Value) -> S {
    S { a: u32_of(&v["a"]), b: str_of(&v["b"]), c: u32_of(&v["c"]) as u8 }
}
fn p_to_json(p: &P) -> Value {
    json!({"x": p.x, "y": p.y})
}
fn p_of(v: &Value) -> P {
    P { x: u32_of(&v["x"]), y: u32_of(&v["y"]) }
}
fn u64_of(v: &Value) -> u64 {
    v.as_u64().unwrap_or_else(|| vcommon::machinery_error(&format!("case value is not a u64: {}", v)))
}
fn arr_of<'a>(v: &'a Value) -> &'a Vec<Value> {
    v.as_array().unwrap_or_else(|| vcommon::machinery_error(&format!("case value is not an array: {}", v)))
}
pub fn o_to_json(o: &O) -> Value {
    json!({"w": o.w, "tag": o.tag})
}
pub fn o_of(v: &Value) -> O {
    O { w: u32_of(&v["w"]), tag: if v["tag"].is_null() { None } else { Some(u32_of(&v["tag"]) as u8) } }
}
/// "A" | {"B": n} | {"C": "text"}
pub fn e_to_json(e: &E) -> Value {
    match e {
        E::A => json!("A"),
        E::B(n) => json!({ "B": n }),
        E::C(s) => json!({ "C": s }),
    }
}
pub fn e_of(v: &Value) -> E {
    if let Some(n) = v.get("B") {
        E::B(u32_of(n))
    } else if let Some(s) = v.get("C") {
        E::C(str_of(s))
    } else if v.as_str() == Some("A") {
        E::A
    } else {
        vcommon::machinery_error(&format!("case value is not an E: {}", v))
    }
}
fn optu32_of(v: &Value) -> Option<u32> {
    if v.is_null() {
        None
    } else {
        Some(u32_of(v))
    }
}
fn tup2_of(v: &Value) -> (u32, u32) {
    (u32_of(&v[0]), u32_of(&v[1]))
}
fn tup3_of(v: &Value) -> (u8, u8, u8) {
    (u32_of(&v[0]) as u8, u32_of(&v[1]) as u8, u32_of(&v[2]) as u8)
}
fn char_of(v: &Value) -> char {
    let s = str_of(v);
    let mut it = s.chars();
    match (it.next(), it.next()) {
        (Some(c), None) => c,
        _ => vcommon::machinery_error(&format!("case value is not a char: {}", v)),
    }
}
fn arg_ev(i: usize, v: Value) {
    log(json!({"ev": "arg", "i": i, "v": v}));
}

/// values every closure / trait object is invoked with
pub const XS: [u32; 4] = [0, 1, 0xFFFF_FFFF, 0x0102_0304];

// ------------------------------------------------------------------------------------------
// T2 objects
// ------------------------------------------------------------------------------------------

pub struct T2Obj {
    label: String,
    base: u32,
    state: u32,
    _t: Tracker,
}
impl T2Obj {
    pub fn new(label: &str, base: u32) -> T2Obj {
        T2Obj { label: label.to_string(), base, state: 0, _t: Tracker::new(label) }
    }
}
impl T2 for T2Obj {
    fn get(&self, x: u32) -> u32 {
        log(json!({"ev": "t2.get", "obj": self.label, "x": x, "state": self.state}));
        self.base.wrapping_mul(x).wrapping_add(self.state)
    }
    fn set(&mut self, x: u32) {
        log(json!({"ev": "t2.set", "obj": self.label, "x": x}));
        self.state = self.state.wrapping_mul(31).wrapping_add(x);
    }
    fn name(&self) -> String {
        format!("{}:{}:{}", self.label, self.base, self.state)
    }
}
/// exercise a trait object: read, mutate, read, name
fn use_t2_mut(o: &mut dyn T2, x: u32) -> Value {
    let g1 = o.get(x);
    o.set(x ^ 0x55);
    let g2 = o.get(x.wrapping_add(1));
    json!({"g1": g1, "g2": g2, "name": o.name()})
}
fn use_t2(o: &dyn T2, x: u32) -> Value {
    json!({"g": o.get(x), "name": o.name()})
}

// ------------------------------------------------------------------------------------------
// implementation side
// ------------------------------------------------------------------------------------------

pub enum Stored {
    T2(Box<dyn T2>),
    Fn(Box<dyn Fn(u32) -> u32>),
    FnMut(Box<dyn FnMut(u32)>),
}

pub const PANIC_NONE: u8 = 0;
pub const PANIC_STATIC: u8 = 1;
pub const PANIC_FORMATTED: u8 = 2;
pub const PANIC_ANY: u8 = 3;
/// the method body does not panic, the implementation's `Drop` does
pub const PANIC_IN_DROP: u8 = 4;
pub const MSG_DROP: &str = "boom-in-drop";

/// Panics when dropped, if armed (a panic in the implementation's destructor).
pub struct DropBomb(pub bool);
impl Drop for DropBomb {
    fn drop(&mut self) {
        if self.0 {
            self.0 = false;
            panic!("boom-in-drop");
        }
    }
}
pub const MSG_STATIC: &str = "boom-static-str";
pub const MSG_FORMATTED: &str = "boom-formatted 42";
pub const MSG_CALLBACK: &str = "cb-boom-static";

/// State of one recording implementation.
pub struct ImplCtx {
    /// what the method under test returns
    pub ret: Value,
    /// owned arguments are stored (and used by `zz_after`) instead of dropped
    pub keep: bool,
    /// one-shot panic of the next method body
    pub panic: Cell<u8>,
    stored: RefCell<Vec<(usize, Stored)>>,
    ret_seq: Cell<u32>,
    _t: Tracker,
    /// last field: everything else is released before the destructor panics
    _bomb: DropBomb,
}
impl ImplCtx {
    pub fn new(ret: Value, keep: bool, panic: u8) -> ImplCtx {
        let in_drop = panic == PANIC_IN_DROP;
        ImplCtx {
            ret,
            keep,
            panic: Cell::new(if in_drop { PANIC_NONE } else { panic }),
            stored: RefCell::new(vec![]),
            ret_seq: Cell::new(0),
            _t: Tracker::new("impl"),
            _bomb: DropBomb(in_drop),
        }
    }
    /// for implementations that cannot hold an `ImplCtx` (must be `Send + Sync`)
    pub fn into_parts(self) -> (Value, u8, Tracker, DropBomb) {
        let ImplCtx { ret, panic, _t, _bomb, .. } = self;
        (ret, panic.get(), _t, _bomb)
    }
    pub fn enter(&self, m: &str) {
        log(json!({"ev": "enter", "m": m}));
    }
    /// the panic point: all arguments have been received and are alive
    pub fn body(&self) {
        match self.panic.replace(PANIC_NONE) {
            PANIC_STATIC => panic!("boom-static-str"),
            PANIC_FORMATTED => panic!("boom-formatted {}", 41 + 1),
            PANIC_ANY => std::panic::panic_any(42i32),
            _ => {}
        }
    }
    /// second phase: everything transferred earlier must still be callable
    pub fn after(&self, x: u32) -> u32 {
        log(json!({"ev": "enter", "m": "zz_after"}));
        let mut st = self.stored.borrow_mut();
        for (i, s) in st.iter_mut() {
            match s {
                Stored::T2(o) => {
                    let r = use_t2_mut(&mut **o, x);
                    log(json!({"ev": "stored", "i": *i, "r": r}));
                }
                Stored::Fn(f) => {
                    let r = f(x);
                    log(json!({"ev": "stored", "i": *i, "r": r}));
                }
                Stored::FnMut(f) => {
                    f(x);
                    log(json!({"ev": "stored", "i": *i}));
                }
            }
        }
        st.len() as u32
    }
    fn ret_label(&self) -> String {
        let n = self.ret_seq.get();
        self.ret_seq.set(n + 1);
        if n == 0 {
            "ret".to_string()
        } else {
            format!("ret.{}", n)
        }
    }
}

// ---- observation of arguments (every function receives `&mut <parameter>`)

pub fn obs_u32(_cx: &ImplCtx, i: usize, a: &mut u32) {
    arg_ev(i, json!(*a));
}
pub fn obs_ru32(_cx: &ImplCtx, i: usize, a: &mut &u32) {
    arg_ev(i, json!(**a));
}
pub fn obs_string(_cx: &ImplCtx, i: usize, a: &mut String) {
    arg_ev(i, json!(*a));
}
pub fn obs_str(_cx: &ImplCtx, i: usize, a: &mut &str) {
    arg_ev(i, json!(*a));
}
pub fn obs_rstring(_cx: &ImplCtx, i: usize, a: &mut &String) {
    arg_ev(i, json!(**a));
}
pub fn obs_slice(_cx: &ImplCtx, i: usize, a: &mut &[u32]) {
    arg_ev(i, json!(*a));
}
pub fn obs_s(_cx: &ImplCtx, i: usize, a: &mut S) {
    arg_ev(i, s_to_json(a));
}
pub fn obs_rs(_cx: &ImplCtx, i: usize, a: &mut &S) {
    arg_ev(i, s_to_json(a));
}
pub fn obs_vecs(_cx: &ImplCtx, i: usize, a: &mut Vec<S>) {
    arg_ev(i, Value::Array(a.iter().map(s_to_json).collect()));
}
pub fn obs_p(_cx: &ImplCtx, i: usize, a: &mut P) {
    arg_ev(i, p_to_json(a));
}
pub fn obs_rp(_cx: &ImplCtx, i: usize, a: &mut &P) {
    arg_ev(i, p_to_json(a));
}
pub fn obs_ropt(_cx: &ImplCtx, i: usize, a: &mut &Option<u32>) {
    arg_ev(i, json!(**a));
}
pub fn obs_tup(_cx: &ImplCtx, i: usize, a: &mut (u32, String)) {
    arg_ev(i, json!([a.0, a.1]));
}
pub fn obs_optstring(_cx: &ImplCtx, i: usize, a: &mut Option<String>) {
    arg_ev(i, json!(*a));
}
pub fn obs_slo(_cx: &ImplCtx, i: usize, a: &mut &[O]) {
    arg_ev(i, Value::Array(a.iter().map(o_to_json).collect()));
}
pub fn obs_slopt(_cx: &ImplCtx, i: usize, a: &mut &[Option<u32>]) {
    arg_ev(i, json!(*a));
}
pub fn obs_sle(_cx: &ImplCtx, i: usize, a: &mut &[E]) {
    arg_ev(i, Value::Array(a.iter().map(e_to_json).collect()));
}
pub fn obs_slu8(_cx: &ImplCtx, i: usize, a: &mut &[u8]) {
    arg_ev(i, json!(*a));
}
pub fn obs_sls(_cx: &ImplCtx, i: usize, a: &mut &[S]) {
    arg_ev(i, Value::Array(a.iter().map(s_to_json).collect()));
}
pub fn obs_slstring(_cx: &ImplCtx, i: usize, a: &mut &[String]) {
    arg_ev(i, json!(*a));
}
pub fn obs_slp(_cx: &ImplCtx, i: usize, a: &mut &[P]) {
    arg_ev(i, Value::Array(a.iter().map(p_to_json).collect()));
}
pub fn obs_sltup(_cx: &ImplCtx, i: usize, a: &mut &[(u32, u32)]) {
    arg_ev(i, Value::Array(a.iter().map(|t| json!([t.0, t.1])).collect()));
}
pub fn obs_rvo(_cx: &ImplCtx, i: usize, a: &mut &Vec<O>) {
    arg_ev(i, Value::Array(a.iter().map(o_to_json).collect()));
}
pub fn obs_ro(_cx: &ImplCtx, i: usize, a: &mut &O) {
    arg_ev(i, o_to_json(a));
}
pub fn obs_re(_cx: &ImplCtx, i: usize, a: &mut &E) {
    arg_ev(i, e_to_json(a));
}
pub fn obs_roptstring(_cx: &ImplCtx, i: usize, a: &mut &Option<String>) {
    arg_ev(i, json!(**a));
}
pub fn obs_rvu32(_cx: &ImplCtx, i: usize, a: &mut &Vec<u32>) {
    arg_ev(i, json!(**a));
}
pub fn obs_u8(_cx: &ImplCtx, i: usize, a: &mut u8) {
    arg_ev(i, json!(*a));
}
pub fn obs_u64(_cx: &ImplCtx, i: usize, a: &mut u64) {
    arg_ev(i, json!(*a));
}
pub fn obs_tup2(_cx: &ImplCtx, i: usize, a: &mut (u32, u32)) {
    arg_ev(i, json!([a.0, a.1]));
}
pub fn obs_tup3(_cx: &ImplCtx, i: usize, a: &mut (u8, u8, u8)) {
    arg_ev(i, json!([a.0, a.1, a.2]));
}
pub fn obs_bool(_cx: &ImplCtx, i: usize, a: &mut bool) {
    arg_ev(i, json!(*a));
}
pub fn obs_char(_cx: &ImplCtx, i: usize, a: &mut char) {
    arg_ev(i, json!(a.to_string()));
}
pub fn obs_optunit(_cx: &ImplCtx, i: usize, a: &mut Option<()>) {
    arg_ev(i, json!(a.is_some()));
}
pub fn obs_o(_cx: &ImplCtx, i: usize, a: &mut O) {
    arg_ev(i, o_to_json(a));
}
pub fn obs_e(_cx: &ImplCtx, i: usize, a: &mut E) {
    arg_ev(i, e_to_json(a));
}
pub fn obs_veco(_cx: &ImplCtx, i: usize, a: &mut Vec<O>) {
    arg_ev(i, Value::Array(a.iter().map(o_to_json).collect()));
}
pub fn obs_boxt2(_cx: &ImplCtx, i: usize, a: &mut Box<dyn T2>) {
    let r = use_t2_mut(&mut **a, 3);
    arg_ev(i, r);
}
pub fn obs_rt2(_cx: &ImplCtx, i: usize, a: &mut &dyn T2) {
    let r = use_t2(*a, 3);
    arg_ev(i, r);
}
pub fn obs_rmt2(_cx: &ImplCtx, i: usize, a: &mut &mut dyn T2) {
    let r = use_t2_mut(&mut **a, 3);
    arg_ev(i, r);
}
pub fn obs_rfn(_cx: &ImplCtx, i: usize, a: &mut &dyn Fn(u32) -> u32) {
    for x in XS {
        let r = (*a)(x);
        log(json!({"ev": "cbret", "i": i, "x": x, "r": r}));
    }
}
pub fn obs_rfnmut(_cx: &ImplCtx, i: usize, a: &mut &mut dyn FnMut(u32)) {
    for x in XS {
        (*a)(x);
        log(json!({"ev": "cbdone", "i": i, "x": x}));
    }
}
pub fn obs_boxfn(_cx: &ImplCtx, i: usize, a: &mut Box<dyn Fn(u32) -> u32>) {
    for x in XS {
        let r = (*a)(x);
        log(json!({"ev": "cbret", "i": i, "x": x, "r": r}));
    }
}
pub fn obs_boxfnss(_cx: &ImplCtx, i: usize, a: &mut Box<dyn Fn(u32) -> u32 + Send + Sync>) {
    for x in XS {
        let r = (*a)(x);
        log(json!({"ev": "cbret", "i": i, "x": x, "r": r}));
    }
}
/// the callback's own argument block (4 + 16 + 8 + n) and its returned string cross 64 bytes
pub fn obs_rfnstr(_cx: &ImplCtx, i: usize, a: &mut &dyn Fn(&str, String) -> String) {
    for (n0, n1) in [(0usize, 0usize), (3, 35), (3, 36), (3, 37), (70, 80)] {
        let x0: String = "r".repeat(n0);
        let x1: String = "o".repeat(n1);
        let r = (*a)(&x0, x1);
        log(json!({"ev": "cbret", "i": i, "x": [n0, n1], "r": r}));
    }
}
pub fn obs_boxfnmut(_cx: &ImplCtx, i: usize, a: &mut Box<dyn FnMut(u32)>) {
    for x in XS {
        (*a)(x);
        log(json!({"ev": "cbdone", "i": i, "x": x}));
    }
}

// ---- owned arguments: stored (keep) or dropped at the end of the method

pub fn fin_boxt2(cx: &ImplCtx, i: usize, a: Box<dyn T2>) {
    if cx.keep {
        cx.stored.borrow_mut().push((i, Stored::T2(a)));
    }
}
pub fn fin_boxfn(cx: &ImplCtx, i: usize, a: Box<dyn Fn(u32) -> u32>) {
    if cx.keep {
        cx.stored.borrow_mut().push((i, Stored::Fn(a)));
    }
}
pub fn fin_boxfnss(cx: &ImplCtx, i: usize, a: Box<dyn Fn(u32) -> u32 + Send + Sync>) {
    if cx.keep {
        cx.stored.borrow_mut().push((i, Stored::Fn(a)));
    }
}
pub fn fin_boxfnmut(cx: &ImplCtx, i: usize, a: Box<dyn FnMut(u32)>) {
    if cx.keep {
        cx.stored.borrow_mut().push((i, Stored::FnMut(a)));
    }
}

// ---- return values, produced from the case's return specification

pub const STATIC_STRS: [&str; 4] = ["", "s", "a static string of some length, longer than the sixty-four byte inline buffer of savefile-abi", "sta\u{e4}tic"];

pub fn ret_unit(_cx: &ImplCtx) {}
pub fn ret_u32(cx: &ImplCtx) -> u32 {
    u32_of(&cx.ret)
}
pub fn ret_string(cx: &ImplCtx) -> String {
    str_of(&cx.ret)
}
pub fn ret_s(cx: &ImplCtx) -> S {
    s_of(&cx.ret)
}
pub fn ret_p(cx: &ImplCtx) -> P {
    p_of(&cx.ret)
}
pub fn ret_res(cx: &ImplCtx) -> Result<u32, String> {
    if let Some(e) = cx.ret.get("err") {
        Err(str_of(e))
    } else {
        Ok(u32_of(&cx.ret["ok"]))
    }
}
pub fn ret_opt(cx: &ImplCtx) -> Option<u32> {
    if cx.ret.is_null() {
        None
    } else {
        Some(u32_of(&cx.ret))
    }
}
pub fn ret_vecu32(cx: &ImplCtx) -> Vec<u32> {
    cx.ret.as_array().map(|a| a.iter().map(u32_of).collect()).unwrap_or_default()
}
pub fn ret_vecs(cx: &ImplCtx) -> Vec<S> {
    cx.ret.as_array().map(|a| a.iter().map(s_of).collect()).unwrap_or_default()
}
pub fn ret_u64(cx: &ImplCtx) -> u64 {
    u64_of(&cx.ret)
}
pub fn ret_u8(cx: &ImplCtx) -> u8 {
    u32_of(&cx.ret) as u8
}
pub fn ret_tup2(cx: &ImplCtx) -> (u32, u32) {
    tup2_of(&cx.ret)
}
pub fn ret_tup3(cx: &ImplCtx) -> (u8, u8, u8) {
    tup3_of(&cx.ret)
}
pub fn ret_veco(cx: &ImplCtx) -> Vec<O> {
    arr_of(&cx.ret).iter().map(o_of).collect()
}
pub fn ret_e(cx: &ImplCtx) -> E {
    e_of(&cx.ret)
}
pub fn ret_sstr(cx: &ImplCtx) -> &'static str {
    STATIC_STRS[u32_of(&cx.ret) as usize % STATIC_STRS.len()]
}
pub fn ret_boxt2(cx: &ImplCtx) -> Box<dyn T2> {
    Box::new(T2Obj::new(&cx.ret_label(), u32_of(&cx.ret["base"])))
}
pub fn ret_resbox(cx: &ImplCtx) -> Result<Box<dyn T2>, String> {
    if let Some(e) = cx.ret.get("err") {
        Err(str_of(e))
    } else {
        Ok(Box::new(T2Obj::new(&cx.ret_label(), u32_of(&cx.ret["ok"]["base"]))))
    }
}
pub fn ret_boxfn(cx: &ImplCtx) -> Box<dyn Fn(u32) -> u32> {
    let (m, a) = (u32_of(&cx.ret["mul"]), u32_of(&cx.ret["add"]));
    let label = cx.ret_label();
    let t = Tracker::new(&label);
    Box::new(move |x| {
        log(json!({"ev": "retfn", "obj": label, "x": x, "alive": t.alive()}));
        x.wrapping_mul(m).wrapping_add(a)
    })
}

/// A future that is `Pending` a given number of rounds. `wake == "during"` wakes the current
/// waker before returning `Pending`; `"deferred"` keeps a clone and wakes it at the start of the
/// next poll (the waker must stay usable after the poll that delivered it).
pub struct PendFut {
    label: String,
    remaining: u32,
    val: u32,
    deferred: bool,
    kept: Option<Waker>,
    _t: Tracker,
}
impl PendFut {
    pub fn new(label: &str, remaining: u32, val: u32, deferred: bool) -> PendFut {
        PendFut { label: label.to_string(), remaining, val, deferred, kept: None, _t: Tracker::new(label) }
    }
}
impl Future for PendFut {
    type Output = u32;
    fn poll(mut self: Pin<&mut Self>, cx: &mut Context<'_>) -> Poll<u32> {
        log(json!({"ev": "poll", "obj": self.label, "remaining": self.remaining}));
        if let Some(w) = self.kept.take() {
            w.wake();
        }
        if self.remaining > 0 {
            self.remaining -= 1;
            if self.deferred {
                self.kept = Some(cx.waker().clone());
            } else {
                cx.waker().wake_by_ref();
            }
            Poll::Pending
        } else {
            Poll::Ready(self.val)
        }
    }
}
pub fn ret_fut(cx: &ImplCtx) -> Pin<Box<dyn Future<Output = u32>>> {
    let label = cx.ret_label();
    Box::pin(PendFut::new(&label, u32_of(&cx.ret["pending"]), u32_of(&cx.ret["val"]), cx.ret["wake"].as_str() == Some("deferred")))
}

// ------------------------------------------------------------------------------------------
// caller side
// ------------------------------------------------------------------------------------------

pub enum Retained {
    T2(Box<dyn T2>),
    Fn(Box<dyn Fn(u32) -> u32>),
}

/// State of the caller for one run (one mode) of a case.
pub struct CallCtx {
    /// the return specification (the caller needs the poll budget of futures)
    pub ret: Value,
    call_no: Cell<u32>,
    retained: RefCell<Vec<Retained>>,
}
impl CallCtx {
    pub fn new(ret: Value) -> CallCtx {
        CallCtx { ret, call_no: Cell::new(0), retained: RefCell::new(vec![]) }
    }
    pub fn next_call(&self) {
        self.call_no.set(self.call_no.get() + 1);
    }
    fn label(&self, i: usize) -> String {
        format!("c{}.arg{}", self.call_no.get(), i)
    }
    /// objects returned by the implementation are used again, later
    pub fn use_retained(&self) {
        for (k, r) in self.retained.borrow_mut().iter_mut().enumerate() {
            match r {
                Retained::T2(o) => {
                    let r = use_t2_mut(&mut **o, 9);
                    log(json!({"ev": "retained", "k": k, "r": r}));
                }
                Retained::Fn(f) => {
                    let r = f(9);
                    log(json!({"ev": "retained", "k": k, "r": r}));
                }
            }
        }
    }
    pub fn drop_retained(&self) {
        self.retained.borrow_mut().clear();
    }
}

fn cb_maybe_panic() {
    if CB_PANIC.with(|c| c.replace(false)) {
        panic!("cb-boom-static");
    }
}

pub fn mk_u32(_cc: &CallCtx, _i: usize, v: &Value) -> u32 {
    u32_of(v)
}
pub fn mk_ru32(_cc: &CallCtx, _i: usize, v: &Value) -> u32 {
    u32_of(v)
}
pub fn mk_string(_cc: &CallCtx, _i: usize, v: &Value) -> String {
    str_of(v)
}
pub fn mk_str(_cc: &CallCtx, _i: usize, v: &Value) -> String {
    str_of(v)
}
pub fn mk_rstring(_cc: &CallCtx, _i: usize, v: &Value) -> String {
    str_of(v)
}
pub fn mk_slice(_cc: &CallCtx, _i: usize, v: &Value) -> Vec<u32> {
    v.as_array().map(|a| a.iter().map(u32_of).collect()).unwrap_or_default()
}
pub fn mk_s(_cc: &CallCtx, _i: usize, v: &Value) -> S {
    s_of(v)
}
pub fn mk_rs(_cc: &CallCtx, _i: usize, v: &Value) -> S {
    s_of(v)
}
pub fn mk_vecs(_cc: &CallCtx, _i: usize, v: &Value) -> Vec<S> {
    v.as_array().map(|a| a.iter().map(s_of).collect()).unwrap_or_default()
}
pub fn mk_p(_cc: &CallCtx, _i: usize, v: &Value) -> P {
    p_of(v)
}
pub fn mk_rp(_cc: &CallCtx, _i: usize, v: &Value) -> P {
    p_of(v)
}
pub fn mk_ropt(_cc: &CallCtx, _i: usize, v: &Value) -> Option<u32> {
    if v.is_null() {
        None
    } else {
        Some(u32_of(v))
    }
}
pub fn mk_tup(_cc: &CallCtx, _i: usize, v: &Value) -> (u32, String) {
    (u32_of(&v[0]), str_of(&v[1]))
}
pub fn mk_optstring(_cc: &CallCtx, _i: usize, v: &Value) -> Option<String> {
    if v.is_null() {
        None
    } else {
        Some(str_of(v))
    }
}
pub fn mk_slo(_cc: &CallCtx, _i: usize, v: &Value) -> Vec<O> {
    arr_of(v).iter().map(o_of).collect()
}
pub fn mk_slopt(_cc: &CallCtx, _i: usize, v: &Value) -> Vec<Option<u32>> {
    arr_of(v).iter().map(optu32_of).collect()
}
pub fn mk_sle(_cc: &CallCtx, _i: usize, v: &Value) -> Vec<E> {
    arr_of(v).iter().map(e_of).collect()
}
pub fn mk_slu8(_cc: &CallCtx, _i: usize, v: &Value) -> Vec<u8> {
    arr_of(v).iter().map(|x| u32_of(x) as u8).collect()
}
pub fn mk_sls(_cc: &CallCtx, _i: usize, v: &Value) -> Vec<S> {
    arr_of(v).iter().map(s_of).collect()
}
pub fn mk_slstring(_cc: &CallCtx, _i: usize, v: &Value) -> Vec<String> {
    arr_of(v).iter().map(str_of).collect()
}
pub fn mk_slp(_cc: &CallCtx, _i: usize, v: &Value) -> Vec<P> {
    arr_of(v).iter().map(p_of).collect()
}
pub fn mk_sltup(_cc: &CallCtx, _i: usize, v: &Value) -> Vec<(u32, u32)> {
    arr_of(v).iter().map(tup2_of).collect()
}
pub fn mk_rvo(_cc: &CallCtx, _i: usize, v: &Value) -> Vec<O> {
    arr_of(v).iter().map(o_of).collect()
}
pub fn mk_ro(_cc: &CallCtx, _i: usize, v: &Value) -> O {
    o_of(v)
}
pub fn mk_re(_cc: &CallCtx, _i: usize, v: &Value) -> E {
    e_of(v)
}
pub fn mk_roptstring(_cc: &CallCtx, _i: usize, v: &Value) -> Option<String> {
    if v.is_null() {
        None
    } else {
        Some(str_of(v))
    }
}
pub fn mk_rvu32(_cc: &CallCtx, _i: usize, v: &Value) -> Vec<u32> {
    arr_of(v).iter().map(u32_of).collect()
}
pub fn mk_u8(_cc: &CallCtx, _i: usize, v: &Value) -> u8 {
    u32_of(v) as u8
}
pub fn mk_u64(_cc: &CallCtx, _i: usize, v: &Value) -> u64 {
    u64_of(v)
}
pub fn mk_tup2(_cc: &CallCtx, _i: usize, v: &Value) -> (u32, u32) {
    tup2_of(v)
}
pub fn mk_tup3(_cc: &CallCtx, _i: usize, v: &Value) -> (u8, u8, u8) {
    tup3_of(v)
}
pub fn mk_bool(_cc: &CallCtx, _i: usize, v: &Value) -> bool {
    v.as_bool().unwrap_or_else(|| vcommon::machinery_error(&format!("case value is not a bool: {}", v)))
}
pub fn mk_char(_cc: &CallCtx, _i: usize, v: &Value) -> char {
    char_of(v)
}
pub fn mk_optunit(_cc: &CallCtx, _i: usize, v: &Value) -> Option<()> {
    if mk_bool(_cc, _i, v) {
        Some(())
    } else {
        None
    }
}
pub fn mk_o(_cc: &CallCtx, _i: usize, v: &Value) -> O {
    o_of(v)
}
pub fn mk_e(_cc: &CallCtx, _i: usize, v: &Value) -> E {
    e_of(v)
}
pub fn mk_veco(_cc: &CallCtx, _i: usize, v: &Value) -> Vec<O> {
    arr_of(v).iter().map(o_of).collect()
}
/// `"wrapped": true`: the object handed over is itself an `AbiConnection` (an object that came
/// out of one connection is passed into another one)
pub fn mk_boxt2(cc: &CallCtx, i: usize, v: &Value) -> Box<dyn T2> {
    let b: Box<dyn T2> = Box::new(T2Obj::new(&cc.label(i), u32_of(&v["base"])));
    if v["wrapped"].as_bool() == Some(true) {
        match savefile_abi::AbiConnection::<dyn T2>::from_boxed_trait(b) {
            Ok(c) => Box::new(c),
            Err(e) => vcommon::machinery_error(&format!("cannot wrap a T2 object: {:?}", e)),
        }
    } else {
        b
    }
}
pub fn mk_rt2(cc: &CallCtx, i: usize, v: &Value) -> Box<dyn T2> {
    mk_boxt2(cc, i, v)
}
pub fn mk_rmt2(cc: &CallCtx, i: usize, v: &Value) -> Box<dyn T2> {
    mk_boxt2(cc, i, v)
}
pub fn mk_rfn(_cc: &CallCtx, i: usize, v: &Value) -> impl Fn(u32) -> u32 {
    let (m, a) = (u32_of(&v["mul"]), u32_of(&v["add"]));
    move |x| {
        log(json!({"ev": "cb", "i": i, "x": x}));
        cb_maybe_panic();
        x.wrapping_mul(m).wrapping_add(a)
    }
}
pub fn mk_rfnmut(_cc: &CallCtx, i: usize, v: &Value) -> impl FnMut(u32) {
    let mut acc = u32_of(&v["add"]);
    let m = u32_of(&v["mul"]);
    move |x| {
        acc = acc.wrapping_mul(m).wrapping_add(x);
        log(json!({"ev": "cb", "i": i, "x": x, "acc": acc}));
        cb_maybe_panic();
    }
}
pub fn mk_boxfn(cc: &CallCtx, i: usize, v: &Value) -> Box<dyn Fn(u32) -> u32> {
    let (m, a) = (u32_of(&v["mul"]), u32_of(&v["add"]));
    let t = Tracker::new(&cc.label(i));
    Box::new(move |x| {
        log(json!({"ev": "cb", "i": i, "x": x, "alive": t.alive()}));
        cb_maybe_panic();
        x.wrapping_mul(m).wrapping_add(a)
    })
}
pub fn mk_boxfnss(cc: &CallCtx, i: usize, v: &Value) -> Box<dyn Fn(u32) -> u32 + Send + Sync> {
    let (m, a) = (u32_of(&v["mul"]), u32_of(&v["add"]));
    let t = Tracker::new(&cc.label(i));
    Box::new(move |x| {
        log(json!({"ev": "cb", "i": i, "x": x, "alive": t.alive()}));
        cb_maybe_panic();
        x.wrapping_mul(m).wrapping_add(a)
    })
}
pub fn mk_rfnstr(_cc: &CallCtx, i: usize, v: &Value) -> impl Fn(&str, String) -> String {
    let suffix = str_of(&v["suffix"]);
    move |x0: &str, x1: String| {
        log(json!({"ev": "cb", "i": i, "x0": x0, "x1": x1}));
        cb_maybe_panic();
        format!("{}|{}|{}", x0, x1, suffix)
    }
}
pub fn mk_boxfnmut(cc: &CallCtx, i: usize, v: &Value) -> Box<dyn FnMut(u32)> {
    let mut acc = u32_of(&v["add"]);
    let m = u32_of(&v["mul"]);
    let t = Tracker::new(&cc.label(i));
    Box::new(move |x| {
        acc = acc.wrapping_mul(m).wrapping_add(x);
        log(json!({"ev": "cb", "i": i, "x": x, "acc": acc, "alive": t.alive()}));
        cb_maybe_panic();
    })
}

// ---- observation of returned values by the caller

pub fn rv_unit(_cc: &CallCtx, _r: ()) -> Value {
    Value::Null
}
pub fn rv_u32(_cc: &CallCtx, r: u32) -> Value {
    json!(r)
}
pub fn rv_string(_cc: &CallCtx, r: String) -> Value {
    json!(r)
}
pub fn rv_sstr(_cc: &CallCtx, r: &'static str) -> Value {
    json!(r)
}
pub fn rv_s(_cc: &CallCtx, r: S) -> Value {
    s_to_json(&r)
}
pub fn rv_p(_cc: &CallCtx, r: P) -> Value {
    p_to_json(&r)
}
pub fn rv_res(_cc: &CallCtx, r: Result<u32, String>) -> Value {
    match r {
        Ok(n) => json!({"ok": n}),
        Err(e) => json!({"err": e}),
    }
}
pub fn rv_opt(_cc: &CallCtx, r: Option<u32>) -> Value {
    json!(r)
}
pub fn rv_vecu32(_cc: &CallCtx, r: Vec<u32>) -> Value {
    json!(r)
}
pub fn rv_vecs(_cc: &CallCtx, r: Vec<S>) -> Value {
    Value::Array(r.iter().map(s_to_json).collect())
}
pub fn rv_u64(_cc: &CallCtx, r: u64) -> Value {
    json!(r)
}
pub fn rv_u8(_cc: &CallCtx, r: u8) -> Value {
    json!(r)
}
pub fn rv_tup2(_cc: &CallCtx, r: (u32, u32)) -> Value {
    json!([r.0, r.1])
}
pub fn rv_tup3(_cc: &CallCtx, r: (u8, u8, u8)) -> Value {
    json!([r.0, r.1, r.2])
}
pub fn rv_veco(_cc: &CallCtx, r: Vec<O>) -> Value {
    Value::Array(r.iter().map(o_to_json).collect())
}
pub fn rv_e(_cc: &CallCtx, r: E) -> Value {
    e_to_json(&r)
}
pub fn rv_boxt2(cc: &CallCtx, mut r: Box<dyn T2>) -> Value {
    let v = use_t2_mut(&mut *r, 2);
    cc.retained.borrow_mut().push(Retained::T2(r));
    json!({"t2": v})
}
pub fn rv_resbox(cc: &CallCtx, r: Result<Box<dyn T2>, String>) -> Value {
    match r {
        Ok(b) => json!({"ok": rv_boxt2(cc, b)}),
        Err(e) => json!({"err": e}),
    }
}
pub fn rv_boxfn(cc: &CallCtx, r: Box<dyn Fn(u32) -> u32>) -> Value {
    let v: Vec<u32> = XS.iter().map(|x| r(*x)).collect();
    cc.retained.borrow_mut().push(Retained::Fn(r));
    json!({"fn": v})
}

struct WakeCount(AtomicUsize);
impl Wake for WakeCount {
    fn wake(self: Arc<Self>) {
        self.0.fetch_add(1, Ordering::SeqCst);
    }
    fn wake_by_ref(self: &Arc<Self>) {
        self.0.fetch_add(1, Ordering::SeqCst);
    }
}
/// Minimal executor: polls until ready or until the case's poll budget is used up (then the
/// future is dropped unfinished). Every round records the number of wake-ups seen so far.
pub fn drive<F: Future + ?Sized>(cc: &CallCtx, mut fut: Pin<Box<F>>, show: impl Fn(F::Output) -> Value) -> Value {
    let wc = Arc::new(WakeCount(AtomicUsize::new(0)));
    let waker = Waker::from(wc.clone());
    let mut cx = Context::from_waker(&waker);
    let budget = cc.ret["drop_after"].as_u64();
    let mut rounds = vec![];
    let mut polls = 0u64;
    let out = loop {
        if Some(polls) == budget {
            break Value::Null;
        }
        polls += 1;
        match fut.as_mut().poll(&mut cx) {
            Poll::Ready(v) => break show(v),
            Poll::Pending => {
                rounds.push(wc.0.load(Ordering::SeqCst));
                if polls > 16 {
                    vcommon::machinery_error("future not ready after 16 polls");
                }
            }
        }
    };
    drop(fut);
    json!({"future": out, "polls": polls, "wakes_per_round": rounds, "wakes": wc.0.load(Ordering::SeqCst)})
}
pub fn rv_fut(cc: &CallCtx, r: Pin<Box<dyn Future<Output = u32>>>) -> Value {
    drive(cc, r, |v| json!(v))
}

pub fn arg_kind(id: &str) -> &'static ArgKindMeta {
    crate::family::ARG_KINDS.iter().find(|k| k.id == id).unwrap_or_else(|| vcommon::machinery_error(&format!("unknown argument kind {}", id)))
}
pub fn ret_kind(id: &str) -> &'static RetKindMeta {
    crate::family::RET_KINDS.iter().chain(crate::asyncfam::RET_KINDS.iter()).find(|k| k.id == id).unwrap_or_else(|| vcommon::machinery_error(&format!("unknown return kind {}", id)))
}
