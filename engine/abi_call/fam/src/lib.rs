//! Interface family of the C09 engine: the alphabets as data (`family`), the async_trait member
//! (`asyncfam`) and the hand-written recording / observing helpers (`support`). The traits
//! generated from the alphabets are compiled in the shard crates `shards/s*` (same generator,
//! `gen.rs`), so that editing the engine does not re-expand ~2700 exported methods and so that
//! they compile in parallel.
pub mod family;
pub mod asyncfam;
pub mod support;
