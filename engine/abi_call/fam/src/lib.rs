//! Interface family of the C09 engine: generated traits (`family`), the async_trait member
//! (`asyncfam`) and the hand-written recording / observing helpers (`support`).
#[allow(unused_mut, unused_variables, non_snake_case, clippy::all)]
pub mod family;
pub mod asyncfam;
pub mod support;
