// Generator of the C09 interface family (DESIGN.md §4 "F-iface"). This file is `include!`d by
// the build scripts of `vabi09fam` (metadata tables) and of the shard crates `shards/s*` (the
// generated traits, spread over NSHARDS crates so that they compile in parallel).
//
// Enumerates `#[savefile_abi_exportable]` traits from two small alphabets (argument kinds and
// return kinds) and writes them, together with recording implementations, caller shims and a
// metadata table, to `$OUT_DIR/family.rs`. Nothing is hand-picked: the family is
//   A  every 1-argument signature  (argument kind x return kind)
//   B  every 2-argument signature with return `u32` (pair alphabet x pair alphabet)
//   C  every 0-argument signature (return kind)
//   F  every 3-argument signature over a reduced alphabet, return `u32`        (thorough)
//   H  every 3-argument signature over {u32, &dyn Fn, &[O], &[Option<u32>]}: compile-time sized
//      arguments next to serialized slices, return `u32`                        (thorough)
//   R  every quick signature again with the other receiver (`&self` <-> `&mut self`) (thorough)
//   D  methods with 64 arguments (the maximum), a trait with a 65-argument method
//   E  traits with 64, 65 and 200 methods (connection-time behaviour)
// The helper functions named `mk_*`, `obs_*`, `fin_*`, `ret_*`, `rv_*` live in `src/support.rs`.
//
// The argument alphabet has three regions that matter for the caller's buffer strategy (a
// method whose arguments ALL have a compile-time known encoded size gets a fixed stack array,
// every other method the inline/spill FlexBuffer):
//   * `fixed` kinds: primitives of several widths, tuples of primitives (arrays are not accepted by the
//     macro), Option<()>,
//     trait objects and closures
//   * references and slices whose target is layout-stable (travel as a pointer / fat pointer
//     between identical layouts): &u32, &S, &[u32], &[u8], &[S], &[P], &[(u32,u32)], &[String]
//   * references and slices whose target is NOT layout-stable (Option / enum without repr
//     inside) and which are therefore serialized, with a size that depends on the value:
//     &[O], &[Option<u32>], &[E], &Vec<O>, &O, &E, &Option<String>
use std::fmt::Write as _;

#[derive(Clone, Copy)]
struct AK {
    id: &'static str,
    ty: &'static str,
    /// expression handed to the method, `$` = name of the holder variable made by `mk_<id>`
    pass: &'static str,
    /// travels as a reference (forbidden together with a future return)
    is_ref: bool,
    /// the derive macro knows the encoded size at compile time (fixed stack buffer instead of FlexBuffer)
    fixed: bool,
    /// ownership of an object moves to the implementation
    owned: bool,
    /// a closure the implementation calls during the call
    closure: bool,
    quick: bool,
    /// member of the pair alphabet of group B (and of group R through it)
    pair: bool,
}

const AKS: &[AK] = &[
    AK { id: "u32", ty: "u32", pass: "$", is_ref: false, fixed: true, owned: false, closure: false, quick: true, pair: true },
    AK { id: "ru32", ty: "&u32", pass: "&$", is_ref: true, fixed: false, owned: false, closure: false, quick: true, pair: true },
    AK { id: "string", ty: "String", pass: "$", is_ref: false, fixed: false, owned: false, closure: false, quick: true, pair: true },
    AK { id: "str", ty: "&str", pass: "$.as_str()", is_ref: true, fixed: false, owned: false, closure: false, quick: true, pair: true },
    AK { id: "slice", ty: "&[u32]", pass: "$.as_slice()", is_ref: true, fixed: false, owned: false, closure: false, quick: true, pair: true },
    AK { id: "s", ty: "S", pass: "$", is_ref: false, fixed: false, owned: false, closure: false, quick: true, pair: true },
    AK { id: "rs", ty: "&S", pass: "&$", is_ref: true, fixed: false, owned: false, closure: false, quick: true, pair: true },
    AK { id: "vecs", ty: "Vec<S>", pass: "$", is_ref: false, fixed: false, owned: false, closure: false, quick: true, pair: true },
    AK { id: "boxt2", ty: "Box<dyn T2>", pass: "$", is_ref: false, fixed: true, owned: true, closure: false, quick: true, pair: true },
    AK { id: "rfn", ty: "&dyn Fn(u32) -> u32", pass: "&$", is_ref: true, fixed: true, owned: false, closure: true, quick: true, pair: true },
    AK { id: "rfnmut", ty: "&mut dyn FnMut(u32)", pass: "&mut $", is_ref: true, fixed: true, owned: false, closure: true, quick: true, pair: true },
    AK { id: "boxfn", ty: "Box<dyn Fn(u32) -> u32>", pass: "$", is_ref: false, fixed: true, owned: true, closure: true, quick: true, pair: true },
    // a reference that is serialized even between identical layouts (Option has no defined layout)
    AK { id: "ropt", ty: "&Option<u32>", pass: "&$", is_ref: true, fixed: false, owned: false, closure: false, quick: true, pair: true },
    // thorough-only kinds
    AK { id: "rt2", ty: "&dyn T2", pass: "&*$", is_ref: true, fixed: true, owned: false, closure: false, quick: false, pair: true },
    AK { id: "rmt2", ty: "&mut dyn T2", pass: "&mut *$", is_ref: true, fixed: true, owned: false, closure: false, quick: false, pair: true },
    AK { id: "rstring", ty: "&String", pass: "&$", is_ref: true, fixed: false, owned: false, closure: false, quick: false, pair: true },
    AK { id: "p", ty: "P", pass: "$", is_ref: false, fixed: false, owned: false, closure: false, quick: false, pair: true },
    AK { id: "rp", ty: "&P", pass: "&$", is_ref: true, fixed: false, owned: false, closure: false, quick: false, pair: true },
    AK { id: "boxfnmut", ty: "Box<dyn FnMut(u32)>", pass: "$", is_ref: false, fixed: true, owned: true, closure: true, quick: false, pair: true },
    AK { id: "boxfnss", ty: "Box<dyn Fn(u32) -> u32 + Send + Sync>", pass: "$", is_ref: false, fixed: true, owned: true, closure: true, quick: false, pair: true },
    AK { id: "rfnstr", ty: "&dyn Fn(&str, String) -> String", pass: "&$", is_ref: true, fixed: true, owned: false, closure: true, quick: false, pair: true },
    AK { id: "tup", ty: "(u32, String)", pass: "$", is_ref: false, fixed: false, owned: false, closure: false, quick: false, pair: true },
    AK { id: "optstring", ty: "Option<String>", pass: "$", is_ref: false, fixed: false, owned: false, closure: false, quick: false, pair: true },
    // ---- slices over the element alphabet {O, Option<u32>, E, u8, S, String, P, (u32,u32)} (u32 above)
    AK { id: "slo", ty: "&[O]", pass: "$.as_slice()", is_ref: true, fixed: false, owned: false, closure: false, quick: true, pair: true },
    AK { id: "slopt", ty: "&[Option<u32>]", pass: "$.as_slice()", is_ref: true, fixed: false, owned: false, closure: false, quick: true, pair: true },
    AK { id: "sle", ty: "&[E]", pass: "$.as_slice()", is_ref: true, fixed: false, owned: false, closure: false, quick: true, pair: false },
    AK { id: "slu8", ty: "&[u8]", pass: "$.as_slice()", is_ref: true, fixed: false, owned: false, closure: false, quick: true, pair: false },
    AK { id: "sls", ty: "&[S]", pass: "$.as_slice()", is_ref: true, fixed: false, owned: false, closure: false, quick: true, pair: false },
    AK { id: "slstring", ty: "&[String]", pass: "$.as_slice()", is_ref: true, fixed: false, owned: false, closure: false, quick: false, pair: false },
    AK { id: "slp", ty: "&[P]", pass: "$.as_slice()", is_ref: true, fixed: false, owned: false, closure: false, quick: false, pair: false },
    AK { id: "sltup", ty: "&[(u32, u32)]", pass: "$.as_slice()", is_ref: true, fixed: false, owned: false, closure: false, quick: false, pair: false },
    // ---- references to plain data that is serialized with a value-dependent size
    AK { id: "rvo", ty: "&Vec<O>", pass: "&$", is_ref: true, fixed: false, owned: false, closure: false, quick: true, pair: true },
    AK { id: "ro", ty: "&O", pass: "&$", is_ref: true, fixed: false, owned: false, closure: false, quick: true, pair: false },
    AK { id: "re", ty: "&E", pass: "&$", is_ref: true, fixed: false, owned: false, closure: false, quick: false, pair: false },
    AK { id: "roptstring", ty: "&Option<String>", pass: "&$", is_ref: true, fixed: false, owned: false, closure: false, quick: false, pair: false },
    AK { id: "rvu32", ty: "&Vec<u32>", pass: "&$", is_ref: true, fixed: false, owned: false, closure: false, quick: false, pair: false },
    // ---- by-value plain data of compile-time known size (fixed stack buffer)
    AK { id: "u8", ty: "u8", pass: "$", is_ref: false, fixed: true, owned: false, closure: false, quick: true, pair: false },
    AK { id: "u64", ty: "u64", pass: "$", is_ref: false, fixed: true, owned: false, closure: false, quick: true, pair: true },
    AK { id: "tup2", ty: "(u32, u32)", pass: "$", is_ref: false, fixed: true, owned: false, closure: false, quick: true, pair: false },
    AK { id: "tup3", ty: "(u8, u8, u8)", pass: "$", is_ref: false, fixed: true, owned: false, closure: false, quick: true, pair: false },
    AK { id: "bool", ty: "bool", pass: "$", is_ref: false, fixed: true, owned: false, closure: false, quick: false, pair: false },
    AK { id: "char", ty: "char", pass: "$", is_ref: false, fixed: true, owned: false, closure: false, quick: false, pair: false },
    AK { id: "optunit", ty: "Option<()>", pass: "$", is_ref: false, fixed: true, owned: false, closure: false, quick: false, pair: false },
    // ---- by-value data with Option / enum inside
    AK { id: "o", ty: "O", pass: "$", is_ref: false, fixed: false, owned: false, closure: false, quick: false, pair: false },
    AK { id: "e", ty: "E", pass: "$", is_ref: false, fixed: false, owned: false, closure: false, quick: false, pair: false },
    AK { id: "veco", ty: "Vec<O>", pass: "$", is_ref: false, fixed: false, owned: false, closure: false, quick: false, pair: false },
];

#[derive(Clone, Copy)]
struct RK {
    id: &'static str,
    /// empty = no return type
    ty: &'static str,
    future: bool,
    /// an owned object travels back to the caller
    owned: bool,
    quick: bool,
}

const RKS: &[RK] = &[
    RK { id: "unit", ty: "", future: false, owned: false, quick: true },
    RK { id: "u32", ty: "u32", future: false, owned: false, quick: true },
    RK { id: "string", ty: "String", future: false, owned: false, quick: true },
    RK { id: "s", ty: "S", future: false, owned: false, quick: true },
    RK { id: "res", ty: "Result<u32, String>", future: false, owned: false, quick: true },
    RK { id: "boxt2", ty: "Box<dyn T2>", future: false, owned: true, quick: true },
    RK { id: "boxfn", ty: "Box<dyn Fn(u32) -> u32>", future: false, owned: true, quick: true },
    RK { id: "fut", ty: "Pin<Box<dyn Future<Output = u32>>>", future: true, owned: true, quick: true },
    RK { id: "vecu32", ty: "Vec<u32>", future: false, owned: false, quick: true },
    // thorough-only kinds
    RK { id: "sstr", ty: "&'static str", future: false, owned: false, quick: false },
    RK { id: "resbox", ty: "Result<Box<dyn T2>, String>", future: false, owned: true, quick: false },
    RK { id: "opt", ty: "Option<u32>", future: false, owned: false, quick: false },
    RK { id: "vecs", ty: "Vec<S>", future: false, owned: false, quick: false },
    RK { id: "p", ty: "P", future: false, owned: false, quick: false },
    // ---- compile-time sized returns of other widths (fixed return buffer in the callee), data
    //      with Option / enum inside
    RK { id: "u64", ty: "u64", future: false, owned: false, quick: true },
    RK { id: "tup2", ty: "(u32, u32)", future: false, owned: false, quick: true },
    RK { id: "tup3", ty: "(u8, u8, u8)", future: false, owned: false, quick: false },
    RK { id: "u8", ty: "u8", future: false, owned: false, quick: false },
    RK { id: "veco", ty: "Vec<O>", future: false, owned: false, quick: false },
    RK { id: "e", ty: "E", future: false, owned: false, quick: false },
];

struct Method {
    name: String,
    recv_mut: bool,
    args: Vec<AK>,
    ret: RK,
    group: &'static str,
}

struct Trait {
    name: String,
    quick: bool,
    /// runs in a worker that is restarted afterwards if connecting panics (global mutex poisoned)
    isolate: bool,
    /// a connection may legitimately be refused (more than 64 arguments)
    outside_domain: bool,
    methods: Vec<Method>,
}

fn ak(id: &str) -> AK {
    *AKS.iter().find(|k| k.id == id).unwrap()
}
fn rk(id: &str) -> RK {
    *RKS.iter().find(|k| k.id == id).unwrap()
}

const PER_TRAIT: usize = 40;

fn pack(prefix: &str, quick: bool, sigs: Vec<(Vec<AK>, RK, &'static str, Option<bool>)>, out: &mut Vec<Trait>) {
    for (ti, chunk) in sigs.chunks(PER_TRAIT).enumerate() {
        let mut methods = vec![];
        for (mi, (args, ret, group, recv)) in chunk.iter().enumerate() {
            let global = ti * PER_TRAIT + mi;
            methods.push(Method {
                name: format!("m{}", mi),
                // receivers alternate unless the signature asks for a specific one
                recv_mut: recv.unwrap_or(global % 2 == 1),
                args: args.clone(),
                ret: *ret,
                group,
            });
        }
        out.push(Trait { name: format!("{}{:03}", prefix, ti), quick, isolate: false, outside_domain: false, methods });
    }
}

fn family() -> Vec<Trait> {
    let mut traits = vec![];
    // ---- quick family: A, B, C over the quick alphabets
    let mut q: Vec<(Vec<AK>, RK, &'static str, Option<bool>)> = vec![];
    let mut t: Vec<(Vec<AK>, RK, &'static str, Option<bool>)> = vec![];
    for r in RKS {
        let dst = if r.quick { &mut q } else { &mut t };
        dst.push((vec![], *r, "C", None));
    }
    for a in AKS {
        for r in RKS {
            if r.future && a.is_ref {
                continue; // rejected by the derive macro: reference arguments with a future return
            }
            let dst = if a.quick && r.quick { &mut q } else { &mut t };
            dst.push((vec![*a], *r, "A", None));
        }
    }
    for a in AKS.iter().filter(|k| k.pair) {
        for b in AKS.iter().filter(|k| k.pair) {
            let dst = if a.quick && b.quick { &mut q } else { &mut t };
            dst.push((vec![*a, *b], rk("u32"), "B", None));
        }
    }
    // ---- thorough: 3 arguments over a reduced alphabet
    let red = ["string", "str", "ru32", "boxfn"];
    for a in red {
        for b in red {
            for c in red {
                t.push((vec![ak(a), ak(b), ak(c)], rk("u32"), "F", None));
            }
        }
    }
    // ---- thorough: 3 arguments, compile-time sized kinds next to serialized slices
    let red2 = ["u32", "rfn", "slo", "slopt"];
    for a in red2 {
        for b in red2 {
            for c in red2 {
                t.push((vec![ak(a), ak(b), ak(c)], rk("u32"), "H", None));
            }
        }
    }
    // ---- thorough: every quick signature with the other receiver
    let flipped: Vec<_> = q
        .iter()
        .enumerate()
        .map(|(i, (args, ret, _g, _))| (args.clone(), *ret, "R", Some(i % 2 == 0)))
        .collect();
    pack("TrQ", true, q, &mut traits);
    pack("TrT", false, t, &mut traits);
    pack("TrR", false, flipped, &mut traits);

    // ---- D: maximum argument count
    let mixed = ["u32", "ru32", "string", "str", "slice", "s", "rs"];
    let fixedmix = ["u8", "u32", "u64", "tup2", "tup3"];
    traits.push(Trait {
        name: "TrArgs64".into(),
        quick: true,
        isolate: false,
        outside_domain: false,
        methods: vec![
            Method { name: "m0".into(), recv_mut: false, args: (0..64).map(|_| ak("u32")).collect(), ret: rk("u32"), group: "D" },
            Method { name: "m1".into(), recv_mut: true, args: (0..64).map(|i| ak(mixed[i % mixed.len()])).collect(), ret: rk("u32"), group: "D" },
            Method { name: "m2".into(), recv_mut: false, args: (0..64).map(|i| ak(mixed[(i + 1) % mixed.len()])).collect(), ret: rk("string"), group: "D" },
            // 64 compile-time sized arguments of different widths: one fixed stack array
            Method { name: "m3".into(), recv_mut: false, args: (0..64).map(|i| ak(fixedmix[i % fixedmix.len()])).collect(), ret: rk("u64"), group: "D" },
            // the same with a serialized slice at both ends
            Method {
                name: "m4".into(),
                recv_mut: true,
                args: (0..64).map(|i| if i == 0 { ak("slo") } else if i == 63 { ak("slopt") } else { ak(fixedmix[i % fixedmix.len()]) }).collect(),
                ret: rk("u32"),
                group: "D",
            },
        ],
    });
    traits.push(Trait {
        name: "TrArgs65".into(),
        quick: true,
        isolate: true,
        outside_domain: true,
        methods: vec![Method { name: "m0".into(), recv_mut: false, args: (0..65).map(|_| ak("u32")).collect(), ret: rk("u32"), group: "D" }],
    });
    // ---- E: method counts (the service method `zz_after` counts too)
    for (n, quick) in [(64usize, true), (65, true), (200, false)] {
        let mut methods = vec![];
        for i in 0..n - 1 {
            let (args, ret) = match i % 4 {
                0 => (vec![ak("u32")], rk("u32")),
                1 => (vec![ak("str")], rk("string")),
                2 => (vec![ak("string"), ak("ru32")], rk("u32")),
                _ => (vec![], rk("u32")),
            };
            methods.push(Method { name: format!("m{}", i), recv_mut: i % 2 == 1, args, ret, group: "E" });
        }
        traits.push(Trait { name: format!("TrM{}", n), quick, isolate: true, outside_domain: false, methods });
    }
    traits
}

/// number of shard crates (`shards/s0` .. ) the generated traits are spread over
const NSHARDS: usize = 6;

/// Deterministic, balanced assignment trait -> shard: heaviest first onto the lightest shard.
fn shard_assignment(traits: &[Trait]) -> Vec<usize> {
    let weight = |t: &Trait| -> usize { t.methods.iter().map(|m| 4 + m.args.len()).sum() };
    let mut order: Vec<usize> = (0..traits.len()).collect();
    order.sort_by_key(|i| (std::cmp::Reverse(weight(&traits[*i])), *i));
    let mut load = vec![0usize; NSHARDS];
    let mut out = vec![0usize; traits.len()];
    for i in order {
        let s = (0..NSHARDS).min_by_key(|s| (load[*s], *s)).unwrap();
        out[i] = s;
        load[s] += weight(&traits[i]);
    }
    out
}

/// The generated source of one shard crate.
fn emit_traits(shard: usize) -> String {
    let traits = family();
    let assignment = shard_assignment(&traits);
    let mut o = String::new();
    for (ord, t) in traits.iter().enumerate() {
        if assignment[ord] != shard {
            continue;
        }
        let tn = &t.name;
        // trait
        writeln!(o, "#[savefile_abi_exportable(version = 0)]\npub trait {} {{", tn).unwrap();
        for m in &t.methods {
            let recv = if m.recv_mut { "&mut self" } else { "&self" };
            let args: Vec<String> = m.args.iter().enumerate().map(|(i, a)| format!("a{}: {}", i, a.ty)).collect();
            let ret = if m.ret.ty.is_empty() { String::new() } else { format!(" -> {}", m.ret.ty) };
            let sep = if args.is_empty() { "" } else { ", " };
            writeln!(o, "    fn {}({}{}{}){};", m.name, recv, sep, args.join(", "), ret).unwrap();
        }
        writeln!(o, "    fn zz_after(&mut self, x: u32) -> u32;\n}}").unwrap();
        // recording implementation
        writeln!(o, "pub struct Im{} {{ cx: ImplCtx }}\nimpl {} for Im{} {{", tn, tn, tn).unwrap();
        for m in &t.methods {
            let recv = if m.recv_mut { "&mut self" } else { "&self" };
            let args: Vec<String> = m.args.iter().enumerate().map(|(i, a)| format!("mut a{}: {}", i, a.ty)).collect();
            let ret = if m.ret.ty.is_empty() { String::new() } else { format!(" -> {}", m.ret.ty) };
            let sep = if args.is_empty() { "" } else { ", " };
            writeln!(o, "    fn {}({}{}{}){} {{", m.name, recv, sep, args.join(", "), ret).unwrap();
            writeln!(o, "        self.cx.enter(\"{}\");", m.name).unwrap();
            for (i, a) in m.args.iter().enumerate() {
                writeln!(o, "        obs_{}(&self.cx, {}, &mut a{});", a.id, i, i).unwrap();
            }
            writeln!(o, "        self.cx.body();").unwrap();
            for (i, a) in m.args.iter().enumerate() {
                if a.owned {
                    writeln!(o, "        fin_{}(&self.cx, {}, a{});", a.id, i, i).unwrap();
                }
            }
            writeln!(o, "        ret_{}(&self.cx)\n    }}", m.ret.id).unwrap();
        }
        writeln!(o, "    fn zz_after(&mut self, x: u32) -> u32 {{ self.cx.after(x) }}\n}}").unwrap();
        // caller shims
        for m in &t.methods {
            writeln!(o, "fn c_{}_{}(t: &mut dyn {}, cc: &CallCtx, args: &[Value]) -> Value {{", tn, m.name, tn).unwrap();
            for (i, a) in m.args.iter().enumerate() {
                writeln!(o, "    let mut h{} = mk_{}(cc, {}, &args[{}]);", i, a.id, i, i).unwrap();
            }
            let pass: Vec<String> = m.args.iter().enumerate().map(|(i, a)| a.pass.replace('$', &format!("h{}", i))).collect();
            writeln!(o, "    let r = t.{}({});", m.name, pass.join(", ")).unwrap();
            writeln!(o, "    rv_{}(cc, r)\n}}", m.ret.id).unwrap();
        }
        writeln!(o, "fn disp_{}(t: &mut dyn {}, m: usize, cc: &CallCtx, args: &[Value]) -> Value {{\n    match m {{", tn, tn).unwrap();
        for (mi, m) in t.methods.iter().enumerate() {
            writeln!(o, "        {} => c_{}_{}(t, cc, args),", mi, tn, m.name).unwrap();
        }
        writeln!(o, "        _ => unreachable!(),\n    }}\n}}").unwrap();
        writeln!(
            o,
            "pub struct D{tn}(Box<dyn {tn}>);\npub struct A{tn}(AbiConnection<dyn {tn}>);\n\
             impl Target for D{tn} {{\n    fn call(&mut self, m: usize, cc: &CallCtx, args: &[Value]) -> Value {{ disp_{tn}(&mut *self.0, m, cc, args) }}\n    fn after(&mut self, x: u32) -> u32 {{ self.0.zz_after(x) }}\n    fn passable(&self, _m: &str, _i: usize) -> Option<bool> {{ None }}\n}}\n\
             impl Target for A{tn} {{\n    fn call(&mut self, m: usize, cc: &CallCtx, args: &[Value]) -> Value {{ disp_{tn}(&mut self.0, m, cc, args) }}\n    fn after(&mut self, x: u32) -> u32 {{ self.0.zz_after(x) }}\n    fn passable(&self, m: &str, i: usize) -> Option<bool> {{ Some(self.0.get_arg_passable_by_ref(m, i)) }}\n}}\n\
             fn mk_{tn}(abi: bool, cx: ImplCtx) -> Result<Box<dyn Target>, String> {{\n    let b: Box<dyn {tn}> = Box::new(Im{tn} {{ cx }});\n    if abi {{\n        match AbiConnection::from_boxed_trait(b) {{\n            Ok(c) => Ok(Box::new(A{tn}(c))),\n            Err(e) => Err(format!(\"{{:?}}\", e)),\n        }}\n    }} else {{\n        Ok(Box::new(D{tn}(b)))\n    }}\n}}",
            tn = tn
        )
        .unwrap();
    }
    writeln!(o, "pub static TRAITS: &[TraitMeta] = &[").unwrap();
    for (ord, t) in traits.iter().enumerate() {
        if assignment[ord] != shard {
            continue;
        }
        writeln!(
            o,
            "    TraitMeta {{ ord: {}, name: {:?}, quick: {}, isolate: {}, outside_domain: {}, make: mk_{}, methods: &[",
            ord, t.name, t.quick, t.isolate, t.outside_domain, t.name
        )
        .unwrap();
        for m in &t.methods {
            let args: Vec<String> = m.args.iter().map(|a| format!("{:?}", a.id)).collect();
            writeln!(
                o,
                "        MethodMeta {{ name: {:?}, recv_mut: {}, args: &[{}], ret: {:?}, group: {:?} }},",
                m.name,
                m.recv_mut,
                args.join(", "),
                m.ret.id,
                m.group
            )
            .unwrap();
        }
        writeln!(o, "    ] }},").unwrap();
    }
    writeln!(o, "];").unwrap();
    o
}

/// The alphabets as data (for `vabi09fam::meta`).
fn emit_meta() -> String {
    let mut o = String::new();
    writeln!(o, "pub static ARG_KINDS: &[ArgKindMeta] = &[").unwrap();
    for a in AKS {
        writeln!(
            o,
            "    ArgKindMeta {{ id: {:?}, ty: {:?}, is_ref: {}, fixed: {}, owned: {}, closure: {}, quick: {}, pair: {} }},",
            a.id, a.ty, a.is_ref, a.fixed, a.owned, a.closure, a.quick, a.pair
        )
        .unwrap();
    }
    writeln!(o, "];\npub static RET_KINDS: &[RetKindMeta] = &[").unwrap();
    for r in RKS {
        writeln!(o, "    RetKindMeta {{ id: {:?}, ty: {:?}, future: {}, owned: {}, quick: {} }},", r.id, r.ty, r.future, r.owned, r.quick).unwrap();
    }
    writeln!(o, "];").unwrap();
    writeln!(o, "pub const N_TRAITS: usize = {};", family().len()).unwrap();
    o
}
