//! Build script of `vabi09fam`: writes the alphabets of the interface family as data
//! (`$OUT_DIR/meta.rs`). The generated traits themselves are compiled in the shard crates
//! `shards/s*`, which include the same generator (`gen.rs`).
#![allow(dead_code)]
include!("gen.rs");

fn main() {
    println!("cargo:rerun-if-changed=build.rs");
    println!("cargo:rerun-if-changed=gen.rs");
    let out = std::path::PathBuf::from(std::env::var("OUT_DIR").unwrap()).join("meta.rs");
    std::fs::write(out, emit_meta()).unwrap();
}
