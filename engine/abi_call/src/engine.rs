//! Execution of one case in one mode (direct / through an `AbiConnection`) and the oracles that
//! compare the two runs.
use crate::cases::{model_arg_size, model_block, pointer_size, Case};
use vabi09fam::support::*;
use std::collections::BTreeMap;
use std::panic::{catch_unwind, AssertUnwindSafe};
use vcommon::serde_json::{json, Map, Value};
use vcommon::Violation;

/// Every trait of the family (the generated shards in the canonical order of the generator,
/// then the async member).
fn trait_table() -> &'static Vec<&'static TraitMeta> {
    static TABLE: std::sync::OnceLock<Vec<&'static TraitMeta>> = std::sync::OnceLock::new();
    TABLE.get_or_init(|| {
        let mut v: Vec<&'static TraitMeta> = vabi09fam_s0::TRAITS
            .iter()
            .chain(vabi09fam_s1::TRAITS.iter())
            .chain(vabi09fam_s2::TRAITS.iter())
            .chain(vabi09fam_s3::TRAITS.iter())
            .chain(vabi09fam_s4::TRAITS.iter())
            .chain(vabi09fam_s5::TRAITS.iter())
            .collect();
        v.sort_by_key(|t| t.ord);
        // every generated trait is compiled into exactly one shard
        let complete = v.len() == vabi09fam::family::N_TRAITS && v.iter().enumerate().all(|(i, t)| t.ord == i);
        if !complete {
            vcommon::machinery_error(&format!("the shard crates hold {} traits, the generator enumerates {}", v.len(), vabi09fam::family::N_TRAITS));
        }
        v.extend(vabi09fam::asyncfam::TRAITS.iter());
        v
    })
}
pub fn find_trait(name: &str) -> Option<&'static TraitMeta> {
    trait_table().iter().copied().find(|t| t.name == name)
}
pub fn all_traits() -> impl Iterator<Item = &'static TraitMeta> {
    trait_table().iter().copied()
}

/// run `f` with the panic hook silenced, returning the panic payload rendered as text
fn catch<T>(f: impl FnOnce() -> T) -> Result<T, String> {
    vcommon::GUARD_DEPTH.with(|d| d.set(d.get() + 1));
    let r = catch_unwind(AssertUnwindSafe(f));
    vcommon::GUARD_DEPTH.with(|d| d.set(d.get() - 1));
    r.map_err(|p| {
        let _ = vcommon::take_last_panic();
        if let Some(s) = p.downcast_ref::<&str>() {
            format!("str:{}", s)
        } else if let Some(s) = p.downcast_ref::<String>() {
            format!("String:{}", s)
        } else if let Some(n) = p.downcast_ref::<i32>() {
            format!("i32:{}", n)
        } else {
            "other".to_string()
        }
    })
}

pub enum Connect {
    Ok,
    /// `from_boxed_trait` returned an error
    Err(String),
    /// `from_boxed_trait` panicked (a global mutex of savefile-abi is now poisoned)
    Panic(String),
}

pub struct ModeRun {
    pub connect: Connect,
    pub log: Vec<Value>,
    /// payload of the panic of the first call, as seen by the caller
    pub panic1: Option<String>,
    /// panics of later steps (must not happen): (step, payload)
    pub later_panics: Vec<(String, String)>,
    pub passable: Vec<bool>,
    pub final_drops: Map<String, Value>,
    pub doubles: u32,
}

/// the panic happens during the call under test (and not in the destructor)
pub fn call_panics(kind: &str) -> bool {
    matches!(kind, "static_str" | "formatted_string" | "any" | "callback_static_str")
}
pub fn panic_site(kind: &str) -> &'static str {
    match kind {
        "none" => "none",
        "callback_static_str" => "callback",
        "drop_impl_static_str" => "drop",
        _ => "method_body",
    }
}
fn panic_code(kind: &str) -> u8 {
    match kind {
        "static_str" => PANIC_STATIC,
        "formatted_string" => PANIC_FORMATTED,
        "any" => PANIC_ANY,
        "drop_impl_static_str" => PANIC_IN_DROP,
        _ => PANIC_NONE,
    }
}

pub fn run_mode(tm: &TraitMeta, mi: usize, case: &Case, abi: bool) -> ModeRun {
    reset_world();
    let mm = &tm.methods[mi];
    let mut out = ModeRun { connect: Connect::Ok, log: vec![], panic1: None, later_panics: vec![], passable: vec![], final_drops: Map::new(), doubles: 0 };
    let icx = ImplCtx::new(case.ret.clone(), case.keep, panic_code(&case.panic));
    let mut target = match catch(|| (tm.make)(abi, icx)) {
        Ok(Ok(t)) => t,
        Ok(Err(e)) => {
            out.connect = Connect::Err(e);
            return out;
        }
        Err(p) => {
            out.connect = Connect::Panic(p);
            return out;
        }
    };
    if abi {
        for i in 0..mm.args.len() {
            out.passable.push(target.passable(mm.name, i).unwrap_or(false));
        }
    }
    let cc = CallCtx::new(case.ret.clone());
    checkpoint("connected");
    // ---- the call under test
    cc.next_call();
    if case.panic == "callback_static_str" {
        CB_PANIC.with(|c| c.set(true));
    }
    count_call();
    match catch(|| target.call(mi, &cc, &case.args)) {
        Ok(v) => log(json!({"ev": "ret", "v": v})),
        Err(p) => {
            out.panic1 = Some(p);
            log(json!({"ev": "panic"}));
        }
    }
    CB_PANIC.with(|c| c.set(false));
    checkpoint("after_call");
    // ---- second phase: stored objects are still callable
    let after = |target: &mut Box<dyn Target>, out: &mut ModeRun, step: &str| {
        count_call();
        match catch(|| target.after(7)) {
            Ok(n) => log(json!({"ev": "after", "n": n})),
            Err(p) => {
                out.later_panics.push((step.to_string(), p));
                log(json!({"ev": "after_panicked"}));
            }
        }
    };
    after(&mut target, &mut out, "after");
    checkpoint("after_after");
    {
        // ---- the connection stays usable (in particular after a panic): the same call again on
        //      the same connection, this time without a panic
        cc.next_call();
        count_call();
        match catch(|| target.call(mi, &cc, &case.args)) {
            Ok(v) => log(json!({"ev": "ret", "v": v})),
            Err(p) => {
                out.later_panics.push(("second_call".into(), p));
                log(json!({"ev": "panic"}));
            }
        }
        checkpoint("after_call2");
        after(&mut target, &mut out, "after2");
        checkpoint("after_after2");
    }
    // ---- tear down in the order of the case
    let teardown = |what: &str| match what {
        "ret" => {
            if let Err(p) = catch(|| cc.use_retained()) {
                log(json!({"ev": "retained_panicked"}));
                return Some(("use_retained".to_string(), p));
            }
            cc.drop_retained();
            checkpoint("ret_dropped");
            None
        }
        _ => unreachable!(),
    };
    // a destructor that panics: directly this is an ordinary (catchable) panic; what the
    // connection must not do is abort the process. Whether the caller sees the panic is not
    // compared (AbiProtocol::DropInstance has no way to report back).
    let drop_target = |t: Box<dyn Target>| {
        let _ = catch(move || drop(t));
    };
    if case.order == "conn_first" {
        drop_target(target);
        checkpoint("target_dropped");
        if let Some(e) = teardown("ret") {
            out.later_panics.push(e);
        }
    } else {
        if let Some(e) = teardown("ret") {
            out.later_panics.push(e);
        }
        drop_target(target);
        checkpoint("target_dropped");
    }
    drop(cc);
    out.final_drops = drop_snapshot();
    out.doubles = double_drops();
    out.log = take_log();
    out
}

#[derive(Default)]
pub struct Stats(pub BTreeMap<String, u64>);
impl Stats {
    pub fn add(&mut self, k: &str, n: u64) {
        *self.0.entry(k.to_string()).or_insert(0) += n;
    }
}

pub struct Outcome {
    pub violations: Vec<Violation>,
    /// the ABI connection could not be made by panicking: the process must be abandoned
    pub poisoned: bool,
    /// a disagreement inside the harness itself (direct run misbehaves)
    pub machinery: Option<String>,
}

fn expected_message(kind: &str) -> Option<&'static str> {
    match kind {
        "static_str" => Some(MSG_STATIC),
        "formatted_string" => Some(MSG_FORMATTED),
        "callback_static_str" => Some(MSG_CALLBACK),
        _ => None,
    }
}

fn oracle_of_event(ev: &Value) -> &'static str {
    match ev["ev"].as_str().unwrap_or("") {
        "arg" | "enter" => "observed_args",
        "cb" | "cbret" | "cbdone" | "t2.get" | "t2.set" => "callbacks",
        "ret" | "poll" | "retfn" => "returned_value",
        "drops" => "drops",
        "stored" | "after" | "after_panicked" | "retained" | "retained_panicked" => "stored_objects",
        "panic" => "panic_propagates",
        _ => "trace",
    }
}

/// Runs the case directly and through the ABI, evaluates all oracles.
pub fn check_case(tm: &'static TraitMeta, mi: usize, case: &Case, st: &mut Stats) -> Outcome {
    let mm = &tm.methods[mi];
    let mut out = Outcome { violations: vec![], poisoned: false, machinery: None };
    let direct = run_mode(tm, mi, case, false);
    let abi = run_mode(tm, mi, case, true);
    st.add("mode_runs", 2);

    let n_methods = tm.methods.len() + 1;
    let mut tags: BTreeMap<String, String> = vcommon::tags(&[
        ("trait", tm.name.to_string()),
        ("group", mm.group.to_string()),
        ("arg_kinds", mm.args.iter().map(|s| s.to_string()).collect::<std::collections::BTreeSet<_>>().into_iter().collect::<Vec<_>>().join(",")),
        ("ret_kind", mm.ret.to_string()),
        ("receiver", if mm.recv_mut { "mut" } else { "shared" }.to_string()),
        ("payload", case.panic.clone()),
        ("panic_site", panic_site(&case.panic).to_string()),
        ("keep", case.keep.to_string()),
        ("order", case.order.clone()),
        ("methods", if n_methods > 64 { "gt64" } else { "le64" }.to_string()),
        ("n_args", if mm.args.len() > 64 { "gt64" } else { "le64" }.to_string()),
    ]);
    let mut viol: Vec<Violation> = vec![];
    macro_rules! fail {
        ($oracle:expr, $tags:expr, $summary:expr $(,)?) => {
            viol.push(Violation { oracle: $oracle.to_string(), tags: ($tags).clone(), summary: $summary, case: case.to_json() })
        };
    }
    let label = format!("{}::{}({}) -> {}", tm.name, mm.name, mm.args.join(", "), mm.ret);
    // An argument that is itself an AbiConnection ("wrapped") makes the reference run go
    // through savefile-abi too: a misbehaving reference run is then a finding about the code,
    // not a harness problem.
    let reference_uses_abi = case.args.iter().any(|a| a["wrapped"].as_bool() == Some(true));
    tags.insert("wrapped_arg".into(), reference_uses_abi.to_string());
    macro_rules! reference_broken {
        ($oracle:expr, $msg:expr) => {{
            let msg: String = $msg;
            if reference_uses_abi {
                fail!($oracle, &tags, format!("(reference run with an AbiConnection-wrapped argument) {}", msg));
                out.violations = viol;
            } else {
                out.machinery = Some(msg);
            }
            return out;
        }};
    }

    // the direct run is the reference: it must itself be well-formed
    if !matches!(direct.connect, Connect::Ok) {
        out.machinery = Some(format!("direct target of {} could not be created", label));
        return out;
    }
    // ---- oracle: connection
    st.add("evaluations", 1);
    match &abi.connect {
        Connect::Ok => {
            st.add("oc.connected", 1);
        }
        Connect::Err(e) => {
            if tm.outside_domain {
                st.add("oc.connect_refused_outside_domain", 1);
            } else {
                st.add("oc.connect_err", 1);
                tags.insert("outcome".into(), "err".into());
                fail!("connect", &tags, format!("{}: AbiConnection::from_boxed_trait returned an error: {}", label, e.chars().take(300).collect::<String>()));
            }
            out.violations = viol;
            return out;
        }
        Connect::Panic(p) => {
            st.add("oc.connect_panic", 1);
            tags.insert("outcome".into(), "panic".into());
            fail!("connect", &tags, format!("{} ({} methods): AbiConnection::from_boxed_trait panicked: {}", label, n_methods, p.chars().take(300).collect::<String>()));
            out.poisoned = true;
            out.violations = viol;
            return out;
        }
    }
    st.add("traces_validated", 1);

    // ---- classification (non-triviality), measured on the ABI run
    let (flex, size) = model_block(mm, &case.args, &abi.passable);
    let spilled = flex && size > 64;
    let mut by_ref = false;
    let mut ser_ref = false;
    // a serialized reference whose encoding is larger than the pointer / fat pointer it would
    // be between layout-stable types; and the same where every OTHER argument has a
    // compile-time known size (only the reference keeps the method off the fixed stack array)
    let mut ser_ref_big = false;
    let mut ser_ref_big_among_sized = false;
    for (i, k) in mm.args.iter().enumerate() {
        let meta = arg_kind(k);
        if meta.is_ref && !meta.closure && !matches!(*k, "str" | "rt2" | "rmt2") {
            if abi.passable[i] {
                by_ref = true;
            } else {
                ser_ref = true;
                if model_arg_size(k, &case.args[i], false) > pointer_size(k) {
                    ser_ref_big = true;
                    if mm.args.iter().enumerate().all(|(j, o)| j == i || arg_kind(o).fixed) {
                        ser_ref_big_among_sized = true;
                    }
                }
            }
            st.add(&format!("byref.{}.{}", k, abi.passable[i]), 1);
        }
    }
    let owned = mm.args.iter().any(|k| arg_kind(k).owned) || ret_kind(mm.ret).owned;
    let is_future = ret_kind(mm.ret).future;
    let panicking = call_panics(&case.panic);
    if spilled {
        st.add("nt.spilled_argument_block", 1);
    }
    if flex && size == 64 {
        st.add("nt.block_exactly_64", 1);
    }
    if by_ref {
        st.add("nt.by_reference", 1);
    }
    if ser_ref {
        st.add("nt.reference_serialized", 1);
    }
    if ser_ref_big {
        st.add("nt.serialized_reference_larger_than_pointer", 1);
    }
    if ser_ref_big_among_sized {
        st.add("nt.serialized_reference_larger_than_pointer_all_other_args_sized", 1);
    }
    if !flex && !mm.args.is_empty() {
        st.add("nt.fixed_stack_block", 1);
    }
    if owned {
        st.add("nt.owned_object", 1);
    }
    if case.panic != "none" {
        st.add("nt.panic", 1);
    }
    if is_future {
        st.add("nt.future", 1);
    }
    if spilled || by_ref || ser_ref || owned || case.panic != "none" || is_future || (!flex && !mm.args.is_empty()) {
        st.add("nontrivial", 1);
    }

    // ---- oracle: panic behaviour
    if panicking {
        st.add("evaluations", 3);
        match (&direct.panic1, &abi.panic1) {
            (None, _) => {
                reference_broken!("panic_propagates", format!("direct run of {} did not panic for payload {}", label, case.panic));
            }
            (Some(_), None) => {
                st.add("oc.panic_lost", 1);
                fail!("panic_propagates", &tags, format!("{}: the implementation panicked ({}) but the call through the connection returned normally", label, case.panic));
            }
            (Some(_), Some(got)) => {
                if let Some(want) = expected_message(&case.panic) {
                    if got.contains(want) {
                        st.add("oc.panic_with_message", 1);
                    } else {
                        st.add("oc.panic_message_lost", 1);
                        fail!(
                            "panic_message",
                            &tags,
                            format!("{}: callee panicked with {} message {:?}; the caller's panic payload is {:?}", label, case.panic, want, got.chars().take(200).collect::<String>()),
                        );
                    }
                } else {
                    st.add("oc.panic_non_string_payload", 1);
                }
            }
        }
        for (step, p) in &abi.later_panics {
            fail!("usable_after_panic", &tags, format!("{}: after a {} panic, step {} on the same connection panicked: {}", label, case.panic, step, p.chars().take(200).collect::<String>()));
        }
    } else {
        st.add("evaluations", 1);
        if direct.panic1.is_some() {
            reference_broken!("panic_propagates", format!("direct run of {} panicked unexpectedly: {:?}", label, direct.panic1));
        }
        if let Some(p) = &abi.panic1 {
            st.add("oc.unexpected_panic", 1);
            fail!("panic_propagates", &tags, format!("{}: the call through the connection panicked although the implementation did not: {}", label, p.chars().take(300).collect::<String>()));
        } else {
            st.add("oc.returned", 1);
        }
        for (step, p) in &abi.later_panics {
            let oracle = if step == "second_call" { "second_call" } else { "stored_objects" };
            fail!(oracle, &tags, format!("{}: step {} panicked through the connection: {}", label, step, p.chars().take(200).collect::<String>()));
        }
    }
    if !direct.later_panics.is_empty() {
        reference_broken!("stored_objects", format!("direct run of {} panicked in a later step: {:?}", label, direct.later_panics));
    }

    // ---- oracle: the two traces are equal (arguments, callbacks, return value, drop counts at
    //      every checkpoint, behaviour of stored / returned objects)
    st.add("evaluations", 1);
    if direct.log != abi.log {
        let idx = direct.log.iter().zip(abi.log.iter()).position(|(a, b)| a != b).unwrap_or(direct.log.len().min(abi.log.len()));
        let d = direct.log.get(idx).cloned().unwrap_or(Value::Null);
        let a = abi.log.get(idx).cloned().unwrap_or(Value::Null);
        let oracle = oracle_of_event(if d.is_null() { &a } else { &d });
        let show = |v: &Value| v.to_string().chars().take(300).collect::<String>();
        st.add("oc.trace_differs", 1);
        // a lost panic / lost message already explains a shorter trace
        let already = viol.iter().any(|v| v.oracle == "panic_propagates" || v.oracle == "usable_after_panic");
        if !already {
            fail!(
                oracle,
                &tags,
                format!("{}: traces differ at event {} (direct {} events, ABI {} events): direct={} abi={}", label, idx, direct.log.len(), abi.log.len(), show(&d), show(&a)),
            );
        }
    }

    // ---- oracle: every owned object dropped exactly once, no double drop
    st.add("evaluations", 1);
    let bad = |m: &Map<String, Value>| -> Vec<String> { m.iter().filter(|(_, n)| n.as_u64() != Some(1)).map(|(l, n)| format!("{}={}", l, n)).collect() };
    let dbad = bad(&direct.final_drops);
    if !dbad.is_empty() || direct.doubles != 0 {
        reference_broken!("drop_exactly_once", format!("direct run of {} does not drop exactly once: {:?} doubles={}", label, dbad, direct.doubles));
    }
    let abad = bad(&abi.final_drops);
    if !abad.is_empty() || abi.doubles != 0 {
        st.add("oc.drop_count_wrong", 1);
        fail!("drop_exactly_once", &tags, format!("{}: objects not dropped exactly once through the connection: {:?}, double drops detected: {}", label, abad, abi.doubles));
    }
    st.add("objects_tracked", abi.final_drops.len() as u64);
    out.violations = viol;
    out
}
