//! Enumeration of the states of C09: for every generated method, the complete (bounded) list of
//! cases = argument values x return specification x ownership mode x panic payload kind x
//! drop order. Everything here is deterministic and contains no sampling.
use vabi09fam::support::{arg_kind, MethodMeta, TraitMeta};
use vcommon::serde_json::{json, Value};

#[derive(Clone, Debug)]
pub struct Case {
    pub tr: String,
    pub method: String,
    pub args: Vec<Value>,
    pub ret: Value,
    /// the implementation stores owned arguments and uses them in the next call
    pub keep: bool,
    /// none | static_str | formatted_string | any | callback_static_str | drop_impl_static_str
    pub panic: String,
    /// ret_first | conn_first: which of (returned objects, connection) is dropped first
    pub order: String,
}
impl Case {
    pub fn to_json(&self) -> Value {
        json!({"kind": "call", "trait": self.tr, "method": self.method, "args": self.args, "ret": self.ret,
               "keep": self.keep, "panic": self.panic, "order": self.order})
    }
    pub fn from_json(v: &Value) -> Option<Case> {
        Some(Case {
            tr: v["trait"].as_str()?.to_string(),
            method: v["method"].as_str()?.to_string(),
            args: v["args"].as_array()?.clone(),
            ret: v["ret"].clone(),
            keep: v["keep"].as_bool()?,
            panic: v["panic"].as_str()?.to_string(),
            order: v["order"].as_str()?.to_string(),
        })
    }
    pub fn key(&self) -> String {
        self.to_json().to_string()
    }
}

/// exactly `n` ASCII bytes, content depends on `n`
pub fn pat(n: usize) -> String {
    const A: &[u8] = b"abcdefghijklmnopqrstuvwxyz0123456789";
    (0..n).map(|i| A[(i + n % 7) % A.len()] as char).collect()
}

fn string_lens(thorough: bool) -> Vec<usize> {
    // EVERY length 0..=80: the argument block (4 bytes version + 8 bytes length + data, possibly
    // behind other arguments) crosses the 64-byte inline buffer at every possible split
    let mut v: Vec<usize> = (0..=80).collect();
    if thorough {
        v.extend(81..=140);
        v.extend([255, 256, 257, 1000, 4095, 4096, 4097, 70000]);
    }
    v
}
fn strings(thorough: bool) -> Vec<Value> {
    let mut v: Vec<Value> = string_lens(thorough).into_iter().map(|n| json!(pat(n))).collect();
    for s in ["\u{e4}", "\u{20ac}uro \u{1d11e}\u{1d11e}", "a\0b", "\u{10ffff}\u{7ff}\u{800}"] {
        v.push(json!(s));
    }
    // multi-byte text across the 64-byte boundary
    v.push(json!("\u{e4}".repeat(26)));
    v.push(json!(format!("x{}", "\u{20ac}".repeat(17))));
    v
}
fn u32s(thorough: bool) -> Vec<Value> {
    let mut v = vec![json!(0u32), json!(1u32), json!(0x0102_0304u32), json!(u32::MAX)];
    if thorough {
        v.extend([json!(255u32), json!(256u32), json!(65535u32), json!(65536u32), json!(0x8000_0000u32)]);
    }
    v
}
fn u32_vec(n: usize) -> Value {
    Value::Array((0..n as u32).map(|i| json!(i.wrapping_mul(0x0101_0101).wrapping_add(7))).collect())
}
fn vec_lens(thorough: bool) -> Vec<usize> {
    // 0,1,2 and 63,64,65 elements; 12,13,14 elements straddle 64 bytes when serialized (4+8+4n)
    let mut v = vec![0, 1, 2, 12, 13, 14, 63, 64, 65];
    if thorough {
        v.extend([3, 15, 16, 17, 255, 256, 257, 1000]);
    }
    v
}
fn s_val(a: u32, b: String, c: u8) -> Value {
    json!({"a": a, "b": b, "c": c})
}
fn s_vals(thorough: bool) -> Vec<Value> {
    // serialized S = 4 + 8 + len + 1; alone in a block (4 bytes version) it crosses 64 at len 47/48
    let mut v = vec![s_val(0, String::new(), 0), s_val(u32::MAX, "x".into(), 255)];
    let lens: Vec<usize> = if thorough { (0..=100).collect() } else { (40..=54).chain([80]).collect() };
    for n in lens {
        v.push(s_val(0x0a0b_0c0d, pat(n), (n % 256) as u8));
    }
    v
}
fn s_vec(n: usize) -> Value {
    Value::Array((0..n).map(|i| s_val(i as u32, pat(i % 5), (i % 256) as u8)).collect())
}
/// lengths of slices / vectors whose elements are serialized one by one: EVERY length of an
/// initial segment, so that the encoded size (8 bytes length + items of 1..6 bytes) passes every
/// small boundary (a pointer: 8, a fat pointer: 16, pointer + vtable + entry: 24, version +
/// fat pointer: 20, the inline buffer: 64) element by element
fn dense_lens(thorough: bool) -> Vec<usize> {
    let mut v: Vec<usize> = (0..=24).collect();
    if thorough {
        v.extend(25..=80);
        v.extend([255, 256, 257, 1000]);
    }
    v
}
fn o_val(w: u32, tag: Option<u8>) -> Value {
    json!({"w": w, "tag": tag})
}
/// mode 0: every third element without tag (5 bytes), the others with (6 bytes); 1: no tags; 2: all tagged
fn o_vec(n: usize, mode: u8) -> Value {
    Value::Array(
        (0..n)
            .map(|i| {
                let tag = match mode {
                    0 => if i % 3 == 0 { None } else { Some((i % 256) as u8) },
                    1 => None,
                    _ => Some((255 - i % 256) as u8),
                };
                o_val(10 * i as u32 + 1, tag)
            })
            .collect(),
    )
}
fn o_vecs(thorough: bool) -> Vec<Value> {
    let mut v: Vec<Value> = dense_lens(thorough).into_iter().map(|n| o_vec(n, 0)).collect();
    for n in 1..=12 {
        v.push(o_vec(n, 1));
        v.push(o_vec(n, 2));
    }
    v
}
fn o_vals() -> Vec<Value> {
    vec![o_val(0, None), o_val(7, Some(0)), o_val(u32::MAX, Some(255)), o_val(0x0102_0304, None)]
}
/// 1-byte (None) and 5-byte (Some) elements
fn opt_vec(n: usize, mode: u8) -> Value {
    Value::Array(
        (0..n)
            .map(|i| match mode {
                0 => if i % 3 == 0 { Value::Null } else { json!((i as u32).wrapping_mul(0x0101_0101)) },
                1 => Value::Null,
                _ => json!(u32::MAX - i as u32),
            })
            .collect(),
    )
}
fn opt_vecs(thorough: bool) -> Vec<Value> {
    let mut v: Vec<Value> = dense_lens(thorough).into_iter().map(|n| opt_vec(n, 0)).collect();
    // all-None: one byte per element, the encoded size takes every value 8..=88
    v.extend((1..=80).map(|n| opt_vec(n, 1)));
    v.extend((1..=16).map(|n| opt_vec(n, 2)));
    v
}
fn e_val(i: usize) -> Value {
    match i % 3 {
        0 => json!("A"),
        1 => json!({"B": (i as u32).wrapping_mul(0x0101_0101)}),
        _ => json!({"C": pat(i % 7)}),
    }
}
fn e_vec(n: usize) -> Value {
    Value::Array((0..n).map(e_val).collect())
}
fn e_vals() -> Vec<Value> {
    let mut v = vec![json!("A"), json!({"B": 0u32}), json!({"B": u32::MAX})];
    v.extend(string_lens(false).into_iter().map(|n| json!({"C": pat(n)})));
    v
}
fn u8_vec(n: usize) -> Value {
    Value::Array((0..n).map(|i| json!((i * 7 + 3) % 256)).collect())
}
fn u8_lens(thorough: bool) -> Vec<usize> {
    let mut v: Vec<usize> = (0..=80).collect();
    if thorough {
        v.extend([255, 256, 257, 1000, 70000]);
    }
    v
}
fn string_vec(n: usize) -> Value {
    Value::Array((0..n).map(|i| json!(pat(i % 9))).collect())
}
fn p_vec(n: usize) -> Value {
    Value::Array((0..n).map(|i| json!({"x": i as u32, "y": u32::MAX - i as u32})).collect())
}
fn tup_vec(n: usize) -> Value {
    Value::Array((0..n).map(|i| json!([i as u32, u32::MAX - i as u32])).collect())
}
fn u8s() -> Vec<Value> {
    vec![json!(0u8), json!(1u8), json!(127u8), json!(128u8), json!(255u8)]
}
fn u64s() -> Vec<Value> {
    vec![json!(0u64), json!(1u64), json!(u32::MAX as u64), json!(u32::MAX as u64 + 1), json!(0x0102_0304_0506_0708u64), json!(i64::MAX as u64 + 1), json!(u64::MAX)]
}
fn tup2s() -> Vec<Value> {
    vec![json!([0u32, 0u32]), json!([1u32, 2u32]), json!([u32::MAX, 0u32]), json!([0u32, u32::MAX]), json!([u32::MAX, u32::MAX]), json!([0x0102_0304u32, 0x0506_0708u32])]
}
fn tup3s() -> Vec<Value> {
    vec![json!([0u8, 0u8, 0u8]), json!([1u8, 2u8, 3u8]), json!([255u8, 0u8, 128u8]), json!([255u8, 255u8, 255u8])]
}
fn chars() -> Vec<Value> {
    vec![json!("a"), json!("\u{0}"), json!("\u{e4}"), json!("\u{20ac}"), json!("\u{d7ff}"), json!("\u{e000}"), json!("\u{10ffff}")]
}
fn closures() -> Vec<Value> {
    vec![json!({"mul": 1u32, "add": 0u32}), json!({"mul": 3u32, "add": 7u32}), json!({"mul": u32::MAX, "add": 1u32})]
}
fn bases() -> Vec<Value> {
    vec![json!({"base": 0u32}), json!({"base": 5u32}), json!({"base": u32::MAX})]
}
fn arg_bases() -> Vec<Value> {
    let mut v = bases();
    // the object passed in is itself an AbiConnection (came out of another connection)
    v.push(json!({"base": 5u32, "wrapped": true}));
    v
}

pub fn arg_values(kind: &str, thorough: bool) -> Vec<Value> {
    match kind {
        "u32" | "ru32" => u32s(thorough),
        "string" | "str" | "rstring" => strings(thorough),
        "slice" => vec_lens(thorough).into_iter().map(u32_vec).collect(),
        "s" | "rs" => s_vals(thorough),
        "vecs" => vec_lens(thorough).into_iter().filter(|n| *n <= 300).map(s_vec).collect(),
        "boxt2" | "rt2" | "rmt2" => arg_bases(),
        "rfn" | "rfnmut" | "boxfn" | "boxfnmut" | "boxfnss" => closures(),
        "rfnstr" => vec![json!({"suffix": ""}), json!({"suffix": "-s"}), json!({"suffix": pat(60)})],
        "ropt" => vec![Value::Null, json!(0u32), json!(u32::MAX)],
        "p" | "rp" => vec![json!({"x": 0u32, "y": 0u32}), json!({"x": 1u32, "y": 2u32}), json!({"x": u32::MAX, "y": u32::MAX})],
        "tup" => string_lens(false).into_iter().map(|n| json!([n as u32, pat(n)])).collect(),
        "optstring" => std::iter::once(Value::Null).chain(string_lens(false).into_iter().map(|n| json!(pat(n)))).collect(),
        "slo" | "rvo" | "veco" => o_vecs(thorough),
        "slopt" => opt_vecs(thorough),
        "sle" => dense_lens(thorough).into_iter().map(e_vec).collect(),
        "slu8" => u8_lens(thorough).into_iter().map(u8_vec).collect(),
        "sls" => (0..=8).chain(vec_lens(thorough)).filter(|n| *n <= 300).map(s_vec).collect(),
        "slstring" => (0..=8).chain(vec_lens(thorough)).map(string_vec).collect(),
        "slp" => (0..=8).chain(vec_lens(thorough)).map(p_vec).collect(),
        "sltup" => (0..=8).chain(vec_lens(thorough)).map(tup_vec).collect(),
        "ro" | "o" => o_vals(),
        "re" | "e" => e_vals(),
        "roptstring" => arg_values("optstring", thorough),
        "rvu32" => arg_values("slice", thorough),
        "u8" => u8s(),
        "u64" => u64s(),
        "tup2" => tup2s(),
        "tup3" => tup3s(),
        "bool" | "optunit" => vec![json!(false), json!(true)],
        "char" => chars(),
        k => vcommon::machinery_error(&format!("no value list for argument kind {}", k)),
    }
}
pub fn arg_default(kind: &str) -> Value {
    match kind {
        "u32" | "ru32" => json!(7u32),
        "string" | "str" | "rstring" => json!("hello"),
        "slice" => json!([1u32, 2u32, 3u32]),
        "s" | "rs" => s_val(1, "bee".into(), 2),
        "vecs" => Value::Array(vec![s_val(1, "bee".into(), 2)]),
        "boxt2" | "rt2" | "rmt2" => json!({"base": 5u32}),
        "rfn" | "rfnmut" | "boxfn" | "boxfnmut" | "boxfnss" => json!({"mul": 3u32, "add": 7u32}),
        "rfnstr" => json!({"suffix": "-s"}),
        "ropt" => json!(9u32),
        "p" | "rp" => json!({"x": 1u32, "y": 2u32}),
        "tup" => json!([7u32, "tup"]),
        "optstring" => json!("opt"),
        // the defaults of the serialized slices / vectors are larger than a fat pointer
        "slo" | "rvo" | "veco" => o_vec(3, 0),
        "slopt" => opt_vec(4, 0),
        "sle" => e_vec(3),
        "slu8" => u8_vec(3),
        "sls" => s_vec(1),
        "slstring" => string_vec(2),
        "slp" => p_vec(1),
        "sltup" => tup_vec(1),
        "ro" | "o" => o_val(7, Some(9)),
        "re" | "e" => json!({"C": "cee"}),
        "roptstring" => json!("opt"),
        "rvu32" => json!([1u32, 2u32, 3u32]),
        "u8" => json!(200u8),
        "u64" => json!(0x0102_0304_0506_0708u64),
        "tup2" => json!([1u32, 2u32]),
        "tup3" => json!([1u8, 2u8, 3u8]),
        "bool" | "optunit" => json!(true),
        "char" => json!("x"),
        k => vcommon::machinery_error(&format!("no default for argument kind {}", k)),
    }
}
fn future_schedules(thorough: bool) -> Vec<Value> {
    let mut v = vec![];
    let maxp = if thorough { 4 } else { 2 };
    for pending in 0..=maxp {
        for wake in ["during", "deferred"] {
            for val in [0x0102_0304u32, u32::MAX] {
                v.push(json!({"pending": pending, "val": val, "wake": wake}));
            }
            // the caller gives up after `d` polls and drops the unfinished future
            for d in 0..=pending {
                v.push(json!({"pending": pending, "val": 5u32, "wake": wake, "drop_after": d}));
            }
        }
    }
    v
}
pub fn ret_values(kind: &str, thorough: bool) -> Vec<Value> {
    match kind {
        "unit" => vec![Value::Null],
        "u32" => u32s(thorough),
        "string" => strings(thorough),
        "s" => s_vals(thorough),
        "p" => arg_values("p", thorough),
        "res" => {
            let mut v = vec![json!({"ok": 0u32}), json!({"ok": u32::MAX})];
            v.extend(strings(thorough).into_iter().map(|s| json!({ "err": s })));
            v
        }
        "opt" => vec![Value::Null, json!(0u32), json!(u32::MAX)],
        "vecu32" => vec_lens(thorough).into_iter().map(u32_vec).collect(),
        "vecs" => vec_lens(thorough).into_iter().filter(|n| *n <= 300).map(s_vec).collect(),
        "sstr" => (0..4u32).map(|i| json!(i)).collect(),
        "boxt2" => bases(),
        "resbox" => {
            let mut v: Vec<Value> = bases().into_iter().map(|b| json!({ "ok": b })).collect();
            v.extend([json!({"err": ""}), json!({"err": pat(52)}), json!({"err": pat(70)})]);
            v
        }
        "boxfn" => closures(),
        "fut" | "afut_u32" => future_schedules(thorough),
        "afut_string" => {
            let mut v = vec![];
            for s in strings(false) {
                v.push(json!({"pending": 1u32, "sval": s, "wake": "during"}));
            }
            for sch in future_schedules(thorough) {
                let mut sch = sch;
                sch["sval"] = json!(pat(70));
                v.push(sch);
            }
            v
        }
        "u64" => u64s(),
        "u8" => u8s(),
        "tup2" => tup2s(),
        "tup3" => tup3s(),
        "veco" => o_vecs(thorough),
        "e" => e_vals(),
        k => vcommon::machinery_error(&format!("no value list for return kind {}", k)),
    }
}
pub fn ret_default(kind: &str) -> Value {
    match kind {
        "unit" => Value::Null,
        "u32" | "opt" => json!(11u32),
        "string" => json!("ret"),
        "s" => s_val(3, "ess".into(), 4),
        "p" => json!({"x": 1u32, "y": 2u32}),
        "res" => json!({"ok": 11u32}),
        "vecu32" => json!([1u32, 2u32, 3u32]),
        "vecs" => Value::Array(vec![s_val(3, "ess".into(), 4)]),
        "sstr" => json!(1u32),
        "boxt2" => json!({"base": 5u32}),
        "resbox" => json!({"ok": {"base": 5u32}}),
        "boxfn" => json!({"mul": 3u32, "add": 7u32}),
        "fut" | "afut_u32" => json!({"pending": 1u32, "val": 11u32, "wake": "during"}),
        "afut_string" => json!({"pending": 1u32, "sval": "async ret", "wake": "during"}),
        "u64" => json!(0x1112_1314_1516_1718u64),
        "u8" => json!(201u8),
        "tup2" => json!([3u32, 4u32]),
        "tup3" => json!([4u8, 5u8, 6u8]),
        "veco" => o_vec(3, 0),
        "e" => json!({"C": "ret-cee"}),
        k => vcommon::machinery_error(&format!("no default for return kind {}", k)),
    }
}

/// short boundary lists for the full products of (9)
fn short_values(kind: &str) -> Vec<Value> {
    match kind {
        "u32" | "ru32" => vec![json!(0u32), json!(u32::MAX)],
        "string" | "str" | "rstring" => [0usize, 1, 20, 44, 45, 80].iter().map(|n| json!(pat(*n))).collect(),
        "slice" => [0usize, 13, 65].iter().map(|n| u32_vec(*n)).collect(),
        "s" | "rs" => vec![s_val(0, String::new(), 0), s_val(7, pat(47), 1), s_val(u32::MAX, pat(48), 255)],
        "vecs" => [0usize, 2, 64].iter().map(|n| s_vec(*n)).collect(),
        "boxt2" | "rt2" | "rmt2" => vec![json!({"base": 0u32}), json!({"base": 5u32, "wrapped": true})],
        "rfn" | "rfnmut" | "boxfn" | "boxfnmut" | "boxfnss" => vec![json!({"mul": 1u32, "add": 0u32}), json!({"mul": u32::MAX, "add": 1u32})],
        "rfnstr" => vec![json!({"suffix": ""}), json!({"suffix": pat(60)})],
        "ropt" => vec![Value::Null, json!(u32::MAX)],
        "p" | "rp" => vec![json!({"x": 0u32, "y": 0u32}), json!({"x": u32::MAX, "y": 1u32})],
        "tup" => vec![json!([0u32, ""]), json!([9u32, pat(50)])],
        "optstring" => vec![Value::Null, json!(pat(50))],
        "slo" | "rvo" | "veco" => [0usize, 1, 2, 3, 10].iter().map(|n| o_vec(*n, 0)).collect(),
        "slopt" => vec![opt_vec(0, 0), opt_vec(8, 1), opt_vec(9, 1), opt_vec(2, 2), opt_vec(12, 0)],
        "sle" => [0usize, 2, 9].iter().map(|n| e_vec(*n)).collect(),
        "slu8" => [0usize, 8, 9, 65].iter().map(|n| u8_vec(*n)).collect(),
        "sls" => [0usize, 2, 64].iter().map(|n| s_vec(*n)).collect(),
        "slstring" => [0usize, 2, 13].iter().map(|n| string_vec(*n)).collect(),
        "slp" => [0usize, 2, 13].iter().map(|n| p_vec(*n)).collect(),
        "sltup" => [0usize, 2, 13].iter().map(|n| tup_vec(*n)).collect(),
        "ro" | "o" => vec![o_val(0, None), o_val(u32::MAX, Some(255))],
        "re" | "e" => vec![json!("A"), json!({"B": u32::MAX}), json!({"C": pat(50)})],
        "roptstring" => vec![Value::Null, json!(pat(50))],
        "rvu32" => [0usize, 13, 65].iter().map(|n| u32_vec(*n)).collect(),
        "u8" => vec![json!(0u8), json!(255u8)],
        "u64" => vec![json!(0u64), json!(u64::MAX)],
        "tup2" => vec![json!([0u32, 0u32]), json!([u32::MAX, 1u32])],
        "tup3" => vec![json!([0u8, 0u8, 0u8]), json!([255u8, 1u8, 128u8])],
        "bool" | "optunit" => vec![json!(false), json!(true)],
        "char" => vec![json!("a"), json!("\u{10ffff}")],
        k => vcommon::machinery_error(&format!("no short value list for argument kind {}", k)),
    }
}

fn size_varying(kind: &str) -> bool {
    matches!(kind, "string" | "str" | "rstring")
}

/// serialized element by element, with a size that depends on the value (whether or not the
/// argument is a reference)
fn serialized_varying(kind: &str) -> bool {
    matches!(kind, "slo" | "slopt" | "sle" | "rvo" | "veco")
}

/// The complete case list of one method.
pub fn cases_of(tm: &TraitMeta, mm: &MethodMeta, thorough: bool) -> Vec<Case> {
    let defaults: Vec<Value> = mm.args.iter().map(|k| arg_default(k)).collect();
    let base = Case {
        tr: tm.name.to_string(),
        method: mm.name.to_string(),
        args: defaults.clone(),
        ret: ret_default(mm.ret),
        keep: false,
        panic: "none".into(),
        order: "ret_first".into(),
    };
    let has_owned_arg = mm.args.iter().any(|k| arg_kind(k).owned);
    let has_closure = mm.args.iter().any(|k| arg_kind(k).closure);
    let ret_owned = vabi09fam::support::ret_kind(mm.ret).owned;
    let big = mm.args.len() > 8;
    let mut out = vec![base.clone()];

    // (1) every argument position swept over its value list, the others at their defaults
    for (i, k) in mm.args.iter().enumerate() {
        if big && !((size_varying(k) || serialized_varying(k)) && (i >= mm.args.len() - 8 || i < 4)) {
            continue; // 64-argument methods: see (6)
        }
        for v in arg_values(k, thorough) {
            let mut c = base.clone();
            c.args[i] = v;
            out.push(c);
        }
    }
    // (2) the return value swept over its list
    for v in ret_values(mm.ret, thorough) {
        let mut c = base.clone();
        c.ret = v;
        out.push(c);
    }
    // (3) two size-varying arguments: the second one's length field and data cross the 64-byte
    //     boundary at every offset
    if !big {
        for i in 0..mm.args.len() {
            for j in i + 1..mm.args.len() {
                if !(size_varying(mm.args[i]) && size_varying(mm.args[j])) {
                    continue;
                }
                let (li, lj): (Vec<usize>, Vec<usize>) = if thorough { ((0..=80).collect(), (0..=80).collect()) } else { ((34..=53).collect(), vec![0, 1, 2, 7, 8, 9]) };
                for a in &li {
                    for b in &lj {
                        let mut c = base.clone();
                        c.args[i] = json!(pat(*a));
                        c.args[j] = json!(pat(*b));
                        out.push(c);
                    }
                }
            }
        }
    }
    // (3b) two element-wise serialized arguments: the second one starts at every small offset
    //      and both cross the fat-pointer size
    if !big {
        for i in 0..mm.args.len() {
            for j in i + 1..mm.args.len() {
                if !(serialized_varying(mm.args[i]) && serialized_varying(mm.args[j])) {
                    continue;
                }
                let pick = |k: &str, n: usize| -> Value {
                    match k {
                        "slopt" => opt_vec(n, 0),
                        "sle" => e_vec(n),
                        _ => o_vec(n, 0),
                    }
                };
                let top = if thorough { 12 } else { 6 };
                for a in 0..=top {
                    for b in 0..=top {
                        let mut c = base.clone();
                        c.args[i] = pick(mm.args[i], a);
                        c.args[j] = pick(mm.args[j], b);
                        out.push(c);
                    }
                }
            }
        }
    }
    // (4) ownership: the implementation keeps owned arguments and uses them in the next call
    if has_owned_arg {
        let mut c = base.clone();
        c.keep = true;
        out.push(c);
        for (i, k) in mm.args.iter().enumerate() {
            if arg_kind(k).owned {
                for v in arg_values(k, thorough) {
                    let mut c = base.clone();
                    c.keep = true;
                    c.args[i] = v;
                    out.push(c);
                }
            }
        }
    }
    // (5) a returned object outlives the connection
    if ret_owned {
        for v in std::iter::once(base.ret.clone()).chain(ret_values(mm.ret, thorough)) {
            let mut c = base.clone();
            c.ret = v;
            c.order = "conn_first".into();
            out.push(c);
        }
    }
    // (6) 64 arguments: all-equal vectors and one vector of distinct values per position
    if big {
        for variant in 0..3u32 {
            let mut c = base.clone();
            for (i, k) in mm.args.iter().enumerate() {
                let vals = arg_values(k, false);
                c.args[i] = match variant {
                    0 => vals[0].clone(),
                    1 => vals[vals.len() - 1].clone(),
                    _ => match *k {
                        "u32" | "ru32" => json!(0x1000_0000u32 + i as u32),
                        "string" | "str" => json!(pat(i)),
                        "slice" => u32_vec(i % 5),
                        "s" | "rs" => s_val(i as u32, pat(i % 9), i as u8),
                        "slo" => o_vec(i % 7, 0),
                        "slopt" => opt_vec(i % 7, 0),
                        "u64" => json!(0x1000_0000_0000_0000u64 + i as u64),
                        "u8" => json!(i as u8),
                        "tup2" => json!([i as u32, 0x2000_0000u32 + i as u32]),
                        "tup3" => json!([i as u8, (i + 64) as u8, (i + 128) as u8]),
                        _ => vals[i % vals.len()].clone(),
                    },
                };
            }
            out.push(c);
        }
    }
    // (7) panics: every payload kind; with arguments alive, stored or not
    let mut kinds = vec!["static_str", "formatted_string", "any"];
    if has_closure {
        kinds.push("callback_static_str");
    }
    for pk in kinds {
        let mut c = base.clone();
        c.panic = pk.into();
        out.push(c.clone());
        if has_owned_arg {
            c.keep = true;
            out.push(c);
        }
        if thorough && !mm.args.is_empty() && !big {
            // payload kind x every value of the first argument
            for v in arg_values(mm.args[0], false) {
                let mut c = base.clone();
                c.panic = pk.into();
                c.args[0] = v;
                out.push(c);
            }
        }
    }
    // (9) thorough: the full product of short value lists over all argument positions, with
    //     owned arguments both dropped and kept
    if thorough && !big && mm.args.len() >= 2 {
        let lists: Vec<Vec<Value>> = mm.args.iter().map(|k| short_values(k)).collect();
        let mut idx = vec![0usize; lists.len()];
        'product: loop {
            let mut c = base.clone();
            for (i, l) in lists.iter().enumerate() {
                c.args[i] = l[idx[i]].clone();
            }
            if has_owned_arg {
                let mut k = c.clone();
                k.keep = true;
                out.push(k);
            }
            out.push(c);
            let mut d = 0;
            loop {
                idx[d] += 1;
                if idx[d] < lists[d].len() {
                    break;
                }
                idx[d] = 0;
                d += 1;
                if d == lists.len() {
                    break 'product;
                }
            }
        }
    }
    // (10) thorough, two arguments: the full product of the complete (quick) value lists, so that
    //      the 64-byte boundary falls at every offset inside either argument for every kind pair
    if thorough && !big && mm.args.len() == 2 {
        let (la, lb) = (arg_values(mm.args[0], false), arg_values(mm.args[1], false));
        if la.len() * lb.len() <= 20_000 {
            for a in &la {
                for b in &lb {
                    let mut c = base.clone();
                    c.args[0] = a.clone();
                    c.args[1] = b.clone();
                    out.push(c);
                }
            }
        }
    }
    // (8) the implementation's destructor panics when the connection is dropped (one signature
    //     per return kind is enough: the destructor does not depend on the method called)
    if mm.args.is_empty() && mm.group == "C" {
        let mut c = base.clone();
        c.panic = "drop_impl_static_str".into();
        out.push(c);
    }
    // canonical, duplicate-free
    let mut seen = std::collections::HashSet::new();
    out.retain(|c| seen.insert(c.key()));
    out
}

/// Model of the encoding of one argument (bytes written into the caller's argument block).
/// Used only to classify states, never for a verdict.
pub fn model_arg_size(kind: &str, v: &Value, by_ref: bool) -> usize {
    let slen = |v: &Value| v.as_str().map(|s| s.len()).unwrap_or(0);
    let ssize = |v: &Value| 4 + 8 + slen(&v["b"]) + 1;
    let alen = |v: &Value| v.as_array().map(|a| a.len()).unwrap_or(0);
    let osize = |v: &Value| 4 + 1 + if v["tag"].is_null() { 0 } else { 1 };
    let esize = |v: &Value| 1 + if let Some(c) = v.get("C") { 8 + slen(c) } else if v.get("B").is_some() { 4 } else { 0 };
    let sum = |v: &Value, f: &dyn Fn(&Value) -> usize| v.as_array().map(|a| a.iter().map(f).sum::<usize>()).unwrap_or(0);
    match kind {
        "u32" => 4,
        "ru32" => if by_ref { 8 } else { 4 },
        "string" => 8 + slen(v),
        "str" => 16,
        "rstring" => if by_ref { 8 } else { 8 + slen(v) },
        "slice" => if by_ref { 16 } else { 8 + 4 * alen(v) },
        "s" => ssize(v),
        "rs" => if by_ref { 8 } else { ssize(v) },
        "vecs" => 8 + sum(v, &ssize),
        "p" => 8,
        "rp" => 8,
        "ropt" => if by_ref { 8 } else if v.is_null() { 1 } else { 5 },
        "tup" => 4 + 8 + slen(&v[1]),
        "optstring" => if v.is_null() { 1 } else { 9 + slen(v) },
        "slo" => if by_ref { 16 } else { 8 + sum(v, &osize) },
        "slopt" => if by_ref { 16 } else { 8 + sum(v, &|x: &Value| if x.is_null() { 1 } else { 5 }) },
        "sle" => if by_ref { 16 } else { 8 + sum(v, &esize) },
        "slu8" => if by_ref { 16 } else { 8 + alen(v) },
        "sls" => if by_ref { 16 } else { 8 + sum(v, &ssize) },
        "slstring" => if by_ref { 16 } else { 8 + sum(v, &|x: &Value| 8 + slen(x)) },
        "slp" | "sltup" => if by_ref { 16 } else { 8 + 8 * alen(v) },
        "rvo" => if by_ref { 8 } else { 8 + sum(v, &osize) },
        "veco" => 8 + sum(v, &osize),
        "ro" => if by_ref { 8 } else { osize(v) },
        "o" => osize(v),
        "re" => if by_ref { 8 } else { esize(v) },
        "e" => esize(v),
        "roptstring" => if by_ref { 8 } else if v.is_null() { 1 } else { 9 + slen(v) },
        "rvu32" => if by_ref { 8 } else { 8 + 4 * alen(v) },
        "u8" | "bool" | "optunit" => 1,
        "u64" | "tup2" => 8,
        "tup3" => 3,
        "char" => 4,
        _ => 24, // trait objects and closures: data pointer, vtable, entry point
    }
}
/// what the argument occupies when it travels by reference (pointer / fat pointer)
pub fn pointer_size(kind: &str) -> usize {
    if kind == "str" || kind.starts_with("sl") { 16 } else { 8 }
}

/// Model of the caller's argument block (4 bytes version + arguments): whether the derive macro
/// uses the growable `FlexBuffer` (some argument has no compile-time known size) and how many
/// bytes are written. Used only to classify states (spilled or not), never for a verdict.
pub fn model_block(mm: &MethodMeta, args: &[Value], passable: &[bool]) -> (bool, usize) {
    let mut size = 4usize;
    let mut flex = false;
    for (i, k) in mm.args.iter().enumerate() {
        if !arg_kind(k).fixed {
            flex = true;
        }
        size += model_arg_size(k, &args[i], passable.get(i).copied().unwrap_or(false));
    }
    (flex, size)
}
