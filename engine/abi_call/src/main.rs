//! vabi09: engine for C09 (stub)
fn main() {
    vcommon::machinery_error("vabi09 not implemented yet");
}
