//! vabi09: engine for C09 "ABI calls are transparent".
//!
//! Exhaustive enumeration of a generated interface family (build.rs) x value lists x ownership
//! modes x panic payload kinds x drop orders; every state is executed twice on the real
//! savefile-abi code (direct call of the recording implementation, and the same call through
//! `AbiConnection::from_boxed_trait`) and the two event traces are compared.
//!
//! Process layout: the parent spawns worker processes (`vcommon::child::run_workers`); a worker
//! sweeps the entries `pos % n == k`. A worker that dies (abort, segfault: e.g. a double free) is
//! attributed to the state it was executing and restarted behind it. A worker that sees
//! `from_boxed_trait` panic abandons itself (the panic happens while savefile-abi holds a global
//! mutex, which stays poisoned) and is restarted behind that entry.
mod cases;
mod engine;
use vabi09fam::support;

use cases::Case;
use engine::Stats;
use std::io::Write;
use support::TraitMeta;
use vcommon::serde_json::{json, Map, Value};
use vcommon::{parse_args, Run, Tier};

struct Entry {
    tm: &'static TraitMeta,
    methods: Vec<usize>,
}

/// Deterministic work list: one entry per method, except for the connection-time traits, which
/// are one entry each (all their methods share the fate of the connection).
fn entries(thorough: bool) -> Vec<Entry> {
    let mut v = vec![];
    for tm in engine::all_traits() {
        if !thorough && !tm.quick {
            continue;
        }
        if tm.isolate {
            v.push(Entry { tm, methods: (0..tm.methods.len()).collect() });
        } else {
            for mi in 0..tm.methods.len() {
                v.push(Entry { tm, methods: vec![mi] });
            }
        }
    }
    v
}

fn entry_cases(e: &Entry, thorough: bool) -> Vec<(usize, Case)> {
    let mut out = vec![];
    for mi in &e.methods {
        let mm = &e.tm.methods[*mi];
        // the method-count traits are about connection-time behaviour and dispatch by method
        // number: a reduced list per method keeps their entries short
        let mut cs = cases::cases_of(e.tm, mm, thorough && !e.tm.isolate);
        if e.tm.isolate && e.tm.methods.len() > 8 {
            cs.retain(|c| c.panic != "any" && c.panic != "static_str");
            let keep_every = if thorough { 1 } else { 4 };
            let mut i = 0;
            cs.retain(|c| {
                i += 1;
                c.panic != "none" || i % keep_every == 1
            });
        }
        out.extend(cs.into_iter().map(|c| (*mi, c)));
    }
    out
}

const SKIP_ENTRY: u64 = 1 << 40;

fn child(thorough: bool, k: usize, n: usize, resume: (i64, u64)) -> ! {
    vcommon::child::install_crash_handler();
    let es = entries(thorough);
    let out = std::io::stdout();
    for (pos, e) in es.iter().enumerate() {
        if pos % n != k || (pos as i64) < resume.0 {
            continue;
        }
        println!("B {}", pos);
        let mut st = Stats::default();
        let mut sno = 0u64;
        let cs = entry_cases(e, thorough);
        let mut methods_seen = std::collections::BTreeSet::new();
        let total = cs.len();
        for (ci, (mi, case)) in cs.into_iter().enumerate() {
            sno += 1;
            if pos as i64 == resume.0 && sno <= resume.1 {
                continue;
            }
            // hand over the counts collected so far before a state that may take the process down
            // (and regularly otherwise), so that a dying worker loses no accounting
            if (case.panic != "none" || ci % 200 == 199) && !st.0.is_empty() {
                println!("T {}", json!(st.0));
                st = Stats::default();
            }
            vcommon::child::set_state(&format!("pos={} sno={}", pos, sno));
            support::CALLS.with(|c| c.set(0));
            let o = engine::check_case(e.tm, mi, &case, &mut st);
            st.add("states", 1);
            st.add("transitions", support::CALLS.with(|c| c.get()));
            if methods_seen.insert(mi) {
                st.add(&format!("grp.{}", e.tm.methods[mi].group), 1);
                st.add("methods", 1);
            }
            st.add(&format!("grpstates.{}", e.tm.methods[mi].group), 1);
            for v in &o.violations {
                println!("F {}", json!({"oracle": v.oracle, "tags": v.tags, "summary": v.summary, "case": v.case}));
            }
            if let Some(m) = o.machinery {
                println!("E {}", m);
            }
            if ci == 0 || ci + 1 == total {
                let mm = &e.tm.methods[mi];
                let mut cj = case.to_json();
                cj["signature"] = json!(format!("fn {}({}self{}{}) -> {}", mm.name, if mm.recv_mut { "&mut " } else { "&" }, if mm.args.is_empty() { "" } else { ", " },
                    mm.args.iter().map(|k| support::arg_kind(k).ty).collect::<Vec<_>>().join(", "), support::ret_kind(mm.ret).ty));
                println!("X {}", json!({"pos": pos, "sno": sno, "case": cj}));
            }
            if o.poisoned {
                println!("T {}", json!(st.0));
                let _ = out.lock().flush();
                eprintln!("\nCRASH-STATE pos={} sno={} selfexit=1", pos, SKIP_ENTRY);
                std::process::exit(3);
            }
        }
        st.add("entries", 1);
        println!("T {}", json!(st.0));
    }
    let _ = out.lock().flush();
    std::process::exit(0)
}

fn violation_from_json(j: &Value) -> vcommon::Violation {
    vcommon::Violation {
        oracle: j["oracle"].as_str().unwrap_or("").to_string(),
        tags: j["tags"].as_object().map(|m| m.iter().map(|(k, v)| (k.clone(), v.as_str().unwrap_or("").to_string())).collect()).unwrap_or_default(),
        summary: j["summary"].as_str().unwrap_or("").to_string(),
        case: j["case"].clone(),
    }
}

fn parent(run: &mut Run) -> Map<String, Value> {
    let thorough = run.tier == Tier::Thorough;
    let es = entries(thorough);
    let n_entries = es.len();
    let workers = if thorough { 14 } else { 8 };
    let base = vec![run.property.clone(), "--tier".to_string(), run.tier.name().to_string()];
    let mut stats = Stats::default();
    let mut machinery: Vec<String> = vec![];
    let mut samples: Vec<(u64, u64, Value)> = vec![];
    {
        let cell = std::sync::Mutex::new((&mut *run, &mut stats, &mut machinery, &mut samples));
        vcommon::child::run_workers(
            workers,
            &base,
            |_k, line| {
                let mut g = cell.lock().unwrap();
                if let Some(j) = line.strip_prefix("F ") {
                    match vcommon::serde_json::from_str::<Value>(j) {
                        Ok(v) => g.0.violation(violation_from_json(&v)),
                        Err(e) => g.2.push(format!("unparsable finding line: {}", e)),
                    }
                } else if let Some(j) = line.strip_prefix("T ") {
                    if let Ok(Value::Object(m)) = vcommon::serde_json::from_str::<Value>(j) {
                        for (k, v) in m {
                            g.1.add(&k, v.as_u64().unwrap_or(0));
                        }
                    }
                } else if let Some(j) = line.strip_prefix("X ") {
                    if let Ok(v) = vcommon::serde_json::from_str::<Value>(j) {
                        g.3.push((v["pos"].as_u64().unwrap_or(0), v["sno"].as_u64().unwrap_or(0), v["case"].clone()));
                    }
                } else if let Some(m) = line.strip_prefix("E ") {
                    g.2.push(m.to_string());
                }
            },
            |c| {
                let mut g = cell.lock().unwrap();
                if c.state.contains("selfexit=1") {
                    g.1.add("workers_abandoned_after_connect_panic", 1);
                    return;
                }
                // which state was executing? (pos, sno) -> re-enumerate
                let num = |key: &str| -> Option<u64> { c.state.split_whitespace().find_map(|w| w.strip_prefix(key)).and_then(|x| x.parse().ok()) };
                let (Some(pos), Some(sno)) = (num("pos="), num("sno=")) else {
                    g.2.push(format!("worker {} died without a recorded state: {} {}", c.worker, c.status, c.stderr_tail));
                    return;
                };
                let es = entries(thorough);
                let Some(e) = es.get(pos as usize) else {
                    g.2.push(format!("worker {} died in unknown entry {}", c.worker, pos));
                    return;
                };
                let cs = entry_cases(e, thorough);
                let Some((mi, case)) = cs.get(sno as usize - 1) else {
                    g.2.push(format!("worker {} died in unknown state {}/{}", c.worker, pos, sno));
                    return;
                };
                let mm = &e.tm.methods[*mi];
                g.1.add("oc.process_died", 1);
                g.1.add("states", 1);
                g.1.add("evaluations", 1);
                g.1.add("nontrivial", 1);
                let msg = c.stderr_tail.lines().filter(|l| !l.starts_with("CRASH-STATE") && !l.trim().is_empty()).last().unwrap_or("").to_string();
                g.0.violation(vcommon::Violation {
                    oracle: "process_abort".into(),
                    tags: vcommon::tags(&[
                        ("trait", e.tm.name.to_string()),
                        ("group", mm.group.to_string()),
                        ("arg_kinds", mm.args.join(",")),
                        ("ret_kind", mm.ret.to_string()),
                        ("payload", case.panic.clone()),
                        ("panic_site", engine::panic_site(&case.panic).to_string()),
                        ("keep", case.keep.to_string()),
                        ("order", case.order.clone()),
                    ]),
                    summary: format!("process died ({}) while executing {}::{}({}) -> {} panic={} keep={} order={}: {}", c.status, e.tm.name, mm.name, mm.args.join(", "), mm.ret, case.panic, case.keep, case.order, msg),
                    case: case.to_json(),
                });
            },
            400,
        );
    }
    if !machinery.is_empty() {
        vcommon::machinery_error(&format!("{} harness problem(s), first: {}", machinery.len(), machinery[0]));
    }
    let g = |k: &str| stats.0.get(k).copied().unwrap_or(0);
    let completed = g("entries") + g("workers_abandoned_after_connect_panic");
    let incomplete = completed < n_entries as u64;
    if incomplete {
        // workers died more often than the restart cap allows. With violations in hand that is
        // a (non-exhaustive) verdict; without, nothing can be claimed.
        if run.violations_found() == 0 {
            vcommon::machinery_error(&format!("only {} of {} entries were completed and no violation explains it", completed, n_entries));
        }
        run.exhaustive = false;
        run.notes.push(format!("only {} of {} entries were completed: workers kept dying (restart cap 400 per worker)", completed, n_entries));
    }
    let mut cov = Map::new();
    // samples: the first, the last and evenly spaced cases of the (deterministic) work list
    samples.sort_by(|a, b| (a.0, a.1).cmp(&(b.0, b.1)));
    let picked: Vec<Value> = if samples.is_empty() {
        vec![]
    } else {
        let n = samples.len();
        let mut idx: Vec<usize> = (0..10).map(|i| i * (n - 1) / 9).collect();
        idx.dedup();
        idx.into_iter().map(|i| samples[i].2.clone()).collect()
    };
    if !picked.is_empty() {
        cov.insert("samples".into(), Value::Array(picked));
    }
    cov.insert("states".into(), json!(g("states")));
    cov.insert("transitions".into(), json!(g("transitions")));
    cov.insert("traces_validated_against_impl".into(), json!(g("traces_validated")));
    cov.insert("evaluations".into(), json!(g("evaluations")));
    cov.insert("distinct_nontrivial".into(), json!(g("nontrivial")));
    cov.insert("methods_exercised".into(), json!(g("methods")));
    cov.insert("entries".into(), json!(n_entries));
    cov.insert("traits_in_tier".into(), json!(engine::all_traits().filter(|t| thorough || t.quick).count()));
    cov.insert("methods_in_tier".into(), json!(engine::all_traits().filter(|t| thorough || t.quick).map(|t| t.methods.len() + 1).sum::<usize>()));
    cov.insert("objects_tracked".into(), json!(g("objects_tracked")));
    let sub = |prefix: &str| -> Map<String, Value> { stats.0.iter().filter(|(k, _)| k.starts_with(prefix)).map(|(k, v)| (k[prefix.len()..].to_string(), json!(v))).collect() };
    let oc = sub("oc.");
    cov.insert("distinct_outcomes".into(), json!(oc.len()));
    cov.insert("outcome_classes".into(), Value::Object(oc));
    cov.insert("nontrivial_by_rule".into(), Value::Object(sub("nt.")));
    cov.insert("reference_arguments_passed_by_ref".into(), Value::Object(sub("byref.")));
    cov.insert("methods_by_group".into(), Value::Object(sub("grp.")));
    cov.insert("states_by_group".into(), Value::Object(sub("grpstates.")));
    cov.insert(
        "groups".into(),
        json!({"A": "1 argument x every return kind", "B": "2 arguments (all pairs of the pair alphabet) -> u32", "C": "0 arguments x every return kind",
               "D": "64 / 65 arguments (mixed kinds; 64 compile-time sized arguments of 5 widths; the same between two serialized slices)", "E": "traits with 64 / 65 / 200 methods", "F": "3 arguments over {String,&str,&u32,Box<dyn Fn>} -> u32",
               "H": "3 arguments over {u32,&dyn Fn,&[O],&[Option<u32>]} -> u32",
               "R": "quick signatures with the other receiver", "G": "#[async_trait] methods"}),
    );
    cov.insert(
        "argument_alphabet".into(),
        Value::Array(vabi09fam::family::ARG_KINDS.iter().filter(|k| thorough || k.quick).map(|k| json!({"id": k.id, "type": k.ty, "compile_time_sized": k.fixed, "in_pairs": k.pair})).collect()),
    );
    cov.insert("return_alphabet".into(), Value::Array(vabi09fam::family::RET_KINDS.iter().filter(|k| thorough || k.quick).map(|k| json!({"id": k.id, "type": k.ty})).collect()));
    cov.insert("workers_abandoned_after_connect_panic".into(), json!(g("workers_abandoned_after_connect_panic")));
    cov.insert(
        "rule".into(),
        json!("state = (generated trait method, argument values, return specification, keep-owned-arguments flag, panic payload kind, drop order); every state is executed directly and through AbiConnection::from_boxed_trait and the event traces compared. Non-trivial = the modelled argument block is in a FlexBuffer and exceeds 64 bytes (spill), or all arguments have a compile-time known size (fixed stack array), or a reference argument is measured (get_arg_passable_by_ref) as passed by reference or as serialized, or an owned object (boxed trait object / boxed closure / future) crosses the boundary, or the implementation panics."),
    );
    cov.insert(
        "bounds".into(),
        json!({"strings": if thorough { "every length 0..=140, 255..257, 1000, 4095..4097, 70000, multi-byte" } else { "every length 0..=80, multi-byte" },
               "vectors": if thorough { "0,1,2,3,12..17,63,64,65,255..257,1000" } else { "0,1,2,12,13,14,63,64,65" },
               "element-wise serialized slices and vectors (&[O], &[Option<u32>], &[E], &Vec<O>, Vec<O>)": if thorough { "every length 0..=80, 255..257, 1000 (mixed 5/6- resp. 1/5-byte elements); 1..=12 uniform; all-None 1..=80" } else { "every length 0..=24 (mixed 5/6- resp. 1/5-byte elements); 1..=12 uniform; all-None 1..=80" },
               "pairs of element-wise serialized arguments": if thorough { "all (i,j) in 0..=12 x 0..=12 elements" } else { "all (i,j) in 0..=6 x 0..=6 elements" },
               "byte slices": if thorough { "every length 0..=80, 255..257, 1000, 70000" } else { "every length 0..=80" },
               "string pairs": if thorough { "all (i,j) in 0..=80 x 0..=80; full products of short value lists for all 2- and 3-argument methods; full products of the complete quick value lists for all 2-argument methods" } else { "i in 34..=53 x j in {0,1,2,7,8,9}" },
               "panic payloads": "static_str, formatted_string, any(i32), static_str raised inside a caller-side closure",
               "future schedules": if thorough { "0..=4 Pending rounds x wake during/deferred x drop after 0..=n polls" } else { "0..=2 Pending rounds x wake during/deferred x drop after 0..=n polls" },
               "max arguments": 64, "method counts": if thorough { "64, 65, 200" } else { "64, 65" }}),
    );
    cov
}

/// `--replay`: the case runs in a child process, because a failing case may kill the process
fn replay_outer(path: &std::path::Path) -> ! {
    let exe = std::env::current_exe().unwrap_or_else(|e| vcommon::machinery_error(&format!("current_exe: {}", e)));
    let status = std::process::Command::new(exe)
        .args(["C09", "--replay-inner"])
        .arg(path)
        .status()
        .unwrap_or_else(|e| vcommon::machinery_error(&format!("cannot spawn replay child: {}", e)));
    match status.code() {
        Some(c @ 0..=2) => std::process::exit(c),
        _ => {
            println!("REPLAY-FAIL oracle=process_abort the process executing the case died: {:?}", status);
            println!("replay: 1 violation(s) reproduced");
            std::process::exit(1)
        }
    }
}

fn replay(path: &std::path::Path) -> ! {
    let text = std::fs::read_to_string(path).unwrap_or_else(|e| vcommon::machinery_error(&format!("replay file: {}", e)));
    let doc: Value = vcommon::serde_json::from_str(&text).unwrap_or_else(|e| vcommon::machinery_error(&format!("replay json: {}", e)));
    let Some(case) = Case::from_json(&doc["case"]) else {
        vcommon::machinery_error("replay: case is not a C09 call case");
    };
    let Some(tm) = engine::find_trait(&case.tr) else {
        vcommon::machinery_error(&format!("replay: unknown trait {}", case.tr));
    };
    let Some(mi) = tm.methods.iter().position(|m| m.name == case.method) else {
        vcommon::machinery_error(&format!("replay: unknown method {}::{}", case.tr, case.method));
    };
    let mm = &tm.methods[mi];
    if case.args.len() != mm.args.len() {
        vcommon::machinery_error("replay: wrong number of arguments");
    }
    println!("replaying {}::{}({}) -> {} panic={} keep={} order={}", tm.name, mm.name, mm.args.join(", "), mm.ret, case.panic, case.keep, case.order);
    vcommon::child::install_crash_handler();
    vcommon::child::set_state("replay");
    let mut st = Stats::default();
    let o = engine::check_case(tm, mi, &case, &mut st);
    if let Some(m) = o.machinery {
        vcommon::machinery_error(&m);
    }
    for v in &o.violations {
        println!("REPLAY-FAIL oracle={} {}", v.oracle, v.summary);
    }
    if o.violations.is_empty() {
        println!("replay: direct and ABI runs agree, all oracles hold ({} oracle evaluations)", st.0.get("evaluations").copied().unwrap_or(0));
    }
    println!("replay: {} violation(s) reproduced", o.violations.len());
    std::process::exit(if o.violations.is_empty() { 0 } else { 1 })
}

fn main() {
    vcommon::quiet_panics();
    let args = parse_args();
    if args.property != "C09" {
        vcommon::machinery_error(&format!("vabi09 does not serve property {}", args.property));
    }
    if let Some(p) = &args.replay {
        replay_outer(p);
    }
    if let Some(i) = args.extra.iter().position(|a| a == "--replay-inner") {
        replay(std::path::Path::new(&args.extra[i + 1]));
    }
    if let Some(i) = args.extra.iter().position(|a| a == "--child") {
        let k: usize = args.extra[i + 1].parse().unwrap();
        let n: usize = args.extra[i + 2].parse().unwrap();
        let num = |key: &str, d: i64| -> i64 { args.extra.iter().position(|a| a == key).map(|j| args.extra[j + 1].parse().unwrap()).unwrap_or(d) };
        child(args.tier == Tier::Thorough, k, n, (num("--resume-after", -1), num("--resume-sno", 0) as u64));
    }
    let mut run = Run::new(&args, "model_checking");
    let cov = parent(&mut run);
    let assumptions = vec![
        "caller and implementation live in the same binary (AbiConnection::from_boxed_trait), so both sides have identical layouts and the same savefile version; cross-version and cross-layout behaviour is C10/C11".to_string(),
        "the direct call of the recording implementation is the reference; it is itself checked (drops exactly once, panics exactly when asked)".to_string(),
        "'spilled' is classified with a model of the argument encoding (4-byte version + per-argument encodings), not observed inside savefile-abi".to_string(),
        "a double drop is recognised by a magic word in the object (while the memory has not been reused) or by the allocator aborting the worker process".to_string(),
    ];
    run.finish(cov, assumptions)
}
