//! `Bridge`: conversion between real Rust values and the model's `Val` tree, plus raw-memory
//! validity checks (`raw_check`) used by C06.
use crate::Val;
use std::collections::*;

pub trait Bridge: Sized {
    fn to_val(&self) -> Val;
    fn from_val(v: &Val) -> Self;
    /// inspect raw bytes for invalid bit patterns (bool, char, enum tags); never matches on them
    fn raw_check(&self, _out: &mut Vec<String>) {}
}

macro_rules! uint {
    ($($t:ty),*) => {$(
        impl Bridge for $t {
            fn to_val(&self) -> Val { Val::U(*self as u128) }
            fn from_val(v: &Val) -> Self { v.as_u() as $t }
        }
    )*};
}
macro_rules! sint {
    ($($t:ty),*) => {$(
        impl Bridge for $t {
            fn to_val(&self) -> Val { Val::I(*self as i128) }
            fn from_val(v: &Val) -> Self { v.as_i() as $t }
        }
    )*};
}
uint!(u8, u16, u32, u64, u128, usize);
sint!(i8, i16, i32, i64, i128, isize);

impl Bridge for f32 {
    fn to_val(&self) -> Val {
        Val::F32(self.to_bits())
    }
    fn from_val(v: &Val) -> Self {
        match v {
            Val::F32(b) => f32::from_bits(*b),
            _ => panic!("f32 from {:?}", v),
        }
    }
}
impl Bridge for f64 {
    fn to_val(&self) -> Val {
        Val::F64(self.to_bits())
    }
    fn from_val(v: &Val) -> Self {
        match v {
            Val::F64(b) => f64::from_bits(*b),
            _ => panic!("f64 from {:?}", v),
        }
    }
}
impl Bridge for bool {
    fn to_val(&self) -> Val {
        Val::Bool(unsafe { *(self as *const bool as *const u8) } == 1)
    }
    fn from_val(v: &Val) -> Self {
        match v {
            Val::Bool(b) => *b,
            _ => panic!("bool from {:?}", v),
        }
    }
    fn raw_check(&self, out: &mut Vec<String>) {
        let raw = unsafe { *(self as *const bool as *const u8) };
        if raw > 1 {
            out.push(format!("bool holds invalid byte {}", raw));
        }
    }
}
impl Bridge for char {
    fn to_val(&self) -> Val {
        Val::Char(unsafe { *(self as *const char as *const u32) })
    }
    fn from_val(v: &Val) -> Self {
        match v {
            Val::Char(c) => char::from_u32(*c).expect("valid char in model value"),
            _ => panic!("char from {:?}", v),
        }
    }
    fn raw_check(&self, out: &mut Vec<String>) {
        let raw = unsafe { *(self as *const char as *const u32) };
        if char::from_u32(raw).is_none() {
            out.push(format!("char holds invalid scalar {:#x}", raw));
        }
    }
}
impl Bridge for String {
    fn to_val(&self) -> Val {
        Val::Str(self.clone())
    }
    fn from_val(v: &Val) -> Self {
        v.as_str().to_string()
    }
    fn raw_check(&self, out: &mut Vec<String>) {
        if std::str::from_utf8(self.as_bytes()).is_err() {
            out.push("String holds invalid utf8".into());
        }
    }
}
impl Bridge for () {
    fn to_val(&self) -> Val {
        Val::Unit
    }
    fn from_val(_: &Val) -> Self {}
}

impl<T: Bridge> Bridge for Option<T> {
    fn to_val(&self) -> Val {
        match self {
            None => Val::None,
            Some(x) => Val::Some(Box::new(x.to_val())),
        }
    }
    fn from_val(v: &Val) -> Self {
        match v {
            Val::None => None,
            Val::Some(x) => Some(T::from_val(x)),
            _ => panic!("option from {:?}", v),
        }
    }
    fn raw_check(&self, out: &mut Vec<String>) {
        if let Some(x) = self {
            x.raw_check(out)
        }
    }
}
impl<T: Bridge, E: Bridge> Bridge for Result<T, E> {
    fn to_val(&self) -> Val {
        match self {
            Ok(x) => Val::Ok(Box::new(x.to_val())),
            Err(x) => Val::Err(Box::new(x.to_val())),
        }
    }
    fn from_val(v: &Val) -> Self {
        match v {
            Val::Ok(x) => Ok(T::from_val(x)),
            Val::Err(x) => Err(E::from_val(x)),
            _ => panic!("result from {:?}", v),
        }
    }
    fn raw_check(&self, out: &mut Vec<String>) {
        match self {
            Ok(x) => x.raw_check(out),
            Err(x) => x.raw_check(out),
        }
    }
}

macro_rules! wrap {
    ($t:ty, $new:expr, |$s:ident| $get:expr) => {
        impl<T: Bridge> Bridge for $t {
            fn to_val(&self) -> Val {
                let $s = self;
                $get.to_val()
            }
            fn from_val(v: &Val) -> Self {
                $new(T::from_val(v))
            }
            fn raw_check(&self, out: &mut Vec<String>) {
                let $s = self;
                $get.raw_check(out)
            }
        }
    };
}
wrap!(Box<T>, Box::new, |s| (**s));
wrap!(std::rc::Rc<T>, std::rc::Rc::new, |s| (**s));
wrap!(std::sync::Arc<T>, std::sync::Arc::new, |s| (**s));
wrap!(std::cell::RefCell<T>, std::cell::RefCell::new, |s| (*s.borrow()));
wrap!(std::sync::Mutex<T>, std::sync::Mutex::new, |s| (*s.lock().unwrap()));
wrap!(parking_lot::RwLock<T>, parking_lot::RwLock::new, |s| (*s.read()));
wrap!(parking_lot::Mutex<T>, parking_lot::Mutex::new, |s| (*s.lock()));
impl<T: Bridge + Copy> Bridge for std::cell::Cell<T> {
    fn to_val(&self) -> Val {
        self.get().to_val()
    }
    fn from_val(v: &Val) -> Self {
        std::cell::Cell::new(T::from_val(v))
    }
}
impl<T: Bridge + Clone> Bridge for std::borrow::Cow<'static, T> {
    fn to_val(&self) -> Val {
        (**self).to_val()
    }
    fn from_val(v: &Val) -> Self {
        std::borrow::Cow::Owned(T::from_val(v))
    }
}

/// number of zero-sized elements beyond which a sequence is summarised instead of listed
pub const ZST_SUMMARY: usize = 1 << 16;
fn seq_to_val<'a, T: Bridge + 'a>(it: impl ExactSizeIterator<Item = &'a T>) -> Val {
    if std::mem::size_of::<T>() == 0 && it.len() > ZST_SUMMARY {
        return Val::Seq(vec![Val::Str(format!("<{} zero-sized elements>", it.len()))]);
    }
    Val::Seq(it.map(|x| x.to_val()).collect())
}
fn seq_items(v: &Val) -> &[Val] {
    match v {
        Val::Seq(x) => x,
        _ => panic!("seq from {:?}", v),
    }
}
macro_rules! seq {
    ($t:ty $(, $bound:path)*) => {
        impl<T: Bridge $(+ $bound)*> Bridge for $t {
            fn to_val(&self) -> Val { seq_to_val(self.iter()) }
            fn from_val(v: &Val) -> Self { seq_items(v).iter().map(T::from_val).collect() }
            fn raw_check(&self, out: &mut Vec<String>) {
                let cap = if std::mem::size_of::<T>() == 0 { 1 << 12 } else { usize::MAX };
                for x in self.iter().take(cap) { x.raw_check(out); if out.len() > 8 { break; } }
            }
        }
    };
}
seq!(Vec<T>);
impl<T: Bridge> Bridge for VecDeque<T> {
    fn to_val(&self) -> Val {
        seq_to_val(self.iter())
    }
    // even lengths are built in the wrapped ring-buffer state, odd ones contiguous
    fn from_val(v: &Val) -> Self {
        crate::probe::make_deque(seq_items(v).iter().map(T::from_val).collect())
    }
    fn raw_check(&self, out: &mut Vec<String>) {
        for x in self.iter().take(1 << 12) {
            x.raw_check(out);
            if out.len() > 8 {
                break;
            }
        }
    }
}
seq!(Box<[T]>);
seq!(std::sync::Arc<[T]>);
seq!(BTreeSet<T>, Ord);
seq!(indexmap::IndexSet<T>, std::hash::Hash, Eq);
impl<T: Bridge + Ord + std::hash::Hash + Eq> Bridge for HashSet<T> {
    fn to_val(&self) -> Val {
        let mut items: Vec<Val> = self.iter().map(|x| x.to_val()).collect();
        items.sort();
        Val::Seq(items)
    }
    fn from_val(v: &Val) -> Self {
        seq_items(v).iter().map(T::from_val).collect()
    }
}
impl<T: Bridge + Ord> Bridge for BinaryHeap<T> {
    fn to_val(&self) -> Val {
        let mut items: Vec<Val> = self.iter().map(|x| x.to_val()).collect();
        items.sort();
        Val::Seq(items)
    }
    fn from_val(v: &Val) -> Self {
        seq_items(v).iter().map(T::from_val).collect()
    }
}
impl<T: Bridge, const N: usize> Bridge for arrayvec::ArrayVec<T, N> {
    fn to_val(&self) -> Val {
        seq_to_val(self.iter())
    }
    fn from_val(v: &Val) -> Self {
        seq_items(v).iter().map(T::from_val).collect()
    }
    fn raw_check(&self, out: &mut Vec<String>) {
        for x in self.iter() {
            x.raw_check(out)
        }
    }
}
impl<T: Bridge, const N: usize> Bridge for smallvec::SmallVec<[T; N]>
where
    [T; N]: smallvec::Array<Item = T>,
{
    fn to_val(&self) -> Val {
        seq_to_val(self.iter())
    }
    fn from_val(v: &Val) -> Self {
        seq_items(v).iter().map(T::from_val).collect()
    }
    fn raw_check(&self, out: &mut Vec<String>) {
        for x in self.iter() {
            x.raw_check(out)
        }
    }
}
impl<T: Bridge, const N: usize> Bridge for [T; N] {
    fn to_val(&self) -> Val {
        seq_to_val(self.iter())
    }
    fn from_val(v: &Val) -> Self {
        let items: Vec<T> = seq_items(v).iter().map(T::from_val).collect();
        match items.try_into() {
            Ok(a) => a,
            Err(_) => panic!("array length mismatch"),
        }
    }
    fn raw_check(&self, out: &mut Vec<String>) {
        for x in self.iter() {
            x.raw_check(out)
        }
    }
}

fn map_items(v: &Val) -> &[(Val, Val)] {
    match v {
        Val::Map(x) => x,
        _ => panic!("map from {:?}", v),
    }
}
impl<K: Bridge + Eq + std::hash::Hash, V: Bridge> Bridge for HashMap<K, V> {
    fn to_val(&self) -> Val {
        let mut items: Vec<(Val, Val)> = self.iter().map(|(k, v)| (k.to_val(), v.to_val())).collect();
        items.sort();
        Val::Map(items)
    }
    fn from_val(v: &Val) -> Self {
        map_items(v).iter().map(|(k, v)| (K::from_val(k), V::from_val(v))).collect()
    }
}
impl<K: Bridge + Ord, V: Bridge> Bridge for BTreeMap<K, V> {
    fn to_val(&self) -> Val {
        let mut items: Vec<(Val, Val)> = self.iter().map(|(k, v)| (k.to_val(), v.to_val())).collect();
        items.sort();
        Val::Map(items)
    }
    fn from_val(v: &Val) -> Self {
        map_items(v).iter().map(|(k, v)| (K::from_val(k), V::from_val(v))).collect()
    }
}
impl<K: Bridge + Eq + std::hash::Hash, V: Bridge> Bridge for indexmap::IndexMap<K, V> {
    fn to_val(&self) -> Val {
        Val::Map(self.iter().map(|(k, v)| (k.to_val(), v.to_val())).collect())
    }
    fn from_val(v: &Val) -> Self {
        map_items(v).iter().map(|(k, v)| (K::from_val(k), V::from_val(v))).collect()
    }
}

macro_rules! tuple {
    ($(($($n:ident $i:tt),*)),*) => {$(
        impl<$($n: Bridge),*> Bridge for ($($n,)*) {
            fn to_val(&self) -> Val { Val::Tuple(vec![$(self.$i.to_val()),*]) }
            fn from_val(v: &Val) -> Self { let f = v.fields(); ($($n::from_val(&f[$i]),)*) }
            fn raw_check(&self, out: &mut Vec<String>) { $(self.$i.raw_check(out);)* }
        }
    )*};
}
tuple!((A 0), (A 0, B 1), (A 0, B 1, C 2), (A 0, B 1, C 2, D 3));

// ---- library types whose wire format equals that of a simpler type -------------------------
impl Bridge for std::path::PathBuf {
    fn to_val(&self) -> Val {
        Val::Str(self.to_str().expect("utf8 path").to_string())
    }
    fn from_val(v: &Val) -> Self {
        std::path::PathBuf::from(v.as_str())
    }
}
impl Bridge for std::sync::Arc<str> {
    fn to_val(&self) -> Val {
        Val::Str(self.to_string())
    }
    fn from_val(v: &Val) -> Self {
        v.as_str().into()
    }
}
impl Bridge for std::borrow::Cow<'static, str> {
    fn to_val(&self) -> Val {
        Val::Str(self.to_string())
    }
    fn from_val(v: &Val) -> Self {
        std::borrow::Cow::Owned(v.as_str().to_string())
    }
}
impl<const N: usize> Bridge for arrayvec::ArrayString<N> {
    fn to_val(&self) -> Val {
        Val::Str(self.to_string())
    }
    fn from_val(v: &Val) -> Self {
        arrayvec::ArrayString::from(v.as_str()).expect("fits ArrayString")
    }
}
macro_rules! atomic {
    ($($t:ty : $inner:ty),*) => {$(
        impl Bridge for $t {
            fn to_val(&self) -> Val { self.load(std::sync::atomic::Ordering::SeqCst).to_val() }
            fn from_val(v: &Val) -> Self { <$t>::new(<$inner>::from_val(v)) }
        }
    )*};
}
use std::sync::atomic::*;
atomic!(AtomicBool: bool, AtomicU8: u8, AtomicI8: i8, AtomicU16: u16, AtomicI16: i16, AtomicU32: u32,
    AtomicI32: i32, AtomicU64: u64, AtomicI64: i64, AtomicUsize: usize, AtomicIsize: isize);

// ---- time / net / misc ---------------------------------------------------------------------
impl Bridge for std::time::Duration {
    fn to_val(&self) -> Val {
        Val::U(self.as_nanos())
    }
    fn from_val(v: &Val) -> Self {
        let n = v.as_u();
        std::time::Duration::new((n / 1_000_000_000) as u64, (n % 1_000_000_000) as u32)
    }
}
impl Bridge for std::time::SystemTime {
    fn to_val(&self) -> Val {
        // documented encoding: nanoseconds since the epoch; bit 127 set for times before it
        match self.duration_since(std::time::SystemTime::UNIX_EPOCH) {
            Ok(d) => Val::U(d.as_nanos()),
            Err(e) => Val::U(e.duration().as_nanos() | (1u128 << 127)),
        }
    }
    fn from_val(v: &Val) -> Self {
        let n = v.as_u();
        let mag = n & ((1u128 << 127) - 1);
        let d = std::time::Duration::new((mag / 1_000_000_000) as u64, (mag % 1_000_000_000) as u32);
        if n >> 127 == 1 {
            std::time::SystemTime::UNIX_EPOCH - d
        } else {
            std::time::SystemTime::UNIX_EPOCH + d
        }
    }
}
impl Bridge for chrono::DateTime<chrono::Utc> {
    fn to_val(&self) -> Val {
        Val::I(self.timestamp_nanos_opt().expect("in range") as i128)
    }
    fn from_val(v: &Val) -> Self {
        chrono::DateTime::<chrono::Utc>::from_timestamp_nanos(v.as_i() as i64)
    }
}
impl Bridge for savefile::Canary1 {
    fn to_val(&self) -> Val {
        Val::U(0x47566843)
    }
    fn from_val(_: &Val) -> Self {
        savefile::Canary1::new()
    }
}
impl<T: Bridge> Bridge for std::ops::Range<T> {
    fn to_val(&self) -> Val {
        Val::Tuple(vec![self.start.to_val(), self.end.to_val()])
    }
    fn from_val(v: &Val) -> Self {
        let f = v.fields();
        T::from_val(&f[0])..T::from_val(&f[1])
    }
}
impl Bridge for std::net::IpAddr {
    fn to_val(&self) -> Val {
        match self {
            std::net::IpAddr::V4(a) => Val::Variant(0, vec![Val::U(u32::from(*a) as u128)]),
            std::net::IpAddr::V6(a) => Val::Variant(1, vec![Val::U(u128::from(*a))]),
        }
    }
    fn from_val(v: &Val) -> Self {
        match v {
            Val::Variant(0, f) => std::net::IpAddr::V4(std::net::Ipv4Addr::from(f[0].as_u() as u32)),
            Val::Variant(1, f) => std::net::IpAddr::V6(std::net::Ipv6Addr::from(f[0].as_u())),
            _ => panic!("ipaddr from {:?}", v),
        }
    }
}
impl Bridge for std::net::SocketAddr {
    fn to_val(&self) -> Val {
        match self {
            std::net::SocketAddr::V4(a) => Val::Variant(0, vec![Val::U(a.port() as u128), Val::U(u32::from(*a.ip()) as u128)]),
            std::net::SocketAddr::V6(a) => Val::Variant(
                1,
                vec![Val::U(a.port() as u128), Val::U(u128::from(*a.ip())), Val::U(a.flowinfo() as u128), Val::U(a.scope_id() as u128)],
            ),
        }
    }
    fn from_val(v: &Val) -> Self {
        match v {
            Val::Variant(0, f) => std::net::SocketAddr::V4(std::net::SocketAddrV4::new(std::net::Ipv4Addr::from(f[0 + 1].as_u() as u32), f[0].as_u() as u16)),
            Val::Variant(1, f) => std::net::SocketAddr::V6(std::net::SocketAddrV6::new(
                std::net::Ipv6Addr::from(f[1].as_u()),
                f[0].as_u() as u16,
                f[2].as_u() as u32,
                f[3].as_u() as u32,
            )),
            _ => panic!("socketaddr from {:?}", v),
        }
    }
}

// ---- nalgebra ------------------------------------------------------------------------------
impl Bridge for nalgebra::Point3<f32> {
    fn to_val(&self) -> Val {
        Val::Tuple(vec![self.x.to_val(), self.y.to_val(), self.z.to_val()])
    }
    fn from_val(v: &Val) -> Self {
        let f = v.fields();
        nalgebra::Point3::new(f32::from_val(&f[0]), f32::from_val(&f[1]), f32::from_val(&f[2]))
    }
}
impl Bridge for nalgebra::Isometry3<f32> {
    fn to_val(&self) -> Val {
        let (t, r) = (&self.translation.vector, &self.rotation.coords);
        Val::Tuple([t.x, t.y, t.z, r.w, r.x, r.y, r.z].iter().map(|x| x.to_val()).collect())
    }
    fn from_val(v: &Val) -> Self {
        let f: Vec<f32> = v.fields().iter().map(f32::from_val).collect();
        nalgebra::Isometry3::from_parts(
            nalgebra::Point3::new(f[0], f[1], f[2]).into(),
            nalgebra::UnitQuaternion::new_unchecked(nalgebra::Quaternion::new(f[3], f[4], f[5], f[6])),
        )
    }
}
impl Bridge for nalgebra::Isometry3<f64> {
    fn to_val(&self) -> Val {
        let (t, r) = (&self.translation.vector, &self.rotation.coords);
        Val::Tuple([t.x, t.y, t.z, r.w, r.x, r.y, r.z].iter().map(|x| x.to_val()).collect())
    }
    fn from_val(v: &Val) -> Self {
        let f: Vec<f64> = v.fields().iter().map(f64::from_val).collect();
        nalgebra::Isometry3::from_parts(
            nalgebra::Point3::new(f[0], f[1], f[2]).into(),
            nalgebra::UnitQuaternion::new_unchecked(nalgebra::Quaternion::new(f[3], f[4], f[5], f[6])),
        )
    }
}
impl Bridge for nalgebra::Vector3<f64> {
    fn to_val(&self) -> Val {
        Val::Tuple(vec![self.x.to_val(), self.y.to_val(), self.z.to_val()])
    }
    fn from_val(v: &Val) -> Self {
        let f = v.fields();
        nalgebra::Vector3::new(f64::from_val(&f[0]), f64::from_val(&f[1]), f64::from_val(&f[2]))
    }
}

// ---- library types whose wire format is not modelled ------------------------------------------
macro_rules! bitvec_bridge {
    ($t:ty) => {
        impl Bridge for $t {
            fn to_val(&self) -> Val {
                Val::Seq(self.iter().map(Val::Bool).collect())
            }
            fn from_val(v: &Val) -> Self {
                let mut b = <$t>::new();
                for x in seq_items(v) {
                    b.push(bool::from_val(x));
                }
                b
            }
            fn raw_check(&self, out: &mut Vec<String>) {
                // the bit length must be backed by storage (32 bit blocks)
                if self.len() > self.storage().len() * 32 {
                    out.push(format!("BitVec claims {} bits but has storage for {}", self.len(), self.storage().len() * 32));
                }
            }
        }
    };
}
bitvec_bridge!(bit_vec::BitVec);
bitvec_bridge!(bit_vec08::BitVec);
macro_rules! bitset_bridge {
    ($t:ty) => {
        impl Bridge for $t {
            fn to_val(&self) -> Val {
                Val::Seq(self.iter().map(|i| Val::U(i as u128)).collect())
            }
            fn from_val(v: &Val) -> Self {
                let mut b = <$t>::new();
                for x in seq_items(v) {
                    b.insert(x.as_u() as usize);
                }
                b
            }
            fn raw_check(&self, out: &mut Vec<String>) {
                let bv = self.get_ref();
                if bv.len() > bv.storage().len() * 32 {
                    out.push(format!("BitSet's BitVec claims {} bits but has storage for {}", bv.len(), bv.storage().len() * 32));
                }
            }
        }
    };
}
bitset_bridge!(bit_set::BitSet);
bitset_bridge!(bit_set08::BitSet);
impl Bridge for std::io::Error {
    fn to_val(&self) -> Val {
        Val::Tuple(vec![Val::Str(format!("{:?}", self.kind())), Val::Str(self.to_string())])
    }
    fn from_val(v: &Val) -> Self {
        use std::io::ErrorKind::*;
        let f = v.fields();
        let kind = match f[0].as_str() {
            "NotFound" => NotFound,
            "PermissionDenied" => PermissionDenied,
            "UnexpectedEof" => UnexpectedEof,
            "InvalidData" => InvalidData,
            "TimedOut" => TimedOut,
            "BrokenPipe" => BrokenPipe,
            _ => Other,
        };
        std::io::Error::new(kind, f[1].as_str().to_string())
    }
}
