//! The file-based API (`save_file`, `load_file`, `save_file_compressed`, `save_encrypted_file`,
//! `load_encrypted_file`, …) instantiated for a handful of concrete types, plus instrumented
//! `Read` / `Write` streams for the fault engines.
use crate::bridge::Bridge;
use crate::ops::{sf_err, OpErr};
use crate::Val;
use savefile::prelude::*;
use std::io::{Read, Write};
use std::path::Path;
use vmodel::families::p;
use vmodel::{Prim, SeqKind, Ty};

#[derive(Clone, Copy, Debug, PartialEq, Eq, Hash)]
pub enum FileKind {
    Plain,
    NoSchema,
    Compressed,
    Encrypted,
}
pub const FILE_KINDS: [FileKind; 4] = [FileKind::Plain, FileKind::NoSchema, FileKind::Compressed, FileKind::Encrypted];

fn guard<T>(f: impl FnOnce() -> Result<T, SavefileError>) -> Result<T, OpErr> {
    match vcommon::guarded(f) {
        Ok(Ok(v)) => Ok(v),
        Ok(Err(e)) => Err(sf_err(e)),
        Err(p) => Err(OpErr::Panic(p)),
    }
}

fn save_t<T: Bridge + Serialize + WithSchema>(kind: FileKind, path: &Path, v: &Val, password: &str) -> Result<(), OpErr> {
    let x = T::from_val(v);
    guard(|| match kind {
        FileKind::Plain => savefile::save_file(path, 0, &x),
        FileKind::NoSchema => savefile::save_file_noschema(path, 0, &x),
        FileKind::Compressed => savefile::save_file_compressed(path, 0, &x),
        FileKind::Encrypted => savefile::save_encrypted_file(path, 0, &x, password),
    })
}
fn load_t<T: Bridge + Deserialize + WithSchema>(kind: FileKind, path: &Path, password: &str) -> Result<Val, OpErr> {
    guard(|| match kind {
        FileKind::Plain | FileKind::Compressed => savefile::load_file::<T, _>(path, 0),
        FileKind::NoSchema => savefile::load_file_noschema::<T, _>(path, 0),
        FileKind::Encrypted => savefile::load_encrypted_file::<T, _>(path, 0, password),
    })
    .map(|x| x.to_val())
}

pub struct FileCase {
    pub name: &'static str,
    pub ty: Ty,
    pub save: fn(FileKind, &Path, &Val, &str) -> Result<(), OpErr>,
    pub load: fn(FileKind, &Path, &str) -> Result<Val, OpErr>,
}

fn case<T: Bridge + Serialize + Deserialize + WithSchema>(name: &'static str, ty: Ty) -> FileCase {
    FileCase {
        name,
        ty,
        save: save_t::<T>,
        load: load_t::<T>,
    }
}

pub fn file_cases() -> Vec<FileCase> {
    let b = |t: Ty| Box::new(t);
    vec![
        case::<Vec<u8>>("Vec<u8>", Ty::Seq(SeqKind::Vec, b(p(Prim::U8)))),
        case::<String>("String", p(Prim::String)),
        case::<Option<u32>>("Option<u32>", Ty::Opt(b(p(Prim::U32)))),
        case::<(u32, String)>("(u32,String)", Ty::Tuple(vec![p(Prim::U32), p(Prim::String)])),
        case::<Vec<String>>("Vec<String>", Ty::Seq(SeqKind::Vec, b(p(Prim::String)))),
        case::<Vec<Option<u8>>>("Vec<Option<u8>>", Ty::Seq(SeqKind::Vec, b(Ty::Opt(b(p(Prim::U8)))))),
        case::<()>("()", p(Prim::Unit)),
    ]
}

// ---- instrumented streams -------------------------------------------------------------------

#[derive(Clone, Copy, Debug, PartialEq, Eq, Hash, PartialOrd, Ord)]
pub enum Dev {
    /// transfer exactly one byte
    Short1,
    Interrupted,
    ErrOther,
    ErrBrokenPipe,
    ErrUnexpectedEof,
    /// Ok(0)
    Zero,
}
impl Dev {
    pub fn benign(self) -> bool {
        matches!(self, Dev::Short1 | Dev::Interrupted)
    }
    pub const ALL: [Dev; 6] = [Dev::Short1, Dev::Interrupted, Dev::ErrOther, Dev::ErrBrokenPipe, Dev::ErrUnexpectedEof, Dev::Zero];
    fn err(self) -> std::io::Error {
        use std::io::ErrorKind::*;
        match self {
            Dev::Interrupted => std::io::Error::new(Interrupted, "injected: interrupted"),
            Dev::ErrOther => std::io::Error::new(Other, "injected: other"),
            Dev::ErrBrokenPipe => std::io::Error::new(BrokenPipe, "injected: broken pipe"),
            Dev::ErrUnexpectedEof => std::io::Error::new(UnexpectedEof, "injected: unexpected eof"),
            _ => unreachable!(),
        }
    }
}

/// what the environment answers at each call: default = transfer up to `chunk` bytes
#[derive(Clone, Debug, Default)]
pub struct Plan {
    /// (call index, deviation)
    pub devs: Vec<(usize, Dev)>,
    /// maximum bytes transferred per default call (0 = unlimited); cycles through the list
    pub chunks: Vec<usize>,
    /// after a hard error the stream keeps failing
    pub sticky: bool,
}

pub struct FaultW {
    pub accepted: Vec<u8>,
    pub plan: Plan,
    pub calls: usize,
    pub fired: usize,
    /// the deviations that were actually delivered to the operation
    pub delivered: Vec<Dev>,
    pub budget: usize,
    pub hung: bool,
    failed: Option<Dev>,
}
impl FaultW {
    pub fn new(plan: Plan, budget: usize) -> FaultW {
        FaultW {
            accepted: vec![],
            plan,
            calls: 0,
            fired: 0,
            delivered: vec![],
            budget,
            hung: false,
            failed: None,
        }
    }
    fn step(&mut self) -> Result<Option<Dev>, std::io::Error> {
        let idx = self.calls;
        self.calls += 1;
        if self.calls > self.budget {
            self.hung = true;
            return Err(std::io::Error::new(std::io::ErrorKind::Other, "harness: call budget exhausted (hang)"));
        }
        if let Some(d) = self.failed {
            if self.plan.sticky {
                return Err(d.err());
            }
        }
        Ok(self.plan.devs.iter().find(|(i, _)| *i == idx).map(|x| x.1))
    }
}
impl Write for FaultW {
    fn write(&mut self, buf: &[u8]) -> std::io::Result<usize> {
        let idx = self.calls;
        match self.step()? {
            Some(Dev::Short1) if !buf.is_empty() => {
                self.fired += 1;
                self.delivered.push(Dev::Short1);
                self.accepted.push(buf[0]);
                Ok(1)
            }
            Some(Dev::Zero) if !buf.is_empty() => {
                self.fired += 1;
                self.delivered.push(Dev::Zero);
                Ok(0)
            }
            Some(d @ (Dev::Interrupted | Dev::ErrOther | Dev::ErrBrokenPipe | Dev::ErrUnexpectedEof)) => {
                self.fired += 1;
                self.delivered.push(d);
                if !d.benign() {
                    self.failed = Some(d);
                }
                Err(d.err())
            }
            _ => {
                let lim = if self.plan.chunks.is_empty() { 0 } else { self.plan.chunks[idx % self.plan.chunks.len()] };
                let n = if lim == 0 { buf.len() } else { buf.len().min(lim) };
                self.accepted.extend_from_slice(&buf[..n]);
                Ok(n)
            }
        }
    }
    fn flush(&mut self) -> std::io::Result<()> {
        match self.step()? {
            Some(d @ (Dev::ErrOther | Dev::ErrBrokenPipe | Dev::ErrUnexpectedEof)) => {
                self.fired += 1;
                self.delivered.push(d);
                self.failed = Some(d);
                Err(d.err())
            }
            _ => Ok(()),
        }
    }
}

pub struct FaultR<'a> {
    pub data: &'a [u8],
    pub pos: usize,
    pub plan: Plan,
    pub calls: usize,
    pub fired: usize,
    /// the deviations that were actually delivered to the operation
    pub delivered: Vec<Dev>,
    pub budget: usize,
    pub hung: bool,
    failed: Option<Dev>,
}
impl<'a> FaultR<'a> {
    pub fn new(data: &'a [u8], plan: Plan, budget: usize) -> FaultR<'a> {
        FaultR {
            data,
            pos: 0,
            plan,
            calls: 0,
            fired: 0,
            delivered: vec![],
            budget,
            hung: false,
            failed: None,
        }
    }
}
impl Read for FaultR<'_> {
    fn read(&mut self, buf: &mut [u8]) -> std::io::Result<usize> {
        let idx = self.calls;
        self.calls += 1;
        if self.calls > self.budget {
            self.hung = true;
            return Err(std::io::Error::new(std::io::ErrorKind::Other, "harness: call budget exhausted (hang)"));
        }
        if let Some(d) = self.failed {
            if self.plan.sticky {
                return Err(d.err());
            }
        }
        let avail = self.data.len() - self.pos;
        let dev = self.plan.devs.iter().find(|(i, _)| *i == idx).map(|x| x.1);
        match dev {
            Some(Dev::Short1) if !buf.is_empty() && avail > 0 => {
                self.fired += 1;
                self.delivered.push(Dev::Short1);
                buf[0] = self.data[self.pos];
                self.pos += 1;
                Ok(1)
            }
            Some(Dev::Zero) if !buf.is_empty() && avail > 0 => {
                self.fired += 1;
                self.delivered.push(Dev::Zero);
                Ok(0)
            }
            Some(d @ (Dev::Interrupted | Dev::ErrOther | Dev::ErrBrokenPipe | Dev::ErrUnexpectedEof)) => {
                self.fired += 1;
                self.delivered.push(d);
                if !d.benign() {
                    self.failed = Some(d);
                }
                Err(d.err())
            }
            _ => {
                let lim = if self.plan.chunks.is_empty() { 0 } else { self.plan.chunks[idx % self.plan.chunks.len()] };
                let mut n = buf.len().min(avail);
                if lim != 0 {
                    n = n.min(lim);
                }
                buf[..n].copy_from_slice(&self.data[self.pos..self.pos + n]);
                self.pos += n;
                Ok(n)
            }
        }
    }
}
