//! Type-erased operations on one concrete Rust type: the only place where generic code is
//! instantiated per generated type. All check logic works on `dyn TypeOps` and `Val`.
use crate::bridge::Bridge;
use crate::Val;
use savefile::prelude::*;
use std::io::{Read, Write};
use std::marker::PhantomData;

#[derive(Clone, Copy, Debug, PartialEq, Eq, Hash, PartialOrd, Ord)]
pub enum Container {
    /// header + schema + payload (`save` / `load`)
    Plain,
    /// header + payload (`save_noschema` / `load_noschema`)
    NoSchema,
    /// header + bzip2(schema + payload) (`save_compressed` / `load`)
    Compressed,
    /// nonce + AES-GCM chunks of a Compressed container (CryptoWriter / CryptoReader in memory)
    Encrypted,
    /// payload only (`bare_serialize` / `bare_deserialize`)
    Bare,
}
pub const ALL_CONTAINERS: [Container; 5] = [
    Container::Plain,
    Container::NoSchema,
    Container::Compressed,
    Container::Encrypted,
    Container::Bare,
];

#[derive(Clone, Copy, Debug, PartialEq, Eq, Hash, PartialOrd, Ord)]
pub enum Ctx {
    Single,
    Vec,
    VecDeque,
    Array0,
    Array3,
    BoxSlice,
    ArcSlice,
    /// `&[T]` (write side only)
    Slice,
    ArrayVec4,
    Pair,
    Opt,
}
pub const BULK_CTXS: [Ctx; 10] = [
    Ctx::Vec,
    Ctx::VecDeque,
    Ctx::Array0,
    Ctx::Array3,
    Ctx::BoxSlice,
    Ctx::ArcSlice,
    Ctx::Slice,
    Ctx::ArrayVec4,
    Ctx::Pair,
    Ctx::Opt,
];

#[derive(Clone, Debug, PartialEq, Eq)]
pub enum OpErr {
    /// SavefileError variant name + message
    Savefile(String, String),
    Panic(String),
    Unsupported,
}
impl OpErr {
    pub fn kind(&self) -> &str {
        match self {
            OpErr::Savefile(k, _) => k,
            OpErr::Panic(_) => "PANIC",
            OpErr::Unsupported => "UNSUPPORTED",
        }
    }
    pub fn is_panic(&self) -> bool {
        matches!(self, OpErr::Panic(_))
    }
}
pub fn sf_err(e: SavefileError) -> OpErr {
    let dbg = format!("{:?}", e);
    let kind = dbg.split(|c: char| !c.is_alphanumeric()).next().unwrap_or("").to_string();
    OpErr::Savefile(kind, dbg)
}

pub const PASSWORD: &str = "correct horse";
pub fn key_of(password: &str) -> [u8; 32] {
    // the documented key derivation of save_encrypted_file: SHA-256 of the password
    let d = ring::digest::digest(&ring::digest::SHA256, password.as_bytes());
    let mut k = [0u8; 32];
    k.copy_from_slice(d.as_ref());
    k
}

pub struct DynW<'a>(pub &'a mut dyn Write);
impl Write for DynW<'_> {
    fn write(&mut self, buf: &[u8]) -> std::io::Result<usize> {
        self.0.write(buf)
    }
    fn flush(&mut self) -> std::io::Result<()> {
        self.0.flush()
    }
}
pub struct DynR<'a>(pub &'a mut dyn Read);
impl Read for DynR<'_> {
    fn read(&mut self, buf: &mut [u8]) -> std::io::Result<usize> {
        self.0.read(buf)
    }
}

fn guard<T>(f: impl FnOnce() -> Result<T, SavefileError>) -> Result<T, OpErr> {
    match vcommon::guarded(f) {
        Ok(Ok(v)) => Ok(v),
        Ok(Err(e)) => Err(sf_err(e)),
        Err(p) => Err(OpErr::Panic(p)),
    }
}

pub fn save_full<X: Serialize + WithSchema>(c: Container, ver: u32, x: &X, w: &mut dyn Write) -> Result<(), OpErr> {
    let mut w = DynW(w);
    guard(|| match c {
        Container::Plain => savefile::save(&mut w, ver, x),
        Container::NoSchema => savefile::save_noschema(&mut w, ver, x),
        Container::Compressed => savefile::save_compressed(&mut w, ver, x),
        Container::Encrypted => {
            // exactly what save_encrypted_file does with its File
            let mut cw = CryptoWriter::new(&mut w, key_of(PASSWORD))?;
            Serializer::save(&mut cw, ver, x, true)?;
            cw.flush()?;
            Ok(())
        }
        Container::Bare => Serializer::bare_serialize(&mut w, ver, x),
    })
}
pub fn load_full<X: Deserialize + WithSchema>(c: Container, ver: u32, r: &mut dyn Read) -> Result<X, OpErr> {
    let mut r = DynR(r);
    guard(|| match c {
        Container::Plain | Container::Compressed => savefile::load(&mut r, ver),
        Container::NoSchema => savefile::load_noschema(&mut r, ver),
        Container::Encrypted => {
            let mut cr = CryptoReader::new(&mut r, key_of(PASSWORD))?;
            Deserializer::load(&mut cr, ver)
        }
        Container::Bare => Deserializer::bare_deserialize(&mut r, ver),
    })
}
pub fn save_lite<X: Serialize + WithSchema>(c: Container, ver: u32, x: &X, w: &mut dyn Write) -> Result<(), OpErr> {
    let mut w = DynW(w);
    guard(|| match c {
        Container::Bare => Serializer::bare_serialize(&mut w, ver, x),
        _ => Err(SavefileError::GeneralError {
            msg: "harness: container not instantiated for bulk contexts".into(),
        }),
    })
}
pub fn load_lite<X: Deserialize + WithSchema>(c: Container, ver: u32, r: &mut dyn Read) -> Result<X, OpErr> {
    let mut r = DynR(r);
    guard(|| match c {
        Container::Bare => Deserializer::bare_deserialize(&mut r, ver),
        _ => Err(SavefileError::GeneralError {
            msg: "harness: container not instantiated for bulk contexts".into(),
        }),
    })
}

pub struct Loaded {
    /// the elements of the context (one for Single)
    pub vals: Vec<Val>,
    /// raw-memory validity complaints (C06)
    pub raw: Vec<String>,
}

pub trait TypeOps: Send + Sync {
    fn rust_name(&self) -> String;
    fn size_of(&self) -> usize;
    fn align_of(&self) -> usize;
    fn packed(&self, ver: u32) -> bool;
    fn schema(&self, ver: u32) -> Schema;
    /// schema of the context type (Vec<T>, [T;3], ...)
    fn schema_ctx(&self, ctx: Ctx, ver: u32) -> Schema;
    fn save(&self, c: Container, ver: u32, ctx: Ctx, vals: &[Val], w: &mut dyn Write) -> Result<(), OpErr>;
    fn load(&self, c: Container, ver: u32, ctx: Ctx, r: &mut dyn Read) -> Result<Loaded, OpErr>;
    fn mem_image(&self, v: &Val) -> Vec<u8>;
    fn with_introspect(&self, v: &Val, f: &mut dyn FnMut(&dyn Introspect));
}

pub struct Ops<T>(PhantomData<fn() -> T>);

pub fn ops<T>() -> Box<dyn TypeOps>
where
    T: Bridge + Serialize + Deserialize + WithSchema + Packed + Introspect + 'static,
{
    Box::new(Ops::<T>(PhantomData))
}

fn many<T: Bridge>(vals: &[Val]) -> Vec<T> {
    vals.iter().map(T::from_val).collect()
}
fn loaded<'a, T: Bridge + 'a>(it: impl Iterator<Item = &'a T>) -> Loaded {
    let mut vals = vec![];
    let mut raw = vec![];
    // zero-sized elements: a huge count costs nothing to load; look at a bounded number
    let cap = if std::mem::size_of::<T>() == 0 { 1 << 12 } else { usize::MAX };
    for x in it.take(cap) {
        x.raw_check(&mut raw);
        if !raw.is_empty() {
            // never convert a value with an invalid bit pattern
            break;
        }
        vals.push(x.to_val());
    }
    Loaded { vals, raw }
}

impl<T> TypeOps for Ops<T>
where
    T: Bridge + Serialize + Deserialize + WithSchema + Packed + Introspect + 'static,
{
    fn rust_name(&self) -> String {
        std::any::type_name::<T>().to_string()
    }
    fn size_of(&self) -> usize {
        std::mem::size_of::<T>()
    }
    fn align_of(&self) -> usize {
        std::mem::align_of::<T>()
    }
    fn packed(&self, ver: u32) -> bool {
        unsafe { T::repr_c_optimization_safe(ver).is_yes() }
    }
    fn schema(&self, ver: u32) -> Schema {
        get_schema::<T>(ver)
    }
    fn schema_ctx(&self, ctx: Ctx, ver: u32) -> Schema {
        match ctx {
            Ctx::Single => get_schema::<T>(ver),
            Ctx::Vec => get_schema::<Vec<T>>(ver),
            Ctx::VecDeque => get_schema::<std::collections::VecDeque<T>>(ver),
            Ctx::Array0 => get_schema::<[T; 0]>(ver),
            Ctx::Array3 => get_schema::<[T; 3]>(ver),
            Ctx::BoxSlice => get_schema::<Box<[T]>>(ver),
            Ctx::ArcSlice => get_schema::<std::sync::Arc<[T]>>(ver),
            Ctx::Slice => get_schema::<Vec<T>>(ver),
            Ctx::ArrayVec4 => get_schema::<arrayvec::ArrayVec<T, 4>>(ver),
            Ctx::Pair => get_schema::<(T, T)>(ver),
            Ctx::Opt => get_schema::<Option<T>>(ver),
        }
    }
    fn save(&self, c: Container, ver: u32, ctx: Ctx, vals: &[Val], w: &mut dyn Write) -> Result<(), OpErr> {
        match ctx {
            Ctx::Single => save_full(c, ver, &T::from_val(&vals[0]), w),
            Ctx::Vec => save_lite(c, ver, &many::<T>(vals), w),
            Ctx::VecDeque => save_lite(c, ver, &crate::probe::make_deque(many::<T>(vals)), w),
            Ctx::Array0 => save_lite::<[T; 0]>(c, ver, &[], w),
            Ctx::Array3 => {
                let a: [T; 3] = match many::<T>(vals).try_into() {
                    Ok(a) => a,
                    Err(_) => return Err(OpErr::Unsupported),
                };
                save_lite(c, ver, &a, w)
            }
            Ctx::BoxSlice => save_lite(c, ver, &many::<T>(vals).into_boxed_slice(), w),
            Ctx::ArcSlice => save_lite(c, ver, &std::sync::Arc::<[T]>::from(many::<T>(vals)), w),
            Ctx::Slice => {
                let v = many::<T>(vals);
                let s: &[T] = &v;
                save_lite(c, ver, &s, w)
            }
            Ctx::ArrayVec4 => {
                if vals.len() > 4 {
                    return Err(OpErr::Unsupported);
                }
                save_lite(c, ver, &many::<T>(vals).into_iter().collect::<arrayvec::ArrayVec<T, 4>>(), w)
            }
            Ctx::Pair => {
                if vals.len() != 2 {
                    return Err(OpErr::Unsupported);
                }
                save_lite(c, ver, &(T::from_val(&vals[0]), T::from_val(&vals[1])), w)
            }
            Ctx::Opt => {
                let o: Option<T> = vals.first().map(T::from_val);
                save_lite(c, ver, &o, w)
            }
        }
    }
    fn load(&self, c: Container, ver: u32, ctx: Ctx, r: &mut dyn Read) -> Result<Loaded, OpErr> {
        Ok(match ctx {
            Ctx::Single => loaded(std::iter::once(&load_full::<T>(c, ver, r)?)),
            Ctx::Vec => loaded(load_lite::<Vec<T>>(c, ver, r)?.iter()),
            Ctx::VecDeque => loaded(load_lite::<std::collections::VecDeque<T>>(c, ver, r)?.iter()),
            Ctx::Array0 => loaded(load_lite::<[T; 0]>(c, ver, r)?.iter()),
            Ctx::Array3 => loaded(load_lite::<[T; 3]>(c, ver, r)?.iter()),
            Ctx::BoxSlice => loaded(load_lite::<Box<[T]>>(c, ver, r)?.iter()),
            Ctx::ArcSlice => loaded(load_lite::<std::sync::Arc<[T]>>(c, ver, r)?.iter()),
            Ctx::Slice => return Err(OpErr::Unsupported),
            Ctx::ArrayVec4 => loaded(load_lite::<arrayvec::ArrayVec<T, 4>>(c, ver, r)?.iter()),
            Ctx::Pair => {
                let p = load_lite::<(T, T)>(c, ver, r)?;
                loaded([&p.0, &p.1].into_iter())
            }
            Ctx::Opt => loaded(load_lite::<Option<T>>(c, ver, r)?.iter()),
        })
    }
    fn mem_image(&self, v: &Val) -> Vec<u8> {
        let t = T::from_val(v);
        unsafe { std::slice::from_raw_parts(&t as *const T as *const u8, std::mem::size_of::<T>()) }.to_vec()
    }
    fn with_introspect(&self, v: &Val, f: &mut dyn FnMut(&dyn Introspect)) {
        let t = T::from_val(v);
        f(&t)
    }
}
