//! Glue between the model (`vmodel`) and the real crates in /repo.
pub use arrayvec;
pub use bit_set;
pub use bit_set08;
pub use bit_vec;
pub use bit_vec08;
pub use nalgebra;
pub use chrono;
pub use indexmap;
pub use parking_lot;
pub use savefile;
pub use savefile_abi;
pub use savefile_derive;
pub use smallvec;
pub use vcommon;
pub use vmodel;
pub use vmodel::Val;

pub mod bridge;
pub mod fileops;
pub mod ops;
pub mod probe;
pub mod convs {
    pub fn conv_u32_to_string(x: u32) -> String {
        x.to_string()
    }
}
