//! An element type with a destructor that is counted: lets the engines see a loader dropping
//! something it never constructed (an uninitialised array slot) or dropping a value twice.
//! Wire format: one byte; the byte 0xFF is rejected by `deserialize` (so that an error can be
//! placed in the middle of a sequence or array of probes).
use savefile::prelude::*;
use std::sync::atomic::{AtomicU64, Ordering::SeqCst};

static MADE: AtomicU64 = AtomicU64::new(0);
static DROPPED: AtomicU64 = AtomicU64::new(0);
static GARBAGE: AtomicU64 = AtomicU64::new(0);
const MAGIC: u64 = 0x5eed_d409_7e57_ab1e;

/// (values constructed, destructors run, destructors run on memory without the magic mark)
pub fn snapshot() -> (u64, u64, u64) {
    (MADE.load(SeqCst), DROPPED.load(SeqCst), GARBAGE.load(SeqCst))
}

#[derive(Debug)]
pub struct DropProbe {
    magic: u64,
    pub v: u8,
}
impl DropProbe {
    pub fn new(v: u8) -> DropProbe {
        MADE.fetch_add(1, SeqCst);
        DropProbe { magic: MAGIC, v }
    }
}
impl Drop for DropProbe {
    fn drop(&mut self) {
        DROPPED.fetch_add(1, SeqCst);
        // volatile: the read of a possibly uninitialised slot must really happen
        let m = unsafe { std::ptr::read_volatile(&self.magic) };
        if m != MAGIC {
            GARBAGE.fetch_add(1, SeqCst);
        }
        unsafe { std::ptr::write_volatile(&mut self.magic, 0) };
    }
}
impl WithSchema for DropProbe {
    fn schema(_version: u32, _context: &mut WithSchemaContext) -> Schema {
        Schema::Primitive(SchemaPrimitive::schema_u8)
    }
}
impl Packed for DropProbe {}
impl Serialize for DropProbe {
    fn serialize(&self, serializer: &mut Serializer<impl std::io::Write>) -> Result<(), SavefileError> {
        serializer.write_u8(self.v)
    }
}
impl Deserialize for DropProbe {
    fn deserialize(deserializer: &mut Deserializer<impl std::io::Read>) -> Result<Self, SavefileError> {
        let v = deserializer.read_u8()?;
        if v == 0xFF {
            return Err(SavefileError::GeneralError { msg: "probe value 0xFF".to_string() });
        }
        Ok(DropProbe::new(v))
    }
}
impl Introspect for DropProbe {
    fn introspect_value(&self) -> String {
        self.v.to_string()
    }
    fn introspect_child<'a>(&'a self, _index: usize) -> Option<Box<dyn IntrospectItem<'a> + 'a>> {
        None
    }
}
impl crate::bridge::Bridge for DropProbe {
    fn to_val(&self) -> crate::Val {
        crate::Val::U(self.v as u128)
    }
    fn from_val(v: &crate::Val) -> Self {
        match v {
            crate::Val::U(x) => DropProbe::new(*x as u8),
            _ => panic!("probe from {:?}", v),
        }
    }
}

/// A `VecDeque` holding `items` in order; for an even number (>= 2) of items the ring buffer is in
/// the *wrapped* state (`as_slices()` returns two non-empty slices), otherwise contiguous.
pub fn make_deque<T>(mut items: Vec<T>) -> std::collections::VecDeque<T> {
    let n = items.len();
    if n < 2 || n % 2 == 1 {
        return items.into_iter().collect();
    }
    let second = items.split_off(n / 2);
    let mut d = std::collections::VecDeque::with_capacity(n);
    for x in second {
        d.push_back(x);
    }
    for x in items.into_iter().rev() {
        d.push_front(x);
    }
    assert!(std::mem::size_of::<T>() == 0 || !d.as_slices().1.is_empty(), "deque not wrapped");
    d
}
