//! Hand-written objects: used as extra roots of exploration (a) and as the objects of the
//! navigation search (b). Everything is deterministic: hash containers use a fixed hasher so
//! that their iteration order (which decides what "child 0" is) is the same in every run and in
//! every rebuilt copy of an object.
use savefile::prelude::*;
use savefile::{introspect_item, IntrospectItem};
use savefile_derive::{Savefile, SavefileIntrospectOnly};
use std::cell::RefCell;
use std::collections::{BTreeMap, BTreeSet, BinaryHeap, HashMap, HashSet, VecDeque};
use std::rc::Rc;
use std::sync::Arc;
use vglue::indexmap::{IndexMap, IndexSet};
use vglue::parking_lot;
use vmodel::families::mk_def_named;
use vmodel::{DefKind, Field, MapKind, Prim, SeqKind, StructDef, Style, Ty, WrapKind};

pub type DH = std::hash::BuildHasherDefault<std::collections::hash_map::DefaultHasher>;

#[derive(Savefile)]
pub struct Leaf {
    x: u32,
}
#[derive(Savefile)]
pub struct Mid {
    leaf: Leaf,
    n: u8,
    leaf2: Leaf,
}
#[derive(Savefile)]
pub struct Top {
    mid: Mid,
    other: Mid,
    tail: u16,
}
#[derive(Savefile)]
pub struct UnitS;
#[derive(Savefile)]
pub struct EmptyS {}
#[derive(Savefile)]
pub struct TupleS(u8, Leaf);
#[derive(Savefile)]
pub struct Keyed {
    #[savefile_introspect_key]
    name: String,
    value: u32,
}
#[derive(Savefile)]
pub struct Ignoring {
    a: u8,
    #[savefile_introspect_ignore]
    hidden: u32,
    b: Leaf,
}
#[derive(Savefile)]
pub struct KeyIgnore {
    #[savefile_introspect_ignore]
    h: u8,
    #[savefile_introspect_key]
    name: String,
    #[savefile_introspect_ignore]
    h2: u8,
    v: Leaf,
}
#[derive(Savefile)]
pub struct AllIgnored {
    #[savefile_introspect_ignore]
    a: u8,
    #[savefile_introspect_ignore]
    b: u8,
}
#[derive(Savefile)]
pub enum En {
    A,
    B(u32, Leaf),
    C {
        #[savefile_introspect_key]
        name: String,
        inner: Mid,
    },
}
#[derive(Savefile)]
pub struct Nest {
    a: Option<Box<Nest>>,
    b: Option<Box<Nest>>,
    c: u32,
}
#[derive(SavefileIntrospectOnly)]
pub struct WithMaps {
    hm: HashMap<u32, String, DH>,
    bm: BTreeMap<String, Leaf>,
    v: Vec<Leaf>,
    o: Option<Box<Mid>>,
    e: Vec<u8>,
}
#[derive(SavefileIntrospectOnly)]
pub struct Locks {
    m: std::sync::Mutex<Leaf>,
    r: RefCell<Mid>,
    rw: parking_lot::RwLock<Vec<u8>>,
    pm: parking_lot::Mutex<Option<Leaf>>,
}

/// A user-written `Introspect` impl whose children have equal key strings: the only way to
/// reach `key_disambiguator > 0` (no library or derived impl produces duplicate keys).
pub struct DupKeys {
    a: Leaf,
    b: u32,
    c: Mid,
    d: Leaf,
}
impl Introspect for DupKeys {
    fn introspect_value(&self) -> String {
        "DupKeys".to_string()
    }
    fn introspect_child<'a>(&'a self, index: usize) -> Option<Box<dyn IntrospectItem<'a> + 'a>> {
        match index {
            0 => Some(introspect_item("dup".to_string(), &self.a)),
            1 => Some(introspect_item("dup".to_string(), &self.b)),
            2 => Some(introspect_item("other".to_string(), &self.c)),
            3 => Some(introspect_item("dup".to_string(), &self.d)),
            _ => None,
        }
    }
    fn introspect_len(&self) -> usize {
        4
    }
}

fn leaf(x: u32) -> Leaf {
    Leaf { x }
}
fn mid(k: u32) -> Mid {
    Mid {
        leaf: leaf(k),
        n: k as u8,
        leaf2: leaf(k + 1),
    }
}
fn top() -> Top {
    Top {
        mid: mid(1),
        other: mid(10),
        tail: 99,
    }
}
fn nest(depth: u32, c: u32) -> Nest {
    if depth == 0 {
        Nest { a: None, b: None, c }
    } else {
        Nest {
            a: Some(Box::new(nest(depth - 1, 2 * c))),
            b: Some(Box::new(nest(depth - 1, 2 * c + 1))),
            c,
        }
    }
}
fn poisoned_mutex() -> std::sync::Mutex<Leaf> {
    let m = std::sync::Mutex::new(leaf(5));
    let _ = vcommon::guarded(|| {
        let _g = m.lock().unwrap();
        panic!("poisoning on purpose");
    });
    m
}

// ---- model types of the objects (labels only, see typing.rs) ----
fn p(x: Prim) -> Ty {
    Ty::Prim(x)
}
fn bx(t: Ty) -> Box<Ty> {
    Box::new(t)
}
fn st(name: &str, fields: &[(&str, Ty)]) -> Ty {
    Ty::Def(mk_def_named(
        name,
        DefKind::Struct(StructDef {
            repr_c: false,
            align: None,
            style: Style::Named,
            fields: fields.iter().map(|(n, t)| Field::plain(n, t.clone())).collect(),
        }),
        false,
    ))
}
fn t_leaf() -> Ty {
    st("Leaf", &[("x", p(Prim::U32))])
}
fn t_mid() -> Ty {
    st("Mid", &[("leaf", t_leaf()), ("n", p(Prim::U8)), ("leaf2", t_leaf())])
}
fn t_top() -> Ty {
    st("Top", &[("mid", t_mid()), ("other", t_mid()), ("tail", p(Prim::U16))])
}
fn seq(k: SeqKind, t: Ty) -> Ty {
    Ty::Seq(k, bx(t))
}
fn map(k: MapKind, a: Ty, b: Ty) -> Ty {
    Ty::Map(k, bx(a), bx(b))
}
fn wrap(k: WrapKind, t: Ty) -> Ty {
    Ty::Wrap(k, bx(t))
}
fn opt(t: Ty) -> Ty {
    Ty::Opt(bx(t))
}

pub struct ObjDef {
    pub id: &'static str,
    pub desc: &'static str,
    /// part of the navigation search (b); every object is part of exploration (a)
    pub nav: bool,
    pub with: fn(&mut dyn FnMut(&dyn Introspect)),
    pub ty: fn() -> Option<Ty>,
}

macro_rules! obj {
    ($id:expr, $nav:expr, $desc:expr, $ty:expr, $val:expr) => {
        ObjDef {
            id: $id,
            desc: $desc,
            nav: $nav,
            with: |f| {
                let v = $val;
                f(&v)
            },
            ty: || $ty,
        }
    };
}

pub fn objects() -> Vec<ObjDef> {
    use MapKind::*;
    use Prim::*;
    use SeqKind::*;
    vec![
        obj!("u32_leaf", true, "7u32 (no children)", Some(p(U32)), 7u32),
        obj!("string", true, "String", Some(p(String)), "hello".to_string()),
        obj!("unit_struct", true, "struct UnitS;", Some(st("UnitS", &[])), UnitS),
        obj!("empty_struct", true, "struct EmptyS {}", Some(st("EmptyS", &[])), EmptyS {}),
        obj!("tuple_struct", true, "struct TupleS(u8, Leaf)", Some(st("TupleS", &[("0", p(U8)), ("1", t_leaf())])), TupleS(3, leaf(4))),
        obj!("top3", true, "Top{mid:Mid{leaf:Leaf{x},n,leaf2},other:Mid,tail}: structs nested 3 deep", Some(t_top()), top()),
        obj!("nest3", true, "recursive Nest{a:Option<Box<Nest>>,b,c}, 3 levels", None, nest(2, 1)),
        obj!("vec_u8_3", true, "vec![1u8,2,3]", Some(seq(Vec, p(U8))), vec![1u8, 2, 3]),
        obj!("vec_empty", true, "Vec::<u8>::new()", Some(seq(Vec, p(U8))), std::vec::Vec::<u8>::new()),
        obj!("vec_struct_2", true, "vec![Leaf,Leaf]", Some(seq(Vec, t_leaf())), vec![leaf(1), leaf(2)]),
        obj!("vec_vec", true, "vec![vec![1,2],vec![],vec![3]]", Some(seq(Vec, seq(Vec, p(U16)))), vec![vec![1u16, 2], vec![], vec![3]]),
        obj!("vec_10001", true, "Vec<u8> with 10 001 elements", Some(seq(Vec, p(U8))), (0..10001u32).map(|i| i as u8).collect::<std::vec::Vec<u8>>()),
        obj!("vecdeque_3", true, "VecDeque<u16> of 3", Some(seq(VecDeque, p(U16))), [5u16, 6, 7].into_iter().collect::<std::collections::VecDeque<u16>>()),
        obj!("hashmap_2", true, "HashMap<u32,String> with 2 entries (fixed hasher)", Some(map(HashMap, p(U32), p(String))), {
            let mut m: std::collections::HashMap<u32, std::string::String, DH> = Default::default();
            m.insert(1, "one".into());
            m.insert(2, "two".into());
            m
        }),
        obj!("hashmap_empty", true, "empty HashMap<u32,String>", Some(map(HashMap, p(U32), p(String))), std::collections::HashMap::<u32, std::string::String, DH>::default()),
        obj!("btreemap_struct_2", true, "BTreeMap<String,Leaf> with 2 entries", Some(map(BTreeMap, p(String), t_leaf())), {
            let mut m = std::collections::BTreeMap::new();
            m.insert("a".to_string(), leaf(1));
            m.insert("b".to_string(), leaf(2));
            m
        }),
        obj!("btreemap_1", true, "BTreeMap<u8,u8> with 1 entry", Some(map(BTreeMap, p(U8), p(U8))), {
            let mut m = std::collections::BTreeMap::new();
            m.insert(1u8, 2u8);
            m
        }),
        obj!("indexmap_2", true, "IndexMap<u8,Vec<u8>> with 2 entries", Some(map(IndexMap, p(U8), seq(Vec, p(U8)))), {
            let mut m: vglue::indexmap::IndexMap<u8, std::vec::Vec<u8>> = Default::default();
            m.insert(9, vec![1, 2]);
            m.insert(3, vec![]);
            m
        }),
        obj!("btreemap_nested", true, "BTreeMap<u8,BTreeMap<u8,u8>>", Some(map(BTreeMap, p(U8), map(BTreeMap, p(U8), p(U8)))), {
            let mut inner = std::collections::BTreeMap::new();
            inner.insert(1u8, 2u8);
            inner.insert(3u8, 4u8);
            let mut m = std::collections::BTreeMap::new();
            m.insert(7u8, inner);
            m.insert(8u8, std::collections::BTreeMap::new());
            m
        }),
        obj!("hashset_3", true, "HashSet<u32> of 3 (fixed hasher)", Some(seq(HashSet, p(U32))), [1u32, 2, 3].into_iter().collect::<std::collections::HashSet<u32, DH>>()),
        obj!("btreeset_2", true, "BTreeSet<String> of 2", Some(seq(BTreeSet, p(String))), ["x".to_string(), "y".to_string()].into_iter().collect::<std::collections::BTreeSet<_>>()),
        obj!("btreeset_empty", true, "empty BTreeSet<u8>", Some(seq(BTreeSet, p(U8))), std::collections::BTreeSet::<u8>::new()),
        obj!("indexset_2", true, "IndexSet<u16> of 2", Some(seq(IndexSet, p(U16))), [4u16, 2].into_iter().collect::<vglue::indexmap::IndexSet<u16>>()),
        obj!("binaryheap_3", true, "BinaryHeap<u8> of 3", Some(seq(BinaryHeap, p(U8))), [4u8, 2, 9].into_iter().collect::<std::collections::BinaryHeap<u8>>()),
        obj!("option_none", true, "Option::<Mid>::None", Some(opt(t_mid())), Option::<Mid>::None),
        obj!("option_some", true, "Some(Mid)", Some(opt(t_mid())), Some(mid(3))),
        obj!("option_map", true, "Some(BTreeMap<u8,u8>) with 2 entries", Some(opt(map(BTreeMap, p(U8), p(U8)))), {
            let mut m = std::collections::BTreeMap::new();
            m.insert(1u8, 1u8);
            m.insert(2u8, 2u8);
            Some(m)
        }),
        obj!("result_ok", true, "Result<Leaf,String>::Ok", None, Result::<Leaf, std::string::String>::Ok(leaf(1))),
        obj!("result_err", true, "Result<u8,Mid>::Err", None, Result::<u8, Mid>::Err(mid(2))),
        obj!("keyed", true, "struct with #[savefile_introspect_key]", Some(st("Keyed", &[("name", p(String)), ("value", p(U32))])), Keyed { name: "apple".into(), value: 3 }),
        obj!("ignoring", true, "struct with a #[savefile_introspect_ignore] field in the middle", Some(st("Ignoring", &[("a", p(U8)), ("b", t_leaf())])), Ignoring { a: 1, hidden: 2, b: leaf(3) }),
        obj!("key_ignore", true, "struct with ignored fields around a key field", Some(st("KeyIgnore", &[("name", p(String)), ("v", t_leaf())])), KeyIgnore { h: 1, name: "k".into(), h2: 2, v: leaf(3) }),
        obj!("all_ignored", true, "struct whose fields are all introspect-ignored", Some(st("AllIgnored", &[])), AllIgnored { a: 1, b: 2 }),
        obj!("enum_unit", true, "En::A", None, En::A),
        obj!("enum_tuple", true, "En::B(u32, Leaf)", None, En::B(5, leaf(6))),
        obj!("enum_named_key", true, "En::C{#[key] name, inner: Mid}", None, En::C { name: "nm".into(), inner: mid(7) }),
        obj!("dup_keys", true, "hand-written Introspect with keys dup,dup,other,dup", None, DupKeys { a: leaf(1), b: 2, c: mid(3), d: leaf(4) }),
        obj!("refcell_mid", true, "RefCell<Mid>", Some(wrap(WrapKind::RefCell, t_mid())), RefCell::new(mid(1))),
        obj!("std_mutex_leaf", true, "std::sync::Mutex<Leaf>", Some(wrap(WrapKind::Mutex, t_leaf())), std::sync::Mutex::new(leaf(1))),
        obj!("std_mutex_poisoned", true, "poisoned std::sync::Mutex<Leaf>", None, poisoned_mutex()),
        obj!("pl_rwlock_vec", true, "parking_lot::RwLock<Vec<u8>>", Some(wrap(WrapKind::RwLock, seq(Vec, p(U8)))), parking_lot::RwLock::new(vec![1u8, 2])),
        obj!("pl_mutex_opt", true, "parking_lot::Mutex<Option<Leaf>>", Some(wrap(WrapKind::PlMutex, opt(t_leaf()))), parking_lot::Mutex::new(Some(leaf(2)))),
        obj!("mutex_map", true, "std::sync::Mutex<BTreeMap<u8,u8>>", Some(wrap(WrapKind::Mutex, map(BTreeMap, p(U8), p(U8)))), {
            let mut m = std::collections::BTreeMap::new();
            m.insert(1u8, 1u8);
            std::sync::Mutex::new(m)
        }),
        obj!(
            "locks_struct",
            true,
            "struct with Mutex, RefCell, RwLock, parking_lot::Mutex fields",
            Some(st(
                "Locks",
                &[
                    ("m", wrap(WrapKind::Mutex, t_leaf())),
                    ("r", wrap(WrapKind::RefCell, t_mid())),
                    ("rw", wrap(WrapKind::RwLock, seq(Vec, p(U8)))),
                    ("pm", wrap(WrapKind::PlMutex, opt(t_leaf())))
                ]
            )),
            Locks {
                m: std::sync::Mutex::new(leaf(1)),
                r: RefCell::new(mid(2)),
                rw: parking_lot::RwLock::new(vec![7, 8, 9]),
                pm: parking_lot::Mutex::new(Some(leaf(3))),
            }
        ),
        obj!(
            "with_maps",
            true,
            "struct with HashMap, BTreeMap, Vec<struct>, Option<Box<struct>>, empty Vec fields",
            Some(st(
                "WithMaps",
                &[
                    ("hm", map(HashMap, p(U32), p(String))),
                    ("bm", map(BTreeMap, p(String), t_leaf())),
                    ("v", seq(Vec, t_leaf())),
                    ("o", opt(wrap(WrapKind::Box, t_mid()))),
                    ("e", seq(Vec, p(U8)))
                ]
            )),
            {
                let mut hm: std::collections::HashMap<u32, std::string::String, DH> = Default::default();
                hm.insert(10, "ten".into());
                let mut bm = std::collections::BTreeMap::new();
                bm.insert("k1".to_string(), leaf(1));
                bm.insert("k2".to_string(), leaf(2));
                WithMaps {
                    hm,
                    bm,
                    v: vec![leaf(5), leaf(6)],
                    o: Some(Box::new(mid(7))),
                    e: vec![],
                }
            }
        ),
        obj!("vec_of_maps", true, "Vec<BTreeMap<u8,u8>> (one empty, one with an entry)", Some(seq(Vec, map(BTreeMap, p(U8), p(U8)))), {
            let mut m = std::collections::BTreeMap::new();
            m.insert(1u8, 2u8);
            vec![std::collections::BTreeMap::new(), m]
        }),
        obj!("tuple3", true, "(u8, Leaf, Vec<u8>)", Some(Ty::Tuple(vec![p(U8), t_leaf(), seq(Vec, p(U8))])), (1u8, leaf(2), vec![3u8, 4])),
        obj!("array_struct_2", true, "[Leaf; 2]", Some(Ty::Array(bx(t_leaf()), 2)), [leaf(1), leaf(2)]),
        obj!("array_empty", true, "[u8; 0]", Some(Ty::Array(bx(p(U8)), 0)), [0u8; 0]),
        obj!("range", true, "0u32..5", None, 0u32..5),
        obj!("box_top", true, "Box<Top>", Some(wrap(WrapKind::Box, t_top())), Box::new(top())),
        obj!("rc_refcell", true, "Rc<RefCell<Leaf>>", Some(wrap(WrapKind::Rc, wrap(WrapKind::RefCell, t_leaf()))), Rc::new(RefCell::new(leaf(1)))),
        obj!("arc_vec", true, "Arc<Vec<u8>>", Some(wrap(WrapKind::Arc, seq(Vec, p(U8)))), Arc::new(vec![1u8, 2])),
        // wide nodes: exploration (a) only (navigation over them costs O(children) per step
        // without exercising anything vec_10001 does not)
        obj!("vecdeque_10001", false, "VecDeque<u8> with 10 001 elements", Some(seq(VecDeque, p(U8))), (0..10001u32).map(|i| i as u8).collect::<std::collections::VecDeque<u8>>()),
        obj!("boxslice_10001", false, "Box<[u8]> with 10 001 elements", Some(seq(BoxSlice, p(U8))), (0..10001u32).map(|i| i as u8).collect::<std::vec::Vec<u8>>().into_boxed_slice()),
        obj!("array_10000", false, "[u8; 10000] (= MAX_CHILDREN of the default introspect_len)", Some(Ty::Array(bx(p(U8)), 10000)), [0u8; 10000]),
        obj!("array_10001", false, "[u8; 10001] (one more than MAX_CHILDREN)", Some(Ty::Array(bx(p(U8)), 10001)), [0u8; 10001]),
        // wide nodes behind smart pointers / cells: the wrapper must forward the length of what it holds
        obj!("arc_vec_10001", false, "Arc<Vec<u8>> with 10 001 elements", Some(wrap(WrapKind::Arc, seq(Vec, p(U8)))), Arc::new((0..10001u32).map(|i| i as u8).collect::<std::vec::Vec<u8>>())),
        obj!("rc_vec_10001", false, "Rc<Vec<u8>> with 10 001 elements", Some(wrap(WrapKind::Rc, seq(Vec, p(U8)))), Rc::new((0..10001u32).map(|i| i as u8).collect::<std::vec::Vec<u8>>())),
        obj!("box_vec_10001", false, "Box<Vec<u8>> with 10 001 elements", Some(wrap(WrapKind::Box, seq(Vec, p(U8)))), Box::new((0..10001u32).map(|i| i as u8).collect::<std::vec::Vec<u8>>())),
        obj!("refcell_vec_10001", false, "RefCell<Vec<u8>> with 10 001 elements", Some(wrap(WrapKind::RefCell, seq(Vec, p(U8)))), RefCell::new((0..10001u32).map(|i| i as u8).collect::<std::vec::Vec<u8>>())),
        obj!("rc_btreemap_5001", false, "Rc<BTreeMap<u32,u32>> with 5 001 entries (10 002 children)", Some(wrap(WrapKind::Rc, map(BTreeMap, p(U32), p(U32)))), Rc::new((0..5001u32).map(|i| (i, i)).collect::<std::collections::BTreeMap<u32, u32>>())),
        obj!("vec_of_wide", false, "vec![Vec<u8> of 10 001, Vec<u8> of 2]", Some(seq(Vec, seq(Vec, p(U8)))), vec![(0..10001u32).map(|i| i as u8).collect::<std::vec::Vec<u8>>(), vec![1u8, 2]]),
    ]
}

// silence "unused import" for the container names that only appear fully qualified above
#[allow(unused)]
fn _uses(_: BTreeSet<u8>, _: BinaryHeap<u8>, _: HashSet<u8>, _: VecDeque<u8>, _: IndexSet<u8>, _: IndexMap<u8, u8>, _: HashMap<u8, u8>, _: BTreeMap<u8, u8>) {}
