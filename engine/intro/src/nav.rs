//! Exploration (b): breadth-first search over `Introspector` command sequences.
//!
//! State. `Introspector` is `Clone + Debug` and consists of exactly two private fields
//! (`path: Vec<PathElement{key, key_disambiguator, max_children}>`, `child_load_count`), both
//! printed by the derived `Debug` (strings are printed escaped, so the form is injective). The
//! object is immutable and `do_introspect` is a deterministic function of (introspector state,
//! object, command) — its only internal map is used for lookups, never iterated. The canonical
//! state is therefore (object id, Debug form of the Introspector): two command histories that
//! reach the same form have literally equal introspector fields and hence the same futures. The
//! start configuration (`new()` / `new_with(k)`) is part of the form (`child_load_count`).
//!
//! Alphabet of a state s (a function of s only): first `Nothing` is executed on a clone of s
//! (it never changes the path); its result R gives D = max(num_frames, frames of R), the
//! observed keys and the widest frame W. Commands: ExpandElement{depth in 0..=D+1 ∪ {usize::MAX},
//! key in observed ∪ {"?"}, disambiguator in {0,1,2,usize::MAX}}, SelectNth{depth in 0..=D+1 ∪
//! {usize::MAX}, index in idx(W) ∪ {usize::MAX}}, Up, Nothing, where idx(W) = 0..=W+1 for
//! W <= 6 and {0..=4, W-2, W-1, W, W+1} for wider frames (observed keys of a wide frame are
//! those at the same representative positions).
//!
//! The post state of EVERY command (Ok or Err: errors can modify the path) is a state.
use savefile::{IntrospectedElementKey, IntrospectionError, IntrospectionResult, Introspector, IntrospectorNavCommand};
use std::collections::{BTreeMap, BTreeSet, HashMap};
use vcommon::guarded;
use vcommon::serde_json::{json, Value};

#[derive(Clone, Debug, PartialEq, Eq)]
pub enum Cmd {
    Expand { depth: usize, key: String, dis: usize },
    Select { depth: usize, index: usize },
    Up,
    Nothing,
}
impl Cmd {
    pub fn to_nav(&self) -> IntrospectorNavCommand {
        match self {
            Cmd::Expand { depth, key, dis } => IntrospectorNavCommand::ExpandElement(IntrospectedElementKey {
                depth: *depth,
                key: key.clone(),
                key_disambiguator: *dis,
            }),
            Cmd::Select { depth, index } => IntrospectorNavCommand::SelectNth {
                select_depth: *depth,
                select_index: *index,
            },
            Cmd::Up => IntrospectorNavCommand::Up,
            Cmd::Nothing => IntrospectorNavCommand::Nothing,
        }
    }
    pub fn kind(&self) -> &'static str {
        match self {
            Cmd::Expand { .. } => "ExpandElement",
            Cmd::Select { .. } => "SelectNth",
            Cmd::Up => "Up",
            Cmd::Nothing => "Nothing",
        }
    }
    pub fn to_json(&self) -> Value {
        match self {
            Cmd::Expand { depth, key, dis } => json!({"ExpandElement": {"depth": depth, "key": key, "key_disambiguator": dis}}),
            Cmd::Select { depth, index } => json!({"SelectNth": {"select_depth": depth, "select_index": index}}),
            Cmd::Up => json!("Up"),
            Cmd::Nothing => json!("Nothing"),
        }
    }
    pub fn from_json(j: &Value) -> Option<Cmd> {
        if let Some(s) = j.as_str() {
            return match s {
                "Up" => Some(Cmd::Up),
                "Nothing" => Some(Cmd::Nothing),
                _ => None,
            };
        }
        if let Some(e) = j.get("ExpandElement") {
            return Some(Cmd::Expand {
                depth: e["depth"].as_u64()? as usize,
                key: e["key"].as_str()?.to_string(),
                dis: e["key_disambiguator"].as_u64()? as usize,
            });
        }
        if let Some(e) = j.get("SelectNth") {
            return Some(Cmd::Select {
                depth: e["select_depth"].as_u64()? as usize,
                index: e["select_index"].as_u64()? as usize,
            });
        }
        None
    }
}

pub fn make_introspector(start: Option<usize>) -> Introspector {
    match start {
        None => Introspector::new(),
        Some(k) => Introspector::new_with(k),
    }
}
pub fn start_name(start: Option<usize>) -> String {
    match start {
        None => "new()".to_string(),
        Some(k) => format!("new_with({})", k),
    }
}
pub const STARTS: [Option<usize>; 5] = [None, Some(0), Some(1), Some(2), Some(3)];

/// representative positions in a frame of width w
fn rep_indices(w: usize) -> Vec<usize> {
    if w <= 6 {
        (0..=w + 1).collect()
    } else {
        let mut v: Vec<usize> = (0..=4).collect();
        v.extend([w - 2, w - 1, w, w + 1]);
        v
    }
}

#[derive(Clone, Debug, PartialEq, Eq, PartialOrd, Ord, Hash)]
pub enum Outcome {
    Ok,
    Err(&'static str),
    Panic,
}
fn err_name(e: IntrospectionError) -> &'static str {
    match e {
        IntrospectionError::BadDepth => "BadDepth",
        IntrospectionError::UnknownKey => "UnknownKey",
        IntrospectionError::NoChildren => "NoChildren",
        IntrospectionError::IndexOutOfRange => "IndexOutOfRange",
        IntrospectionError::AlreadyAtTop => "AlreadyAtTop",
    }
}

pub struct StepFinding {
    pub oracle: &'static str,
    pub detail: String,
}

pub struct Step {
    pub outcome: Outcome,
    pub frames: usize,
    pub total_len: usize,
    pub findings: Vec<StepFinding>,
    pub result: Option<IntrospectionResult>,
    /// number of total_index calls made
    pub index_calls: u64,
}

/// One command on the implementation + the oracle of property C17 (navigation part).
pub fn step(intro: &mut Introspector, obj: &dyn savefile::Introspect, cmd: &Cmd) -> Step {
    let mut findings = vec![];
    let r = guarded(|| intro.do_introspect(obj, cmd.to_nav()));
    match r {
        Err(p) => {
            findings.push(StepFinding {
                oracle: "nav_panic",
                detail: format!("do_introspect panicked: {}", p),
            });
            Step {
                outcome: Outcome::Panic,
                frames: 0,
                total_len: 0,
                findings,
                result: None,
                index_calls: 0,
            }
        }
        Ok(Err(e)) => Step {
            outcome: Outcome::Err(err_name(e)),
            frames: 0,
            total_len: 0,
            findings,
            result: None,
            index_calls: 0,
        },
        Ok(Ok(res)) => {
            let mut index_calls = 0;
            let total = match guarded(|| res.total_len()) {
                Ok(t) => t,
                Err(p) => {
                    findings.push(StepFinding {
                        oracle: "total_index_panic",
                        detail: format!("total_len() panicked: {}", p),
                    });
                    0
                }
            };
            let claimed = total;
            let mut first_bad: Option<(usize, bool)> = None;
            let mut bad = 0usize;
            for i in 0..claimed.saturating_add(3) {
                index_calls += 1;
                match guarded(|| res.total_index(i).is_some()) {
                    Ok(some) => {
                        if some != (i < claimed) {
                            bad += 1;
                            if first_bad.is_none() {
                                first_bad = Some((i, some));
                            }
                        }
                    }
                    Err(p) => {
                        findings.push(StepFinding {
                            oracle: "total_index_panic",
                            detail: format!("total_index({}) panicked (total_len {}): {}", i, claimed, p),
                        });
                        break;
                    }
                }
            }
            if let Some((i, some)) = first_bad {
                findings.push(StepFinding {
                    oracle: "total_index_vs_total_len",
                    detail: format!(
                        "total_len() = {} but total_index({}) is {} ({} disagreeing indices in 0..{})",
                        claimed,
                        i,
                        if some { "Some" } else { "None" },
                        bad,
                        claimed + 3
                    ),
                });
            }
            Step {
                outcome: Outcome::Ok,
                frames: res.frames.len(),
                total_len: total,
                findings,
                result: Some(res),
                index_calls,
            }
        }
    }
}

pub fn alphabet(intro: &Introspector, probe: Option<&IntrospectionResult>) -> Vec<Cmd> {
    let frames = probe.map(|r| r.frames.len()).unwrap_or(0);
    let d = intro.num_frames().max(frames);
    let mut keys: BTreeSet<String> = BTreeSet::new();
    let mut w = 0usize;
    if let Some(r) = probe {
        for f in &r.frames {
            let n = f.keyvals.len();
            w = w.max(n);
            for i in rep_indices(n) {
                if i < n {
                    keys.insert(f.keyvals[i].key.key.clone());
                }
            }
        }
    }
    keys.insert("?".to_string());
    let mut out = vec![];
    let mut depths: Vec<usize> = (0..=d + 1).collect();
    depths.push(usize::MAX);
    let mut indices = rep_indices(w);
    indices.push(usize::MAX);
    for &depth in &depths {
        for key in &keys {
            for dis in [0, 1, 2, usize::MAX] {
                out.push(Cmd::Expand {
                    depth,
                    key: key.clone(),
                    dis,
                });
            }
        }
    }
    for &depth in &depths {
        for &index in &indices {
            out.push(Cmd::Select { depth, index });
        }
    }
    out.push(Cmd::Up);
    out.push(Cmd::Nothing);
    out
}

pub struct NavFinding {
    pub oracle: &'static str,
    pub detail: String,
    pub start: Option<usize>,
    pub commands: Vec<Cmd>,
}

#[derive(Default)]
pub struct BfsReport {
    pub states: usize,
    pub states_expanded: usize,
    pub states_per_level: Vec<usize>,
    pub transitions: u64,
    pub index_calls: u64,
    pub outcomes: BTreeMap<Outcome, u64>,
    pub outcome_by_cmd: BTreeMap<String, u64>,
    /// expanded states whose `Nothing` result has >= 2 frames
    pub states_deep: usize,
    pub max_frames: usize,
    pub max_total_len: usize,
    pub max_path: usize,
    pub max_alphabet: usize,
    pub merged: u64,
    pub findings: Vec<NavFinding>,
    pub sample: Option<Value>,
}

struct St {
    intro: Introspector,
    parent: Option<(usize, Cmd)>,
}

fn history(states: &[St], mut i: usize) -> Vec<Cmd> {
    let mut h = vec![];
    while let Some((p, c)) = &states[i].parent {
        h.push(c.clone());
        i = *p;
    }
    h.reverse();
    h
}

struct Expansion {
    deep: bool,
    alphabet: usize,
    /// (command, outcome, frames, total_len, post introspector, findings)
    steps: Vec<(Cmd, Outcome, usize, usize, Option<Introspector>, Vec<StepFinding>)>,
    index_calls: u64,
}

fn expand(with: fn(&mut dyn FnMut(&dyn savefile::Introspect)), intro: &Introspector) -> Expansion {
    let mut out = None;
    with(&mut |obj| {
        let mut steps = vec![];
        let mut index_calls = 0;
        // Nothing first: oracle + alphabet
        let mut c = intro.clone();
        let s0 = step(&mut c, obj, &Cmd::Nothing);
        index_calls += s0.index_calls;
        let cmds = alphabet(intro, s0.result.as_ref());
        let deep = s0.frames >= 2;
        let post = if s0.outcome == Outcome::Panic { None } else { Some(c) };
        steps.push((Cmd::Nothing, s0.outcome, s0.frames, s0.total_len, post, s0.findings));
        for cmd in &cmds {
            if *cmd == Cmd::Nothing {
                continue;
            }
            let mut c = intro.clone();
            let s = step(&mut c, obj, cmd);
            index_calls += s.index_calls;
            let post = if s.outcome == Outcome::Panic { None } else { Some(c) };
            steps.push((cmd.clone(), s.outcome, s.frames, s.total_len, post, s.findings));
        }
        out = Some(Expansion {
            deep,
            alphabet: cmds.len(),
            steps,
            index_calls,
        });
    });
    out.expect("object constructor did not call back")
}

/// BFS over one (object, start configuration); all sequences of up to `depth` commands.
pub fn bfs(with: fn(&mut dyn FnMut(&dyn savefile::Introspect)), start: Option<usize>, depth: usize) -> BfsReport {
    use rayon::prelude::*;
    let mut rep = BfsReport::default();
    let mut states: Vec<St> = vec![St {
        intro: make_introspector(start),
        parent: None,
    }];
    let mut seen: HashMap<String, usize> = HashMap::new();
    seen.insert(format!("{:?}", states[0].intro), 0);
    let mut frontier: Vec<usize> = vec![0];
    rep.states_per_level.push(1);
    for _level in 0..depth {
        if frontier.is_empty() {
            break;
        }
        let intros: Vec<(usize, Introspector)> = frontier.iter().map(|&i| (i, states[i].intro.clone())).collect();
        // states of one level are independent: expand them in parallel, merge in order
        let exps: Vec<(usize, Result<Expansion, String>)> = intros.par_iter().map(|(i, intro)| (*i, guarded(|| expand(with, intro)))).collect();
        let mut next = vec![];
        for (i, exp) in exps {
            let exp = match exp {
                Ok(e) => e,
                Err(p) => vcommon::machinery_error(&format!("navigation harness panicked outside the implementation: {}", p)),
            };
            rep.states_expanded += 1;
            if exp.deep {
                rep.states_deep += 1;
            }
            rep.max_alphabet = rep.max_alphabet.max(exp.alphabet);
            rep.index_calls += exp.index_calls;
            for (cmd, outcome, frames, total_len, post, findings) in exp.steps {
                rep.transitions += 1;
                *rep.outcomes.entry(outcome.clone()).or_insert(0) += 1;
                *rep.outcome_by_cmd.entry(format!("{}:{:?}", cmd.kind(), outcome)).or_insert(0) += 1;
                rep.max_frames = rep.max_frames.max(frames);
                rep.max_total_len = rep.max_total_len.max(total_len);
                if !findings.is_empty() {
                    let mut h = history(&states, i);
                    h.push(cmd.clone());
                    for f in findings {
                        rep.findings.push(NavFinding {
                            oracle: f.oracle,
                            detail: f.detail,
                            start,
                            commands: h.clone(),
                        });
                    }
                }
                let Some(post) = post else { continue };
                rep.max_path = rep.max_path.max(post.num_frames());
                let key = format!("{:?}", post);
                if seen.contains_key(&key) {
                    rep.merged += 1;
                    continue;
                }
                let idx = states.len();
                seen.insert(key, idx);
                states.push(St {
                    intro: post,
                    parent: Some((i, cmd)),
                });
                next.push(idx);
            }
        }
        rep.states_per_level.push(next.len());
        frontier = next;
    }
    rep.states = states.len();
    // sample: the history of the last discovered state
    let last = states.len() - 1;
    rep.sample = Some(json!({
        "start": start_name(start),
        "commands": history(&states, last).iter().map(|c| c.to_json()).collect::<Vec<_>>(),
        "introspector_after": format!("{:?}", states[last].intro),
    }));
    rep
}

/// Replay of one command list: every step is judged by the same oracle.
pub fn replay(with: fn(&mut dyn FnMut(&dyn savefile::Introspect)), start: Option<usize>, cmds: &[Cmd]) -> usize {
    let mut failures = 0;
    with(&mut |obj| {
        let mut intro = make_introspector(start);
        println!("replay: Introspector::{}", start_name(start));
        for (n, c) in cmds.iter().enumerate() {
            let s = step(&mut intro, obj, c);
            println!(
                "  step {}: {} -> {:?} frames={} total_len={} introspector={:?}",
                n,
                c.to_json(),
                s.outcome,
                s.frames,
                s.total_len,
                intro
            );
            for f in &s.findings {
                println!("REPLAY-FAIL oracle={} {}", f.oracle, f.detail);
                failures += 1;
            }
            if s.outcome == Outcome::Panic {
                break;
            }
        }
    });
    failures
}
