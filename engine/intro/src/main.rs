//! vintro: engine for C17 (stub)
fn main() {
    vcommon::machinery_error("vintro not implemented yet");
}
