//! vintro: engine for property C17 — "Introspection is self-consistent and navigation never
//! panics".
//!
//! Two bounded exhaustive explorations on the real `savefile::Introspect` implementations
//! (library types, `#[derive(Savefile)]` output) and the real `savefile::Introspector`:
//!   (a) walk.rs  — every node (depth <= 4) of the introspection tree of every enumerated value
//!                  of every family type, plus hand-written objects;
//!   (b) nav.rs   — breadth-first search over all `Introspector` command sequences up to a depth
//!                  on the hand-written objects, from `new()` and `new_with(0..=3)`.
mod nav;
mod objects;
mod reg;
mod typing;
mod valjson;
mod walk;

use rayon::prelude::*;
use std::collections::{BTreeMap, BTreeSet};
use typing::TN;
use vcommon::serde_json::{json, Map, Value};
use vcommon::{guarded, machinery_error, parse_args, tags, Run, Tier, Violation};

const STRUCT_DEPTH: usize = 4;

#[derive(Default)]
struct StructTotals {
    roots: u64,
    types: u64,
    nodes: u64,
    nodes_with_children: u64,
    nodes_consistent: u64,
    transitions: u64,
    max_children: usize,
    max_depth_seen: usize,
    depth_cut_nodes: u64,
    by_kind: BTreeMap<String, (u64, u64)>,
    findings_by_oracle: BTreeMap<String, u64>,
    samples: Vec<Value>,
}
impl StructTotals {
    fn add(&mut self, r: &walk::WalkReport) {
        self.roots += 1;
        self.nodes += r.nodes as u64;
        self.nodes_with_children += r.nodes_with_children as u64;
        self.nodes_consistent += r.nodes_consistent;
        self.transitions += r.transitions;
        self.max_children = self.max_children.max(r.max_children);
        self.max_depth_seen = self.max_depth_seen.max(r.max_depth_seen);
        self.depth_cut_nodes += r.depth_cut_nodes;
        for (k, v) in &r.by_kind {
            let e = self.by_kind.entry(k.clone()).or_insert((0, 0));
            e.0 += v.0;
            e.1 += v.1;
        }
        for f in &r.findings {
            *self.findings_by_oracle.entry(f.oracle.to_string()).or_insert(0) += 1;
        }
    }
}

fn struct_violation(f: &walk::RawFinding, source: &str, what: &str, mut case: Value) -> Violation {
    case["path"] = json!(f.path);
    Violation {
        oracle: f.oracle.to_string(),
        tags: tags(&[
            ("exploration", "structural".to_string()),
            ("node_type", f.node_type.clone()),
            ("relation", f.relation.clone()),
            ("wrappers", f.wrappers.join(",")),
            ("source", source.to_string()),
        ]),
        summary: format!("{} node at path {:?} of {}: {}", f.node_type, f.path, what, f.detail),
        case,
    }
}

struct EntryOut {
    reports: Vec<walk::WalkReport>,
    violations: Vec<Violation>,
    values: usize,
    sample: Value,
}

fn sweep_entry(e: &reg::Entry, cap: usize) -> EntryOut {
    let mut vals = vmodel::values::values(&e.ty, cap);
    let mut seen = BTreeSet::new();
    vals.retain(|v| seen.insert(v.clone()));
    let mut out = EntryOut {
        reports: vec![],
        violations: vec![],
        values: vals.len(),
        sample: Value::Null,
    };
    let rust = e.ty.rust();
    for (vi, v) in vals.iter().enumerate() {
        let mut rep = None;
        e.ops.with_introspect(v, &mut |obj| rep = Some(walk::walk_root(obj, TN::Known(&e.ty, Some(v)), STRUCT_DEPTH)));
        let rep = rep.unwrap_or_else(|| machinery_error("with_introspect did not call back"));
        if let Some(c) = &rep.cap_hit {
            machinery_error(&format!("child cap hit on {} value {}: {}", e.id(), v.short(), c));
        }
        for f in &rep.findings {
            let case = json!({"kind": "struct_family", "family": e.family, "index": e.idx, "rust_type": rust, "type": e.ty.describe(),
                "type_features": e.ty.feature_string(), "value": valjson::to_json(v)});
            out.violations.push(struct_violation(f, &format!("family:{}", e.family), &format!("{} = {}", rust, v.short()), case));
        }
        if vi == vals.len() / 2 {
            out.sample = json!({"exploration": "structural", "family": e.family, "index": e.idx, "rust_type": rust, "type": e.ty.describe(),
                "value": valjson::to_json(v), "nodes": rep.nodes, "nodes_with_children": rep.nodes_with_children, "max_children": rep.max_children});
        }
        out.reports.push(rep);
    }
    out
}

fn structural(run: &mut Run, thorough: bool) -> StructTotals {
    let mut tot = StructTotals::default();
    let entries = reg::all(thorough);
    let ids: BTreeSet<String> = entries.iter().map(|e| e.id()).collect();
    if ids.len() != entries.len() {
        machinery_error("family entries are not distinct");
    }
    let cap = if thorough { 256 } else { 64 };
    let outs: Vec<Result<EntryOut, String>> = entries.par_iter().map(|e| guarded(|| sweep_entry(e, cap))).collect();
    let n = outs.len();
    for (pos, (e, o)) in entries.iter().zip(outs).enumerate() {
        let o = match o {
            Ok(o) => o,
            Err(p) => machinery_error(&format!("harness panic while sweeping {} ({}): {}", e.id(), e.ty.rust(), p)),
        };
        tot.types += 1;
        run.count("struct_values", o.values as u64);
        for r in &o.reports {
            tot.add(r);
        }
        for v in o.violations {
            run.violation(v);
        }
        if n > 0 && (pos == 0 || pos == n / 3 || pos == 2 * n / 3 || pos == n - 1) && !o.sample.is_null() {
            tot.samples.push(o.sample);
        }
    }
    // hand-written objects
    let objs = objects::objects();
    let ids: BTreeSet<&str> = objs.iter().map(|o| o.id).collect();
    if ids.len() != objs.len() {
        machinery_error("object ids are not distinct");
    }
    let reps: Vec<Result<walk::WalkReport, String>> = objs
        .par_iter()
        .map(|o| {
            guarded(|| {
                let ty = (o.ty)();
                let mut rep = None;
                (o.with)(&mut |obj| {
                    let tn = match &ty {
                        Some(t) => TN::Known(t, None),
                        None => TN::Unknown,
                    };
                    rep = Some(walk::walk_root(obj, tn, STRUCT_DEPTH))
                });
                rep.expect("object constructor did not call back")
            })
        })
        .collect();
    for (o, rep) in objs.iter().zip(reps) {
        let rep = match rep {
            Ok(r) => r,
            Err(p) => machinery_error(&format!("harness panic while walking object {}: {}", o.id, p)),
        };
        if let Some(c) = &rep.cap_hit {
            machinery_error(&format!("child cap hit on object {}: {}", o.id, c));
        }
        run.count("struct_objects", 1);
        tot.add(&rep);
        for f in &rep.findings {
            let case = json!({"kind": "struct_object", "object": o.id, "description": o.desc});
            run.violation(struct_violation(f, "object", &format!("object {} ({})", o.id, o.desc), case));
        }
        if o.id == "with_maps" || o.id == "vec_10001" {
            tot.samples.push(json!({"exploration": "structural", "object": o.id, "description": o.desc, "nodes": rep.nodes,
                "nodes_with_children": rep.nodes_with_children, "max_children": rep.max_children, "findings": rep.findings.len()}));
        }
    }
    tot
}

#[derive(Default)]
struct NavTotals {
    objects: u64,
    searches: u64,
    states: u64,
    states_expanded: u64,
    states_deep: u64,
    transitions: u64,
    index_calls: u64,
    merged: u64,
    outcomes: BTreeMap<String, u64>,
    outcome_by_cmd: BTreeMap<String, u64>,
    max_frames: usize,
    max_total_len: usize,
    max_path: usize,
    max_alphabet: usize,
    levels: Vec<u64>,
    depth_completed: usize,
    findings_by_oracle: BTreeMap<String, u64>,
    samples: Vec<Value>,
}

fn nav_violation(object: &str, desc: &str, f: &nav::NavFinding) -> Violation {
    let last = f.commands.last().map(|c| c.kind()).unwrap_or("none");
    Violation {
        oracle: f.oracle.to_string(),
        tags: tags(&[
            ("exploration", "navigation".to_string()),
            ("object", object.to_string()),
            ("start", nav::start_name(f.start)),
            ("last_command", last.to_string()),
        ]),
        summary: format!(
            "object {} ({}), Introspector::{}, commands {}: {}",
            object,
            desc,
            nav::start_name(f.start),
            Value::Array(f.commands.iter().map(|c| c.to_json()).collect()),
            f.detail
        ),
        case: json!({"kind": "nav", "object": object, "start": f.start, "commands": f.commands.iter().map(|c| c.to_json()).collect::<Vec<_>>()}),
    }
}

fn navigation(run: &mut Run, depth: usize) -> NavTotals {
    let mut tot = NavTotals::default();
    let objs: Vec<objects::ObjDef> = objects::objects().into_iter().filter(|o| o.nav).collect();
    tot.objects = objs.len() as u64;
    let jobs: Vec<(usize, Option<usize>)> = (0..objs.len()).flat_map(|i| nav::STARTS.iter().map(move |s| (i, *s))).collect();
    let reps: Vec<nav::BfsReport> = jobs.par_iter().map(|(i, s)| nav::bfs(objs[*i].with, *s, depth)).collect();
    tot.depth_completed = depth;
    for ((i, start), rep) in jobs.iter().zip(reps) {
        let o = &objs[*i];
        tot.searches += 1;
        tot.states += rep.states as u64;
        tot.states_expanded += rep.states_expanded as u64;
        tot.states_deep += rep.states_deep as u64;
        tot.transitions += rep.transitions;
        tot.index_calls += rep.index_calls;
        tot.merged += rep.merged;
        tot.max_frames = tot.max_frames.max(rep.max_frames);
        tot.max_total_len = tot.max_total_len.max(rep.max_total_len);
        tot.max_path = tot.max_path.max(rep.max_path);
        tot.max_alphabet = tot.max_alphabet.max(rep.max_alphabet);
        for (l, n) in rep.states_per_level.iter().enumerate() {
            if tot.levels.len() <= l {
                tot.levels.resize(l + 1, 0);
            }
            tot.levels[l] += *n as u64;
        }
        for (k, v) in &rep.outcomes {
            let name = match k {
                nav::Outcome::Ok => "Ok".to_string(),
                nav::Outcome::Err(e) => format!("Err({})", e),
                nav::Outcome::Panic => "panic".to_string(),
            };
            *tot.outcomes.entry(name).or_insert(0) += v;
        }
        for (k, v) in &rep.outcome_by_cmd {
            *tot.outcome_by_cmd.entry(k.clone()).or_insert(0) += v;
        }
        for f in &rep.findings {
            *tot.findings_by_oracle.entry(f.oracle.to_string()).or_insert(0) += 1;
            run.violation(nav_violation(o.id, o.desc, f));
        }
        if (o.id == "top3" && start.is_none()) || (o.id == "dup_keys" && *start == Some(2)) || (o.id == "with_maps" && *start == Some(1)) {
            if let Some(mut s) = rep.sample.clone() {
                s["exploration"] = json!("navigation");
                s["object"] = json!(o.id);
                s["states"] = json!(rep.states);
                s["transitions"] = json!(rep.transitions);
                tot.samples.push(s);
            }
        }
    }
    tot
}

fn main() {
    vcommon::quiet_panics();
    let args = parse_args();
    if args.property != "C17" {
        machinery_error(&format!("vintro does not serve property {}", args.property));
    }
    let mut run = Run::new(&args, "model_checking");
    if let Some(path) = &args.replay {
        replay(path);
    }
    let thorough = run.tier == Tier::Thorough;
    // wall-clock cap: a hang (e.g. a lock taken twice) is a machinery exit, never a verdict
    let limit = std::time::Duration::from_secs(if thorough { 3600 } else { 600 });
    std::thread::spawn(move || {
        std::thread::sleep(limit);
        machinery_error("wall-clock cap reached (possible dead-lock inside an Introspect impl or the harness)");
    });

    let st = structural(&mut run, thorough);
    let nav_depth = if thorough { 5 } else { 3 };
    let nv = navigation(&mut run, nav_depth);

    let mut cov = Map::new();
    cov.insert("states".into(), json!(st.nodes + nv.states));
    cov.insert("transitions".into(), json!(st.transitions + nv.transitions));
    cov.insert("traces_validated_against_impl".into(), json!(st.nodes + nv.states_expanded));
    cov.insert("evaluations".into(), json!(st.nodes + nv.transitions));
    cov.insert("distinct_nontrivial".into(), json!(st.nodes_with_children + nv.states_deep));
    cov.insert(
        "rule".into(),
        json!(format!(
            "(a) structural: a state is a distinct (root object, path of child indices) node of an introspection tree, roots = every deduplicated \
             boundary value of every type of the families types+lib{} plus {} hand-written objects, nodes down to depth {}; non-trivial = the node \
             serves at least one child. (b) navigation: a state is a distinct (object, Debug form of the Introspector) reached by breadth-first \
             search over command sequences of length <= {} from Introspector::new() and new_with(0..=3); the alphabet of a state is derived from \
             the result of `Nothing` in that state (ExpandElement depth {{0..=D+1, usize::MAX}} x observed keys+\"?\" x disambiguator {{0,1,2,usize::MAX}}, SelectNth depth \
             {{0..=D+1, usize::MAX}} x index {{0..=W+1, usize::MAX}} (boundary representatives for frames wider than 6), Up, Nothing); non-trivial = an expanded state whose \
             result has at least 2 frames. distinct_nontrivial = nodes with children + such states.",
            if thorough { "+types_thorough" } else { "" },
            run.get("struct_objects"),
            STRUCT_DEPTH,
            nav_depth
        )),
    );
    // vacuity exposure
    let mut outcomes: BTreeMap<String, u64> = BTreeMap::new();
    outcomes.insert("struct:consistent_node".into(), st.nodes_consistent);
    for (k, v) in &st.findings_by_oracle {
        outcomes.insert(format!("struct:{}", k), *v);
    }
    for (k, v) in &nv.outcomes {
        outcomes.insert(format!("nav:{}", k), *v);
    }
    for (k, v) in &nv.findings_by_oracle {
        outcomes.insert(format!("nav:{}", k), *v);
    }
    cov.insert("distinct_outcomes".into(), json!(outcomes.values().filter(|v| **v > 0).count()));
    cov.insert("outcomes".into(), json!(outcomes));
    cov.insert("struct_types".into(), json!(st.types));
    cov.insert("struct_roots".into(), json!(st.roots));
    cov.insert("struct_nodes".into(), json!(st.nodes));
    cov.insert("struct_nodes_with_children".into(), json!(st.nodes_with_children));
    cov.insert("struct_transitions".into(), json!(st.transitions));
    cov.insert("struct_depth_bound".into(), json!(STRUCT_DEPTH));
    cov.insert("struct_max_depth_seen".into(), json!(st.max_depth_seen));
    cov.insert("struct_children_below_depth_bound_not_visited".into(), json!(st.depth_cut_nodes));
    cov.insert("struct_max_children".into(), json!(st.max_children));
    cov.insert("struct_child_cap".into(), json!(walk::CHILD_CAP));
    cov.insert(
        "struct_nodes_by_kind".into(),
        json!(st.by_kind.iter().map(|(k, v)| (k.clone(), json!({"nodes": v.0, "with_children": v.1}))).collect::<Map<String, Value>>()),
    );
    cov.insert("nav_objects".into(), json!(nv.objects));
    cov.insert("nav_searches".into(), json!(nv.searches));
    cov.insert("nav_states".into(), json!(nv.states));
    cov.insert("nav_states_expanded".into(), json!(nv.states_expanded));
    cov.insert("nav_states_with_2plus_frames".into(), json!(nv.states_deep));
    cov.insert("nav_states_per_level".into(), json!(nv.levels));
    cov.insert("nav_transitions".into(), json!(nv.transitions));
    cov.insert("nav_transitions_merged_into_known_state".into(), json!(nv.merged));
    cov.insert("nav_total_index_calls".into(), json!(nv.index_calls));
    cov.insert("nav_bfs_depth_completed".into(), json!(nv.depth_completed));
    cov.insert("nav_max_frames".into(), json!(nv.max_frames));
    cov.insert("nav_max_total_len".into(), json!(nv.max_total_len));
    cov.insert("nav_max_path_len".into(), json!(nv.max_path));
    cov.insert("nav_max_alphabet".into(), json!(nv.max_alphabet));
    cov.insert("nav_outcome_by_command".into(), json!(nv.outcome_by_cmd));
    let mut samples = st.samples.clone();
    samples.extend(nv.samples.clone());
    cov.insert("samples".into(), Value::Array(samples));
    cov.insert("exhaustive".into(), json!(true));

    // sanity of the machinery itself: an exploration that saw nothing is not a verdict
    if st.nodes_with_children == 0 || nv.states_deep == 0 || nv.outcomes.len() < 3 {
        machinery_error("vacuous exploration (no node with children / no deep navigation state / fewer than 3 navigation outcomes)");
    }
    let assumptions = vec![
        "objects are immutable during a search and do_introspect is deterministic, so the Debug form of the Introspector (all of its fields) is a sound canonical state".to_string(),
        "value dimension = boundary lists and bounded products of engine/model (cap 64 quick / 256 thorough per type); structure below depth 4 is not visited".to_string(),
        "std HashMap/HashSet of the generated family types use RandomState: which entry is child i varies between runs, the verdict (counts per node) does not; hand-written objects use a fixed hasher".to_string(),
        "built on a stable compiler: the cfg(feature=\"nightly\") specialisations of the map impls are not compiled and not checked".to_string(),
    ];
    run.finish(cov, assumptions)
}

fn replay(path: &std::path::Path) -> ! {
    let text = std::fs::read_to_string(path).unwrap_or_else(|e| machinery_error(&format!("replay file: {}", e)));
    let doc: Value = vcommon::serde_json::from_str(&text).unwrap_or_else(|e| machinery_error(&format!("replay json: {}", e)));
    let case = &doc["case"];
    let path_of = |case: &Value| -> Vec<usize> { case["path"].as_array().map(|a| a.iter().filter_map(|x| x.as_u64().map(|x| x as usize)).collect()).unwrap_or_default() };
    let mut failures = 0usize;
    let mut report = |rep: walk::WalkReport| {
        println!("replay: node checked, {} consecutive children at most, {} finding(s)", rep.max_children, rep.findings.len());
        for f in &rep.findings {
            println!("REPLAY-FAIL oracle={} node_type={} relation={} {}", f.oracle, f.node_type, f.relation, f.detail);
            failures += 1;
        }
    };
    match case["kind"].as_str() {
        Some("struct_family") => {
            let fam = case["family"].as_str().unwrap_or("");
            let rust = case["rust_type"].as_str().unwrap_or("");
            let entries = reg::family(fam);
            let Some(e) = entries.iter().find(|e| e.ty.rust() == rust) else {
                machinery_error(&format!("replay: type {} not in family {} (thorough-only families need --tier thorough)", rust, fam));
            };
            let v = valjson::from_json(&case["value"]);
            let p = path_of(case);
            println!("replay: {} = {} node path {:?}", rust, v.short(), p);
            e.ops.with_introspect(&v, &mut |obj| walk::check_at_path(obj, TN::Known(&e.ty, Some(&v)), &p, 0, &mut report));
        }
        Some("struct_object") => {
            let id = case["object"].as_str().unwrap_or("");
            let objs = objects::objects();
            let Some(o) = objs.iter().find(|o| o.id == id) else {
                machinery_error(&format!("replay: unknown object {}", id));
            };
            let p = path_of(case);
            println!("replay: object {} ({}) node path {:?}", o.id, o.desc, p);
            let ty = (o.ty)();
            (o.with)(&mut |obj| {
                let tn = match &ty {
                    Some(t) => TN::Known(t, None),
                    None => TN::Unknown,
                };
                walk::check_at_path(obj, tn, &p, 0, &mut report)
            });
        }
        Some("nav") => {
            let id = case["object"].as_str().unwrap_or("");
            let objs = objects::objects();
            let Some(o) = objs.iter().find(|o| o.id == id) else {
                machinery_error(&format!("replay: unknown object {}", id));
            };
            let start = case["start"].as_u64().map(|k| k as usize);
            let cmds: Vec<nav::Cmd> = case["commands"]
                .as_array()
                .map(|a| a.iter().map(|c| nav::Cmd::from_json(c).unwrap_or_else(|| machinery_error(&format!("replay: bad command {}", c)))).collect())
                .unwrap_or_default();
            println!("replay: object {} ({})", o.id, o.desc);
            failures += nav::replay(o.with, start, &cmds);
        }
        k => machinery_error(&format!("replay: unknown case kind {:?}", k)),
    }
    println!("replay: {} violation(s) reproduced", failures);
    std::process::exit(if failures > 0 { 1 } else { 0 })
}
