//! Exploration (a): structural self-consistency of one introspection tree.
//!
//! For every node down to `max_depth` (root = depth 0):
//!   * `introspect_len()` is compared with the number of consecutive `Some` answers of
//!     `introspect_child(0), (1), …` (oracle `len_vs_children`);
//!   * the indices behind the first `None` (n+1..=n+3, reported len..len+3 when that is larger,
//!     usize::MAX) must be `None` (oracle `children_not_consecutive`);
//!   * every child is fetched a second time and its `key()`, `val()` and
//!     `val().introspect_value()` are called; a child that has disappeared is `unstable_children`;
//!   * any panic in any of these calls is `introspect_panic`.
//! A held child item (it may own a lock guard) is never kept alive while its parent is asked for
//! another child: the walker would otherwise dead-lock on `Mutex` nodes by its own fault.
use crate::typing::{self, TN};
use savefile::Introspect;
use std::collections::{BTreeMap, HashSet};
use vcommon::guarded;

/// give up (machinery error) when a node serves more consecutive children than this
pub const CHILD_CAP: usize = 40_000;

#[derive(Clone, Debug)]
pub struct RawFinding {
    pub oracle: &'static str,
    pub path: Vec<usize>,
    pub node_type: String,
    pub wrappers: Vec<&'static str>,
    pub relation: String,
    pub detail: String,
}

#[derive(Default)]
pub struct WalkReport {
    /// distinct node paths visited (measured with a hash set)
    pub nodes: usize,
    pub nodes_with_children: usize,
    pub nodes_consistent: u64,
    pub transitions: u64,
    pub max_children: usize,
    pub max_depth_seen: usize,
    pub depth_cut_nodes: u64,
    pub by_kind: BTreeMap<String, (u64, u64)>,
    pub findings: Vec<RawFinding>,
    pub cap_hit: Option<String>,
}

pub struct Walker {
    pub max_depth: usize,
    pub rep: WalkReport,
    seen: HashSet<Vec<usize>>,
}

impl Walker {
    pub fn new(max_depth: usize) -> Walker {
        Walker {
            max_depth,
            rep: WalkReport::default(),
            seen: HashSet::new(),
        }
    }
    pub fn finish(mut self) -> WalkReport {
        self.rep.nodes = self.seen.len();
        self.rep
    }

    fn finding(&mut self, oracle: &'static str, path: &[usize], r: &typing::Resolved, relation: &str, detail: String) {
        self.rep.findings.push(RawFinding {
            oracle,
            path: path.to_vec(),
            node_type: r.kind.clone(),
            wrappers: r.wrappers.clone(),
            relation: relation.to_string(),
            detail,
        });
    }

    /// Checks the node `obj` (at `path`) and, when `recurse`, its subtree.
    pub fn node(&mut self, obj: &dyn Introspect, tn: TN, path: &mut Vec<usize>, recurse: bool) {
        let depth = path.len();
        self.seen.insert(path.clone());
        self.rep.max_depth_seen = self.rep.max_depth_seen.max(depth);
        let r = typing::resolve(tn);
        let mut bad = false;

        // reported length
        self.rep.transitions += 1;
        let len = match guarded(|| obj.introspect_len()) {
            Ok(l) => Some(l),
            Err(p) => {
                self.finding("introspect_panic", path, &r, "introspect_len", format!("introspect_len() panicked: {}", p));
                bad = true;
                None
            }
        };
        // consecutive children from 0
        let mut n = 0usize;
        loop {
            self.rep.transitions += 1;
            match guarded(|| obj.introspect_child(n).is_some()) {
                Ok(true) => n += 1,
                Ok(false) => break,
                Err(p) => {
                    self.finding("introspect_panic", path, &r, "introspect_child", format!("introspect_child({}) panicked: {}", n, p));
                    bad = true;
                    break;
                }
            }
            if n >= CHILD_CAP {
                self.rep.cap_hit = Some(format!("node at path {:?} serves at least {} consecutive children", path, n));
                return;
            }
        }
        if let Some(len) = len {
            if len != n {
                let relation = if len > 0 && n == 2 * len {
                    "children_eq_2x_len"
                } else if len == savefile::MAX_CHILDREN && n > len {
                    "len_capped_at_max_children"
                } else if len < n {
                    "len_lt_children"
                } else {
                    "len_gt_children"
                };
                self.finding(
                    "len_vs_children",
                    path,
                    &r,
                    relation,
                    format!("introspect_len() = {} but introspect_child(i) is Some for exactly i in 0..{}", len, n),
                );
                bad = true;
            }
        }
        // nothing behind the first gap
        let mut probes: Vec<usize> = (1..=3).filter_map(|d| n.checked_add(d)).collect();
        if let Some(len) = len {
            if len > n {
                probes.extend((0..=3).filter_map(|d| len.checked_add(d)));
            }
        }
        probes.push(usize::MAX);
        probes.push(usize::MAX / 2 + 1);
        probes.sort();
        probes.dedup();
        for j in probes {
            if j <= n {
                continue;
            }
            self.rep.transitions += 1;
            match guarded(|| obj.introspect_child(j).is_some()) {
                Ok(false) => {}
                Ok(true) => {
                    self.finding(
                        "children_not_consecutive",
                        path,
                        &r,
                        "child_behind_gap",
                        format!("introspect_child({}) is None but introspect_child({}) is Some", n, j),
                    );
                    bad = true;
                }
                Err(p) => {
                    self.finding("introspect_panic", path, &r, "introspect_child", format!("introspect_child({}) panicked: {}", j, p));
                    bad = true;
                }
            }
        }
        // statistics per kind (all primitives / all opaque library types pooled)
        let pooled = r.kind.split(':').next().unwrap_or("").to_string();
        let e = self.rep.by_kind.entry(pooled).or_insert((0, 0));
        e.0 += 1;
        if n > 0 {
            e.1 += 1;
            self.rep.nodes_with_children += 1;
        }
        self.rep.max_children = self.rep.max_children.max(n);

        // children: key / val / value, then the subtree
        for i in 0..n {
            self.rep.transitions += 1;
            let item = match guarded(|| obj.introspect_child(i)) {
                Ok(Some(item)) => item,
                Ok(None) => {
                    self.finding(
                        "unstable_children",
                        path,
                        &r,
                        "child_vanished",
                        format!("introspect_child({}) was Some while counting and is None when fetched again", i),
                    );
                    bad = true;
                    continue;
                }
                Err(p) => {
                    self.finding("introspect_panic", path, &r, "introspect_child", format!("introspect_child({}) panicked on the second fetch: {}", i, p));
                    bad = true;
                    continue;
                }
            };
            if let Err(p) = guarded(|| item.key().len()) {
                self.finding("introspect_panic", path, &r, "key", format!("child {}: key() panicked: {}", i, p));
                bad = true;
            }
            let val = match guarded(|| item.val()) {
                Ok(v) => v,
                Err(p) => {
                    self.finding("introspect_panic", path, &r, "val", format!("child {}: val() panicked: {}", i, p));
                    bad = true;
                    continue;
                }
            };
            if let Err(p) = guarded(|| val.introspect_value().len()) {
                self.finding("introspect_panic", path, &r, "introspect_value", format!("child {}: val().introspect_value() panicked: {}", i, p));
                bad = true;
            }
            if recurse {
                let ctn = typing::child(r.inner, i);
                path.push(i);
                let deeper = path.len() < self.max_depth;
                self.node(val, ctn, path, deeper);
                path.pop();
            } else {
                self.rep.depth_cut_nodes += 1;
            }
        }
        if !bad {
            self.rep.nodes_consistent += 1;
        }
    }
}

/// Walk a whole object: nodes at depth 0..=max_depth are checked.
pub fn walk_root(obj: &dyn Introspect, tn: TN, max_depth: usize) -> WalkReport {
    let mut w = Walker::new(max_depth);
    let mut path = vec![];
    // the root's own value string
    if let Err(p) = guarded(|| obj.introspect_value().len()) {
        let r = typing::resolve(tn);
        w.finding("introspect_panic", &[], &r, "introspect_value", format!("root introspect_value() panicked: {}", p));
    }
    w.node(obj, tn, &mut path, max_depth > 0);
    w.finish()
}

/// Replay helper: follow `path` from `obj` and check exactly that node (no recursion).
pub fn check_at_path(obj: &dyn Introspect, tn: TN, path: &[usize], pos: usize, out: &mut dyn FnMut(WalkReport)) {
    if pos == path.len() {
        let mut w = Walker::new(0);
        let mut p = path.to_vec();
        w.node(obj, tn, &mut p, false);
        out(w.finish());
        return;
    }
    let r = typing::resolve(tn);
    match guarded(|| obj.introspect_child(path[pos])) {
        Ok(Some(item)) => {
            let ctn = typing::child(r.inner, path[pos]);
            check_at_path(item.val(), ctn, path, pos + 1, out)
        }
        Ok(None) => println!("replay: path {:?} no longer exists at position {}", path, pos),
        Err(p) => println!("replay: introspect_child({}) panicked while following the path: {}", path[pos], p),
    }
}
