//! Tolerant typing of introspection nodes: follows the model's `Ty` (and, where the order of
//! children is determined by the value, its `Val`) along a path of child indices. The result is
//! used ONLY to label nodes (known-findings tags, per-kind statistics); it never decides a
//! verdict. Whenever the model cannot follow, the node is labelled "unknown".
use vmodel::{DefKind, MapKind, RemovedKind, SeqKind, Ty, Val, WrapKind};

#[derive(Clone, Copy)]
pub enum TN<'a> {
    Known(&'a Ty, Option<&'a Val>),
    Removed,
    Unknown,
}

pub struct Resolved<'a> {
    /// kind of the type that actually serves the children (transparent wrappers stripped)
    pub kind: String,
    /// the transparent wrappers that were stripped, outermost first
    pub wrappers: Vec<&'static str>,
    /// node to descend through
    pub inner: TN<'a>,
}

fn seq_name(k: SeqKind) -> &'static str {
    match k {
        SeqKind::Vec => "Vec",
        SeqKind::VecDeque => "VecDeque",
        SeqKind::BoxSlice => "BoxSlice",
        SeqKind::ArcSlice => "ArcSlice",
        SeqKind::HashSet => "HashSet",
        SeqKind::BTreeSet => "BTreeSet",
        SeqKind::BinaryHeap => "BinaryHeap",
        SeqKind::ArrayVec(_) => "ArrayVec",
        SeqKind::SmallVec(_) => "SmallVec",
        SeqKind::IndexSet => "IndexSet",
    }
}
fn map_name(k: MapKind) -> &'static str {
    match k {
        MapKind::HashMap => "HashMap",
        MapKind::BTreeMap => "BTreeMap",
        MapKind::IndexMap => "IndexMap",
    }
}

pub fn resolve<'a>(mut t: TN<'a>) -> Resolved<'a> {
    let mut wrappers = vec![];
    loop {
        let (ty, v) = match t {
            TN::Known(ty, v) => (ty, v),
            TN::Removed => return Resolved { kind: "Removed".into(), wrappers, inner: TN::Unknown },
            TN::Unknown => return Resolved { kind: "unknown".into(), wrappers, inner: TN::Unknown },
        };
        match ty {
            Ty::Opt(inner) => {
                wrappers.push("Option");
                match v {
                    Some(Val::Some(x)) => t = TN::Known(inner, Some(x)),
                    Some(Val::None) => return Resolved { kind: "OptionNone".into(), wrappers, inner: TN::Unknown },
                    _ => t = TN::Known(inner, None),
                }
            }
            Ty::Res(a, b) => {
                wrappers.push("Result");
                match v {
                    Some(Val::Ok(x)) => t = TN::Known(a, Some(x)),
                    Some(Val::Err(x)) => t = TN::Known(b, Some(x)),
                    _ => return Resolved { kind: "Result".into(), wrappers, inner: TN::Unknown },
                }
            }
            Ty::Wrap(k, inner) => match k {
                WrapKind::Box | WrapKind::Rc | WrapKind::Arc | WrapKind::Cow => {
                    wrappers.push(match k {
                        WrapKind::Box => "Box",
                        WrapKind::Rc => "Rc",
                        WrapKind::Arc => "Arc",
                        _ => "Cow",
                    });
                    t = TN::Known(inner, v);
                }
                WrapKind::RefCell => return Resolved { kind: "RefCell".into(), wrappers, inner: t },
                WrapKind::Mutex => return Resolved { kind: "Mutex".into(), wrappers, inner: t },
                WrapKind::RwLock => return Resolved { kind: "RwLock".into(), wrappers, inner: t },
                WrapKind::PlMutex => return Resolved { kind: "PlMutex".into(), wrappers, inner: t },
                WrapKind::Cell => return Resolved { kind: "Cell".into(), wrappers, inner: TN::Unknown },
            },
            Ty::Prim(p) => return Resolved { kind: format!("Prim:{}", p.rust()), wrappers, inner: TN::Unknown },
            Ty::Seq(k, _) => return Resolved { kind: seq_name(*k).into(), wrappers, inner: t },
            Ty::Map(k, _, _) => return Resolved { kind: map_name(*k).into(), wrappers, inner: t },
            Ty::Array(_, _) => return Resolved { kind: "Array".into(), wrappers, inner: t },
            Ty::Tuple(_) => return Resolved { kind: "Tuple".into(), wrappers, inner: t },
            Ty::Lib(l) => return Resolved { kind: format!("Lib:{}", l.key), wrappers, inner: TN::Unknown },
            Ty::Def(d) => {
                return Resolved {
                    kind: match d.kind {
                        DefKind::Struct(_) => "Struct".into(),
                        DefKind::Enum(_) => "Enum".into(),
                    },
                    wrappers,
                    inner: t,
                }
            }
        }
    }
}

fn field_node<'a>(f: &'a vmodel::Field, v: Option<&'a Val>) -> TN<'a> {
    if f.removed != RemovedKind::No {
        TN::Removed
    } else {
        TN::Known(&f.ty, v)
    }
}

/// type of child `i` of a resolved (non-transparent) node
pub fn child<'a>(inner: TN<'a>, i: usize) -> TN<'a> {
    let TN::Known(ty, v) = inner else { return TN::Unknown };
    match ty {
        Ty::Seq(k, el) => {
            let ordered = matches!(
                k,
                SeqKind::Vec | SeqKind::VecDeque | SeqKind::BoxSlice | SeqKind::ArcSlice | SeqKind::ArrayVec(_) | SeqKind::SmallVec(_) | SeqKind::IndexSet
            );
            let cv = match (ordered, v) {
                (true, Some(Val::Seq(items))) => items.get(i),
                _ => None,
            };
            TN::Known(el, cv)
        }
        Ty::Map(k, kt, vt) => {
            let entry = match (k, v) {
                (MapKind::IndexMap, Some(Val::Map(items))) => items.get(i / 2),
                _ => None,
            };
            if i % 2 == 0 {
                TN::Known(kt, entry.map(|e| &e.0))
            } else {
                TN::Known(vt, entry.map(|e| &e.1))
            }
        }
        Ty::Array(el, _) => TN::Known(
            el,
            match v {
                Some(Val::Seq(items)) => items.get(i),
                _ => None,
            },
        ),
        Ty::Tuple(ts) => match ts.get(i) {
            Some(t) => TN::Known(
                t,
                match v {
                    Some(Val::Tuple(items)) => items.get(i),
                    _ => None,
                },
            ),
            None => TN::Unknown,
        },
        Ty::Wrap(WrapKind::RefCell | WrapKind::Mutex | WrapKind::RwLock | WrapKind::PlMutex, t) if i == 0 => TN::Known(t, v),
        Ty::Def(d) => match &d.kind {
            DefKind::Struct(s) => match s.fields.get(i) {
                Some(f) => field_node(
                    f,
                    match v {
                        Some(Val::Struct(items)) => items.get(i),
                        _ => None,
                    },
                ),
                None => TN::Unknown,
            },
            DefKind::Enum(e) => match v {
                Some(Val::Variant(vi, items)) => match e.variants.get(*vi as usize).and_then(|var| var.fields.get(i)) {
                    Some(f) => field_node(f, items.get(i)),
                    None => TN::Unknown,
                },
                _ => TN::Unknown,
            },
        },
        _ => TN::Unknown,
    }
}
