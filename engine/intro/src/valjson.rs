//! `Val` <-> JSON, for samples and replay files.
use vcommon::serde_json::{json, Value};
use vmodel::Val;

pub fn to_json(v: &Val) -> Value {
    match v {
        Val::U(x) => json!({"U": x.to_string()}),
        Val::I(x) => json!({"I": x.to_string()}),
        Val::F32(x) => json!({"F32": x}),
        Val::F64(x) => json!({"F64": x.to_string()}),
        Val::Bool(x) => json!({"Bool": x}),
        Val::Char(x) => json!({"Char": x}),
        Val::Str(x) => json!({"Str": x}),
        Val::Unit => json!("Unit"),
        Val::None => json!("None"),
        Val::Some(x) => json!({"Some": to_json(x)}),
        Val::Ok(x) => json!({"Ok": to_json(x)}),
        Val::Err(x) => json!({"Err": to_json(x)}),
        Val::Seq(x) => json!({"Seq": x.iter().map(to_json).collect::<Vec<_>>()}),
        Val::Tuple(x) => json!({"Tuple": x.iter().map(to_json).collect::<Vec<_>>()}),
        Val::Struct(x) => json!({"Struct": x.iter().map(to_json).collect::<Vec<_>>()}),
        Val::Variant(i, x) => json!({"Variant": [i, x.iter().map(to_json).collect::<Vec<_>>()]}),
        Val::Map(x) => json!({"Map": x.iter().map(|(k, v)| json!([to_json(k), to_json(v)])).collect::<Vec<_>>()}),
    }
}

pub fn from_json(j: &Value) -> Val {
    if let Some(s) = j.as_str() {
        return match s {
            "Unit" => Val::Unit,
            "None" => Val::None,
            _ => panic!("bad val json {}", j),
        };
    }
    let o = j.as_object().expect("val json object");
    let (k, v) = o.iter().next().expect("val json key");
    let list = |v: &Value| v.as_array().unwrap().iter().map(from_json).collect::<Vec<_>>();
    match k.as_str() {
        "U" => Val::U(v.as_str().unwrap().parse().unwrap()),
        "I" => Val::I(v.as_str().unwrap().parse().unwrap()),
        "F32" => Val::F32(v.as_u64().unwrap() as u32),
        "F64" => Val::F64(v.as_str().unwrap().parse().unwrap()),
        "Bool" => Val::Bool(v.as_bool().unwrap()),
        "Char" => Val::Char(v.as_u64().unwrap() as u32),
        "Str" => Val::Str(v.as_str().unwrap().to_string()),
        "Some" => Val::some(from_json(v)),
        "Ok" => Val::Ok(Box::new(from_json(v))),
        "Err" => Val::Err(Box::new(from_json(v))),
        "Seq" => Val::Seq(list(v)),
        "Tuple" => Val::Tuple(list(v)),
        "Struct" => Val::Struct(list(v)),
        "Variant" => Val::Variant(v[0].as_u64().unwrap() as u32, list(&v[1])),
        "Map" => Val::Map(v.as_array().unwrap().iter().map(|p| (from_json(&p[0]), from_json(&p[1]))).collect()),
        _ => panic!("bad val json {}", j),
    }
}
