//! Registry: joins the model's families (type descriptions) with the generated code (ops).
use vglue::ops::TypeOps;
use vmodel::{families, Ty};

pub struct Entry {
    pub family: &'static str,
    pub idx: usize,
    pub ty: Ty,
    pub ops: Box<dyn TypeOps>,
}
impl Entry {
    pub fn id(&self) -> String {
        format!("{}#{}", self.family, self.idx)
    }
}

macro_rules! shards {
    ($m:ident) => {{
        let mut v: Vec<(usize, Box<dyn TypeOps>)> = vec![];
        v.extend(shard00::$m::registry());
        v.extend(shard01::$m::registry());
        v.extend(shard02::$m::registry());
        v.extend(shard03::$m::registry());
        v.extend(shard04::$m::registry());
        v.extend(shard05::$m::registry());
        v.extend(shard06::$m::registry());
        v.extend(shard07::$m::registry());
        v.extend(shard08::$m::registry());
        v.extend(shard09::$m::registry());
        v.extend(shard10::$m::registry());
        v.extend(shard11::$m::registry());
        v.extend(shard12::$m::registry());
        v.extend(shard13::$m::registry());
        v.extend(shard14::$m::registry());
        v.extend(shard15::$m::registry());
        v.sort_by_key(|x| x.0);
        v
    }};
}

fn join(family: &'static str, ops: Vec<(usize, Box<dyn TypeOps>)>) -> Vec<Entry> {
    let tys = families::family(family);
    if tys.len() != ops.len() {
        vcommon::machinery_error(&format!(
            "generated code out of date for family {}: model has {} types, shards register {} (re-run vgen)",
            family,
            tys.len(),
            ops.len()
        ));
    }
    ops.into_iter()
        .map(|(idx, ops)| Entry {
            family,
            idx,
            ty: tys[idx].clone(),
            ops,
        })
        .collect()
}

pub fn family(name: &str) -> Vec<Entry> {
    match name {
        "types" => join("types", shards!(types)),
        "lib" => join("lib", shards!(lib)),
        "hist" => join("hist", shards!(hist)),
        #[cfg(feature = "thorough")]
        "types_thorough" => join("types_thorough", shards!(types_thorough)),
        #[cfg(feature = "thorough")]
        "hist_thorough" => join("hist_thorough", shards!(hist_thorough)),
        _ => vec![],
    }
}

/// all entries of the tier, F-types then F-lib
pub fn all(thorough: bool) -> Vec<Entry> {
    let mut v = family("types");
    v.extend(family("lib"));
    if thorough {
        let t = family("types_thorough");
        if t.is_empty() {
            vcommon::machinery_error("thorough tier requested but engine built without feature `thorough`");
        }
        v.extend(t);
    }
    v
}
