//! C03 (load older data in a newer program) and C18 (write an older version that the older
//! program reads): breadth-first over the history tree of schema-evolution edits.
use crate::reg::Entry;
use crate::sweep::{CountR, Driver, Finding, Stats};
use crate::valjson::to_json;
use std::collections::HashMap;
use vcommon::serde_json::{json, Value};
use vcommon::{hex, tags, Violation};
use vglue::ops::{Container, Ctx, OpErr};
use vmodel::hist::{downgrade_step, path_to, upgrade_step, Edit, HistNode};
use vmodel::wire::{decode, encode};
use vmodel::*;

pub struct Hist<'a> {
    pub nodes: Vec<HistNode>,
    pub by_name: HashMap<String, &'a Entry>,
}
impl<'a> Hist<'a> {
    pub fn new(thorough: bool, entries: &'a [Entry]) -> Hist<'a> {
        let nodes = vmodel::hist::hist_tree(thorough);
        let by_name: HashMap<String, &Entry> = entries.iter().map(|e| (e.ty.rust(), e)).collect();
        for n in &nodes {
            if !by_name.contains_key(&n.ty.rust()) {
                vcommon::machinery_error(&format!("history node {} has no generated code (re-run vgen / wrong tier)", n.ty.rust()));
            }
        }
        Hist { nodes, by_name }
    }
    pub fn entry(&self, i: usize) -> &'a Entry {
        self.by_name[&self.nodes[i].ty.rust()]
    }
}

fn op_msg(e: &OpErr) -> String {
    match e {
        OpErr::Savefile(_, m) => m.clone(),
        OpErr::Panic(m) => format!("PANIC: {}", m),
        OpErr::Unsupported => "unsupported".into(),
    }
}

fn edit_features(edits: &[&Edit]) -> String {
    let mut s: Vec<String> = edits
        .iter()
        .map(|e| match e {
            Edit::Add { .. } => "Add".to_string(),
            Edit::Remove { flavour, .. } => format!("Remove{:?}", flavour),
            Edit::Convert { .. } => "Convert".into(),
            Edit::AppendVariant { .. } => "AppendVariant".into(),
            Edit::AddFieldToVariant { .. } => "AddFieldToVariant".into(),
        })
        .collect();
    s.sort();
    s.dedup();
    s.join(",")
}

#[allow(clippy::too_many_arguments)]
/// the implicit variant index of a (top-level) enum is one byte up to 256 variants and two
/// beyond: appending the 257th variant changes the width for every version. The model's
/// versioned codec mirrors that (it is the wire format), the documented meaning of "append a
/// variant" does not; the self-consistency check of the model is skipped for such pairs and the
/// implementation is judged against the documented meaning.
fn index_width_changed(a: &Ty, n: &Ty) -> bool {
    fn w(t: &Ty) -> Option<usize> {
        match t {
            Ty::Def(d) => match &d.kind {
                vmodel::ty::DefKind::Enum(e) => Some(e.wire_width()),
                _ => None,
            },
            _ => None,
        }
    }
    w(a) != w(n)
}

fn fail(
    out: &mut Vec<Finding>,
    props: &'static [&'static str],
    oracle: &str,
    h: &Hist,
    node: usize,
    anc: usize,
    c: Container,
    val: &Val,
    edits: &[&Edit],
    msg: String,
) {
    let n = &h.nodes[node];
    let a = &h.nodes[anc];
    let case = json!({
        "kind": if props.contains(&"C03") { "hist_load" } else { "hist_write_old" },
        "node_type": n.ty.rust(), "node": n.ty.describe(), "node_version": n.depth,
        "ancestor_type": a.ty.rust(), "ancestor": a.ty.describe(), "ancestor_version": a.depth,
        "edits": edits.iter().map(|e| e.label()).collect::<Vec<_>>(),
        "container": format!("{:?}", c),
        "value": to_json(val),
        "message": msg,
    });
    out.push(Finding {
        props,
        v: Violation {
            oracle: oracle.to_string(),
            tags: tags(&[
                ("edit_kinds", edit_features(edits)),
                ("type_features", n.ty.feature_string()),
                ("container", format!("{:?}", c)),
                ("base", n.base.to_string()),
                ("index_width_changed", if index_width_changed(&a.ty, &n.ty) { "yes" } else { "no" }.to_string()),
            ]),
            summary: format!(
                "{} (v{}) <- {} (v{}) via [{}] {:?}: {}",
                n.ty.describe(),
                n.depth,
                a.ty.rust(),
                a.depth,
                edits.iter().map(|e| e.label()).collect::<Vec<_>>().join(", "),
                c,
                msg
            ),
            case,
        },
    });
}

/// C03: data saved by ancestor A (version k) loads in node N (version n) as the step-wise upgrade
pub fn check_load(h: &Hist, node: usize, anc: usize, a_val: &Val, containers: &[Container], out: &mut Vec<Finding>, st: &mut Stats) {
    let path = path_to(&h.nodes, node);
    let apos = path.iter().position(|x| *x == anc).expect("ancestor on path");
    let (n, a) = (&h.nodes[node], &h.nodes[anc]);
    let (ne, ae) = (h.entry(node), h.entry(anc));
    // step-wise upgrade = the documented meaning of each edit
    let mut expected = a_val.clone();
    let mut edits: Vec<&Edit> = vec![];
    for w in path[apos..].windows(2) {
        let e = h.nodes[w[1]].edit.as_ref().unwrap();
        expected = upgrade_step(&h.nodes[w[0]].ty, &h.nodes[w[1]].ty, e, &expected);
        edits.push(e);
    }
    let expected = canon(&n.ty, &expected);
    // model self-consistency: versioned decoding of the newest definition agrees with the edits
    let abytes = match encode(&a.ty, a_val, a.depth) {
        Ok(b) => b.bytes,
        Err(e) => vcommon::machinery_error(&format!("model cannot encode ancestor value: {:?}", e)),
    };
    match decode(&n.ty, &abytes, a.depth) {
        Ok((v, used)) if used == abytes.len() && canon(&n.ty, &v) == expected => {}
        _ if index_width_changed(&a.ty, &n.ty) => {}
        other => vcommon::machinery_error(&format!(
            "model inconsistent: decode(N, encode(A,a,k), k) = {:?} but step-wise upgrade = {:?} for {} <- {}",
            other,
            expected,
            n.ty.describe(),
            a.ty.describe()
        )),
    }
    for &c in containers {
        st.add("C03.states", 1);
        st.add("transitions", 2);
        if !edits.is_empty() {
            st.add("C03.cross_version_states", 1);
        }
        let mut bytes = vec![];
        if let Err(e) = ae.ops.save(c, a.depth, Ctx::Single, std::slice::from_ref(a_val), &mut bytes) {
            fail(out, &["C03"], "old_save_failed", h, node, anc, c, a_val, &edits, op_msg(&e));
            continue;
        }
        let mut r = CountR { data: &bytes, pos: 0 };
        // memory version = n for containers with a header; Bare carries no version: the reader is
        // told the file version directly
        let ver = if c == Container::Bare { a.depth } else { n.depth };
        match ne.ops.load(c, ver, Ctx::Single, &mut r) {
            Err(e) => fail(
                out,
                &["C03"],
                if e.is_panic() { "upgrade_load_panic" } else { "upgrade_load_failed" },
                h,
                node,
                anc,
                c,
                a_val,
                &edits,
                op_msg(&e),
            ),
            Ok(l) => {
                if !l.raw.is_empty() || canon(&n.ty, &l.vals[0]) != expected {
                    fail(
                        out,
                        &["C03"],
                        "upgrade_value",
                        h,
                        node,
                        anc,
                        c,
                        a_val,
                        &edits,
                        format!("loaded {} expected {} (file bytes {})", l.vals.first().map(|v| v.short()).unwrap_or_default(), expected.short(), hex(&bytes)),
                    );
                } else if r.pos != bytes.len() {
                    fail(out, &["C03"], "upgrade_consumed", h, node, anc, c, a_val, &edits, format!("consumed {} of {}", r.pos, bytes.len()));
                }
            }
        }
    }
}

/// C03 in a bulk container: Vec<A> saved at version k loads as Vec<N> of the upgraded values
pub fn check_load_bulk(h: &Hist, node: usize, anc: usize, a_vals: &[Val], out: &mut Vec<Finding>, st: &mut Stats) {
    let path = path_to(&h.nodes, node);
    let apos = path.iter().position(|x| *x == anc).expect("ancestor on path");
    let (n, a) = (&h.nodes[node], &h.nodes[anc]);
    let (ne, ae) = (h.entry(node), h.entry(anc));
    let edits: Vec<&Edit> = path[apos..].windows(2).map(|w| h.nodes[w[1]].edit.as_ref().unwrap()).collect();
    let expected: Vec<Val> = a_vals
        .iter()
        .map(|v| {
            let mut cur = v.clone();
            for w in path[apos..].windows(2) {
                cur = upgrade_step(&h.nodes[w[0]].ty, &h.nodes[w[1]].ty, h.nodes[w[1]].edit.as_ref().unwrap(), &cur);
            }
            canon(&n.ty, &cur)
        })
        .collect();
    st.add("C03.states", 1);
    st.add("C03.bulk_states", 1);
    st.add("transitions", 2);
    if !edits.is_empty() {
        st.add("C03.cross_version_states", 1);
    }
    let c = Container::Bare;
    let mut bytes = vec![];
    if let Err(e) = ae.ops.save(c, a.depth, Ctx::Vec, a_vals, &mut bytes) {
        fail(out, &["C03"], "old_save_failed", h, node, anc, c, &a_vals[0], &edits, format!("Vec: {}", op_msg(&e)));
        return;
    }
    let mut r = CountR { data: &bytes, pos: 0 };
    match ne.ops.load(c, a.depth, Ctx::Vec, &mut r) {
        Err(e) => fail(out, &["C03"], "upgrade_load_failed", h, node, anc, c, &a_vals[0], &edits, format!("Vec: {}", op_msg(&e))),
        Ok(l) => {
            let got: Vec<Val> = l.vals.iter().map(|v| canon(&n.ty, v)).collect();
            if !l.raw.is_empty() || got != expected || r.pos != bytes.len() {
                fail(
                    out,
                    &["C03"],
                    "upgrade_value",
                    h,
                    node,
                    anc,
                    c,
                    &a_vals[0],
                    &edits,
                    format!("Vec of {} loaded as {:?} expected {:?} (consumed {} of {})", a_vals.len(), got.iter().map(|v| v.short()).collect::<Vec<_>>(), expected.iter().map(|v| v.short()).collect::<Vec<_>>(), r.pos, bytes.len()),
                );
            }
        }
    }
}

/// C18: node N (version n) writes value x at version k; ancestor A (version k) reads it
pub fn check_write_old(h: &Hist, node: usize, anc: usize, x: &Val, x2: &Val, out: &mut Vec<Finding>, st: &mut Stats) {
    let path = path_to(&h.nodes, node);
    let apos = path.iter().position(|p| *p == anc).expect("ancestor on path");
    let (n, a) = (&h.nodes[node], &h.nodes[anc]);
    let (ne, ae) = (h.entry(node), h.entry(anc));
    let edits: Vec<&Edit> = path[apos..].windows(2).map(|w| h.nodes[w[1]].edit.as_ref().unwrap()).collect();
    let down = |v: &Val| -> Option<Val> {
        let mut cur = v.clone();
        for w in path[apos..].windows(2).rev() {
            let e = h.nodes[w[1]].edit.as_ref().unwrap();
            cur = downgrade_step(&h.nodes[w[0]].ty, &h.nodes[w[1]].ty, e, &cur)?;
        }
        Some(cur)
    };
    let Some(dx) = down(x) else {
        st.add("C18.not_representable", 1);
        return;
    };
    let c = Container::Bare;
    let k = a.depth;
    let want = match encode(&a.ty, &dx, k) {
        Ok(b) => b.bytes,
        Err(e) => vcommon::machinery_error(&format!("model cannot encode downgraded value: {:?}", e)),
    };
    // model self-consistency: the newest definition's versioned encoding equals the old encoding
    match encode(&n.ty, x, k) {
        Ok(b) if b.bytes == want => {}
        _ if index_width_changed(&a.ty, &n.ty) => {}
        other => vcommon::machinery_error(&format!(
            "model inconsistent: encode(N,x,k) {:?} vs encode(A,down(x),k) {} for {} -> {}",
            other.map(|b| hex(&b.bytes)),
            hex(&want),
            n.ty.describe(),
            a.ty.describe()
        )),
    }
    st.add("C18.states", 1);
    st.add("transitions", 2);
    let mut bytes = vec![];
    if let Err(e) = ne.ops.save(c, k, Ctx::Single, std::slice::from_ref(x), &mut bytes) {
        fail(out, &["C18"], if e.is_panic() { "old_version_save_panic" } else { "old_version_save_failed" }, h, node, anc, c, x, &edits, op_msg(&e));
        return;
    }
    if bytes != want {
        fail(
            out,
            &["C18"],
            "old_version_bytes",
            h,
            node,
            anc,
            c,
            x,
            &edits,
            format!("wrote {} at version {} but the version-{} format is {}", hex(&bytes), k, k, hex(&want)),
        );
    }
    let mut r = CountR { data: &bytes, pos: 0 };
    match ae.ops.load(c, k, Ctx::Single, &mut r) {
        Err(e) => fail(out, &["C18"], "older_definition_load_failed", h, node, anc, c, x, &edits, op_msg(&e)),
        Ok(l) => {
            if !l.raw.is_empty() || canon(&a.ty, &l.vals[0]) != canon(&a.ty, &dx) || r.pos != bytes.len() {
                fail(
                    out,
                    &["C18"],
                    "older_definition_value",
                    h,
                    node,
                    anc,
                    c,
                    x,
                    &edits,
                    format!("older definition read {} expected {}", l.vals.first().map(|v| v.short()).unwrap_or_default(), dx.short()),
                );
            }
        }
    }
    // bulk: Vec<N> written at the old version must equal the older definition's Vec encoding
    if let Some(dx2) = down(x2) {
        st.add("C18.bulk_states", 1);
        st.add("transitions", 1);
        let vty = Ty::Seq(SeqKind::Vec, Box::new(a.ty.clone()));
        let want = encode(&vty, &Val::Seq(vec![dx.clone(), dx2.clone()]), k).unwrap().bytes;
        let mut bytes = vec![];
        match ne.ops.save(c, k, Ctx::Vec, &[x.clone(), x2.clone()], &mut bytes) {
            Err(e) => fail(out, &["C18"], "old_version_save_failed", h, node, anc, c, x, &edits, format!("Vec: {}", op_msg(&e))),
            Ok(()) => {
                if bytes != want {
                    fail(
                        out,
                        &["C18"],
                        "old_version_bulk_bytes",
                        h,
                        node,
                        anc,
                        c,
                        x,
                        &edits,
                        format!("Vec written at version {} is {} but the version-{} format is {}", k, hex(&bytes), k, hex(&want)),
                    );
                }
            }
        }
    }
}

fn state(d: &mut Driver, kind: &str, h: &Hist, node: usize, anc: usize, v: &Val) -> bool {
    d.sno += 1;
    if d.sno <= d.skip_through {
        return false;
    }
    let case: Value = json!({"kind": kind, "node_type": h.nodes[node].ty.rust(), "ancestor_type": h.nodes[anc].ty.rust(),
        "type": h.nodes[node].ty.describe(), "version": h.nodes[anc].depth, "container": "*", "context": "Single", "value": to_json(v)});
    vcommon::child::set_state(&format!("pos={} sno={} case={}", d.pos, d.sno, case));
    true
}

/// all C03 / C18 states whose newest definition is `node`
pub fn hist_item(h: &Hist, node: usize, which: &str, thorough: bool, d: &mut Driver, st: &mut Stats) {
    let cap = if thorough { 48 } else { 16 };
    let path = path_to(&h.nodes, node);
    let mut out = vec![];
    st.add("nodes", 1);
    for &anc in &path {
        if which == "C03" {
            let vals = vmodel::values::values(&h.nodes[anc].ty, cap);
            for v in &vals {
                if state(d, "hist_load", h, node, anc, v) {
                    let cs: &[Container] = if thorough {
                        &[Container::Plain, Container::NoSchema, Container::Bare, Container::Compressed, Container::Encrypted]
                    } else {
                        &[Container::Plain, Container::NoSchema, Container::Bare, Container::Compressed]
                    };
                    check_load(h, node, anc, v, cs, &mut out, st);
                    for f in out.drain(..) {
                        (d.emit)(f);
                    }
                }
            }
            for start in 0..vals.len().min(4) {
                for len in [1usize, 2, 3] {
                    let l: Vec<Val> = (0..len).map(|i| vals[(start + i) % vals.len()].clone()).collect();
                    if state(d, "hist_load_bulk", h, node, anc, &l[0]) {
                        check_load_bulk(h, node, anc, &l, &mut out, st);
                        for f in out.drain(..) {
                            (d.emit)(f);
                        }
                    }
                }
            }
        } else {
            if anc == node {
                continue;
            }
            let vals = vmodel::values::values(&h.nodes[node].ty, cap);
            for (i, v) in vals.iter().enumerate() {
                if state(d, "hist_write_old", h, node, anc, v) {
                    check_write_old(h, node, anc, v, &vals[(i + 1) % vals.len()], &mut out, st);
                    for f in out.drain(..) {
                        (d.emit)(f);
                    }
                }
            }
        }
    }
}
