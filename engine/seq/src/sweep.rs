//! The shared sweep behind C01 / C02 / C04 / C12: every (type, version, value, container,
//! context) state is executed on the real code and compared with the reference model.
use crate::reg::Entry;
use crate::sread;
use crate::valjson::to_json;
use std::collections::BTreeMap;
use std::io::Read;
use vcommon::serde_json::{json, Value};
use vcommon::{hex, tags, Violation};
use vglue::ops::{Container, Ctx, OpErr, BULK_CTXS};
use vmodel::wire::{self, decode, encode, WireErr, HEADER_LEN};
use vmodel::*;

pub struct Finding {
    pub props: &'static [&'static str],
    pub v: Violation,
}

#[derive(Default)]
pub struct Stats(pub BTreeMap<String, u64>);
impl Stats {
    pub fn add(&mut self, k: &str, n: u64) {
        *self.0.entry(k.to_string()).or_insert(0) += n;
    }
    pub fn merge(&mut self, o: Stats) {
        for (k, v) in o.0 {
            *self.0.entry(k).or_insert(0) += v;
        }
    }
}

pub struct CountR<'a> {
    pub data: &'a [u8],
    pub pos: usize,
}
impl Read for CountR<'_> {
    fn read(&mut self, buf: &mut [u8]) -> std::io::Result<usize> {
        let n = buf.len().min(self.data.len() - self.pos);
        buf[..n].copy_from_slice(&self.data[self.pos..self.pos + n]);
        self.pos += n;
        Ok(n)
    }
}

pub fn has_unordered(ty: &Ty) -> bool {
    let f = ty.feature_string();
    f.contains("seq_HashSet") || f.contains("map_HashMap") || f.contains("seq_BinaryHeap")
}

pub fn ctx_ty(ctx: Ctx, ty: &Ty) -> Ty {
    let b = Box::new(ty.clone());
    match ctx {
        Ctx::Single => ty.clone(),
        Ctx::Vec | Ctx::Slice => Ty::Seq(SeqKind::Vec, b),
        Ctx::VecDeque => Ty::Seq(SeqKind::VecDeque, b),
        Ctx::Array0 => Ty::Array(b, 0),
        Ctx::Array3 => Ty::Array(b, 3),
        Ctx::BoxSlice => Ty::Seq(SeqKind::BoxSlice, b),
        Ctx::ArcSlice => Ty::Seq(SeqKind::ArcSlice, b),
        Ctx::ArrayVec4 => Ty::Seq(SeqKind::ArrayVec(4), b),
        Ctx::Pair => Ty::Tuple(vec![ty.clone(), ty.clone()]),
        Ctx::Opt => Ty::Opt(b),
    }
}
pub fn ctx_val(ctx: Ctx, vals: &[Val]) -> Val {
    match ctx {
        Ctx::Single => vals[0].clone(),
        Ctx::Pair => Val::Tuple(vals.to_vec()),
        Ctx::Opt => vals.first().map(|v| Val::some(v.clone())).unwrap_or(Val::None),
        _ => Val::Seq(vals.to_vec()),
    }
}
pub fn ctx_accepts(ctx: Ctx, n: usize) -> bool {
    match ctx {
        Ctx::Single => n == 1,
        Ctx::Array0 => n == 0,
        Ctx::Array3 => n == 3,
        Ctx::Pair => n == 2,
        Ctx::Opt => n <= 1,
        Ctx::ArrayVec4 => n <= 4,
        _ => true,
    }
}

fn case_json(e: &Entry, ver: u32, c: Container, ctx: Ctx, vals: &[Val]) -> Value {
    json!({
        "kind": "sweep",
        "family": e.family,
        "index": e.idx,
        "rust_type": e.ty.rust(),
        "type": e.ty.describe(),
        "version": ver,
        "container": format!("{:?}", c),
        "context": format!("{:?}", ctx),
        "values": vals.iter().map(to_json).collect::<Vec<_>>(),
    })
}

struct Ck<'a> {
    e: &'a Entry,
    ver: u32,
    c: Container,
    ctx: Ctx,
    vals: &'a [Val],
    out: &'a mut Vec<Finding>,
}
impl Ck<'_> {
    fn fail(&mut self, props: &'static [&'static str], oracle: &str, msg: String) {
        let lib = match &self.e.ty {
            Ty::Lib(l) => l.key.clone(),
            _ => String::new(),
        };
        let mut case = case_json(self.e, self.ver, self.c, self.ctx, self.vals);
        case["message"] = json!(msg);
        self.out.push(Finding {
            props,
            v: Violation {
                oracle: oracle.to_string(),
                tags: tags(&[
                    ("type_features", self.e.ty.feature_string()),
                    ("family", self.e.family.to_string()),
                    ("lib_type", lib),
                    ("container", format!("{:?}", self.c)),
                    ("context", format!("{:?}", self.ctx)),
                    ("version_is_current", (self.ver == self.e.ty.max_version()).to_string()),
                ("failure_kind", if msg.contains("recursion marker") { "spurious_recursion".to_string() } else { "other".to_string() }),
                ]),
                summary: format!(
                    "{} {} v{} {:?}/{:?}: {}",
                    self.e.id(),
                    self.e.ty.describe(),
                    self.ver,
                    self.c,
                    self.ctx,
                    msg
                ),
                case,
            },
        });
    }
}

fn op_msg(e: &OpErr) -> String {
    match e {
        OpErr::Savefile(_, m) => m.clone(),
        OpErr::Panic(m) => format!("PANIC: {}", m),
        OpErr::Unsupported => "unsupported".into(),
    }
}

/// decrypt the in-memory encrypted container with an independent AES-256-GCM implementation
pub fn decrypt(bytes: &[u8], key: &[u8; 32]) -> Result<Vec<u8>, String> {
    use ring::aead::{Aad, LessSafeKey, Nonce, UnboundKey, AES_256_GCM};
    if bytes.len() < 12 {
        return Err("shorter than nonce".into());
    }
    let mut data1 = u64::from_le_bytes(bytes[0..8].try_into().unwrap());
    let mut data2 = u32::from_le_bytes(bytes[8..12].try_into().unwrap());
    let key = LessSafeKey::new(UnboundKey::new(&AES_256_GCM, key).map_err(|_| "key")?);
    let mut pos = 12;
    let mut out = vec![];
    while pos < bytes.len() {
        if bytes.len() - pos < 8 {
            return Err("truncated chunk length".into());
        }
        let n = u64::from_le_bytes(bytes[pos..pos + 8].try_into().unwrap()) as usize;
        pos += 8;
        if n < 16 || n > 100_016 || bytes.len() - pos < n {
            return Err(format!("bad chunk length {}", n));
        }
        data2 = data2.wrapping_add(1);
        if data2 == 0 {
            data1 = data1.wrapping_add(1);
        }
        let mut nb = [0u8; 12];
        nb[..8].copy_from_slice(&data1.to_le_bytes());
        nb[8..].copy_from_slice(&data2.to_le_bytes());
        let mut chunk = bytes[pos..pos + n].to_vec();
        let plain = key
            .open_in_place(Nonce::assume_unique_for_key(nb), Aad::empty(), &mut chunk)
            .map_err(|_| "authentication failed".to_string())?;
        out.extend_from_slice(plain);
        pos += n;
    }
    Ok(out)
}

pub fn bunzip(bytes: &[u8]) -> Result<(Vec<u8>, usize), String> {
    let mut d = bzip2::read::BzDecoder::new(bytes);
    let mut out = vec![];
    d.read_to_end(&mut out).map_err(|e| format!("bzip2: {}", e))?;
    Ok((out, d.total_in() as usize))
}

/// One (type, version, value) in all five containers. Returns nothing; pushes findings.
pub fn check_single(e: &Entry, ver: u32, val: &Val, containers: &[Container], out: &mut Vec<Finding>, st: &mut Stats) {
    let vals = std::slice::from_ref(val);
    let enc = match encode(&e.ty, val, ver) {
        Ok(x) => x,
        Err(WireErr::NotRepresentable(_)) => {
            st.add("not_representable_skipped", 1);
            return;
        }
        Err(WireErr::Opaque) => return check_single_opaque(e, ver, val, containers, out, st),
        Err(x) => vcommon::machinery_error(&format!("model cannot encode its own value: {:?}", x)),
    };
    let mbytes = &enc.bytes;
    let expect = match decode(&e.ty, mbytes, ver) {
        Ok((v, n)) if n == mbytes.len() => canon(&e.ty, &v),
        other => vcommon::machinery_error(&format!("model cannot decode its own bytes: {:?} for {}", other, e.ty.describe())),
    };
    let is_cur = ver == e.ty.max_version();
    if is_cur && expect != canon(&e.ty, val) {
        vcommon::machinery_error(&format!(
            "model round trip inconsistent for {}: {:?} vs {:?}",
            e.ty.describe(),
            expect,
            val
        ));
    }
    let unordered = has_unordered(&e.ty);
    let packed = e.ops.packed(ver);
    for &c in containers {
        let mut ck = Ck { e, ver, c, ctx: Ctx::Single, vals, out };
        st.add("C01.states", 1);
        st.add("C02.states", 1);
        st.add("transitions", 2);
        let mut bytes = vec![];
        if let Err(err) = e.ops.save(c, ver, Ctx::Single, vals, &mut bytes) {
            ck.fail(&["C01", "C02"], if err.is_panic() { "save_panic" } else { "save_failed" }, op_msg(&err));
            continue;
        }
        // ---- C02: bytes == documented format ------------------------------------------------
        let payload: Result<Vec<u8>, String> = match c {
            Container::Bare => Ok(bytes.clone()),
            Container::NoSchema | Container::Plain => {
                let h = wire::header(wire::CURRENT_LIB_VERSION, ver, false);
                if bytes.len() < HEADER_LEN || bytes[..HEADER_LEN] != h[..] {
                    Err(format!("header {} != documented {}", hex(&bytes[..HEADER_LEN.min(bytes.len())]), hex(&h)))
                } else {
                    Ok(bytes[HEADER_LEN..].to_vec())
                }
            }
            Container::Compressed => {
                let h = wire::header(wire::CURRENT_LIB_VERSION, ver, true);
                if bytes.len() < HEADER_LEN || bytes[..HEADER_LEN] != h[..] {
                    Err(format!("header {} != documented {}", hex(&bytes[..HEADER_LEN.min(bytes.len())]), hex(&h)))
                } else {
                    bunzip(&bytes[HEADER_LEN..]).and_then(|(p, used)| {
                        if used != bytes.len() - HEADER_LEN {
                            Err(format!("{} trailing bytes after the bzip2 stream", bytes.len() - HEADER_LEN - used))
                        } else {
                            Ok(p)
                        }
                    })
                }
            }
            Container::Encrypted => decrypt(&bytes, &vglue::ops::key_of(vglue::ops::PASSWORD)).and_then(|plain| {
                let h = wire::header(wire::CURRENT_LIB_VERSION, ver, true);
                if plain.len() < HEADER_LEN || plain[..HEADER_LEN] != h[..] {
                    Err("inner header differs from documented".to_string())
                } else {
                    bunzip(&plain[HEADER_LEN..]).map(|x| x.0)
                }
            }),
        };
        match payload {
            Err(m) => ck.fail(&["C02"], "container_vs_reference", m),
            Ok(p) => {
                // with schema: payload is the tail; the schema section is checked by C13's codec
                let with_schema = matches!(c, Container::Plain | Container::Compressed | Container::Encrypted);
                let tail = if with_schema {
                    if p.len() >= mbytes.len() {
                        p[p.len() - mbytes.len()..].to_vec()
                    } else {
                        p.clone()
                    }
                } else {
                    p.clone()
                };
                let same = if unordered {
                    tail.len() == mbytes.len()
                        && matches!(decode(&e.ty, &tail, ver), Ok((v, n)) if n == tail.len() && canon(&e.ty, &v) == expect)
                } else {
                    tail == *mbytes
                };
                st.add("C02.validated", 1);
                if !same {
                    ck.fail(
                        &["C02"],
                        "bytes_vs_reference",
                        format!("impl payload {} != reference {}", hex(&tail), hex(mbytes)),
                    );
                }
                if with_schema {
                    let sch = &p[..p.len() - tail.len().min(p.len())];
                    match vmodel::schema::decode_schema(sch, 2) {
                        Ok((_, used)) if used == sch.len() => {}
                        Ok((_, used)) => ck.fail(
                            &["C02"],
                            "schema_section_extent",
                            format!("schema section decodes to {} bytes but payload starts at {}", used, sch.len()),
                        ),
                        Err(m) => ck.fail(&["C02"], "schema_section_extent", format!("schema section undecodable: {}", m)),
                    }
                }
            }
        }
        // ---- C01: load(save(x)) == x, consuming exactly the bytes written ---------------------
        let sentinel = matches!(c, Container::Bare | Container::NoSchema | Container::Plain);
        let mut input = bytes.clone();
        if sentinel {
            input.extend_from_slice(&[0xA5; 7]);
        }
        let mut r = CountR { data: &input, pos: 0 };
        match e.ops.load(c, ver, Ctx::Single, &mut r) {
            Err(err) => ck.fail(&["C01"], if err.is_panic() { "load_panic" } else { "load_failed" }, op_msg(&err)),
            Ok(l) => {
                if !l.raw.is_empty() {
                    ck.fail(&["C01"], "roundtrip_value", format!("invalid bit pattern: {}", l.raw.join("; ")));
                } else if canon(&e.ty, &l.vals[0]) != expect {
                    ck.fail(
                        &["C01"],
                        "roundtrip_value",
                        format!("loaded {} expected {}", l.vals[0].short(), expect.short()),
                    );
                }
                if r.pos != bytes.len() {
                    ck.fail(
                        &["C01"],
                        "roundtrip_consumed",
                        format!("reader consumed {} of {} bytes written", r.pos, bytes.len()),
                    );
                }
            }
        }
        // ---- C02 converse: the implementation reads the reference bytes ------------------------
        if matches!(c, Container::Bare | Container::NoSchema) {
            let mut input = if c == Container::Bare { vec![] } else { wire::header(wire::CURRENT_LIB_VERSION, ver, false) };
            input.extend_from_slice(mbytes);
            let mut r = CountR { data: &input, pos: 0 };
            st.add("transitions", 1);
            match e.ops.load(c, ver, Ctx::Single, &mut r) {
                Err(err) => ck.fail(&["C02"], "load_reference_bytes", op_msg(&err)),
                Ok(l) => {
                    if !l.raw.is_empty() || canon(&e.ty, &l.vals[0]) != expect || r.pos != input.len() {
                        ck.fail(
                            &["C02"],
                            "load_reference_bytes",
                            format!("reference bytes {} loaded as {:?} (consumed {})", hex(mbytes), l.vals.first().map(|v| v.short()), r.pos),
                        );
                    }
                }
            }
        }
    }
    if !containers.contains(&Container::Bare) {
        return;
    }
    // ---- C04 soundness of "packed: yes" ----------------------------------------------------
    {
        let mut ck = Ck { e, ver, c: Container::Bare, ctx: Ctx::Single, vals, out };
        st.add("C04.states", 1);
        if packed {
            st.add("C04.packed_yes_states", 1);
            if e.ops.size_of() != mbytes.len() {
                ck.fail(
                    &["C04", "C18"],
                    "packed_yes_size",
                    format!("declared packed at v{} but size_of={} and wire size={}", ver, e.ops.size_of(), mbytes.len()),
                );
            } else if is_cur {
                // memory holds the current version's value; only comparable when writing it as is
                let img = e.ops.mem_image(val);
                if img != *mbytes {
                    ck.fail(
                        &["C04"],
                        "packed_yes_memimage_vs_wire",
                        format!("memory image {} != field-wise encoding {}", hex(&img), hex(mbytes)),
                    );
                }
            } else {
                let img = e.ops.mem_image(val);
                if img != *mbytes {
                    ck.fail(
                        &["C04", "C18"],
                        "packed_yes_old_version_layout",
                        format!("packed at old version v{}: memory image {} != encoding at that version {}", ver, hex(&img), hex(mbytes)),
                    );
                }
            }
        }
    }
    // ---- C12 schema-driven parse -----------------------------------------------------------
    {
        let mut ck = Ck { e, ver, c: Container::Bare, ctx: Ctx::Single, vals, out };
        let schema = e.ops.schema(ver);
        if sread::in_domain(&schema) {
            st.add("C12.states", 1);
            let mut bytes = vec![];
            if e.ops.save(Container::Bare, ver, Ctx::Single, vals, &mut bytes).is_ok() {
                let mut cur = sread::Cur { b: &bytes, pos: 0 };
                let mut toks = vec![];
                let mut want = vec![];
                // tokens of what was really written (value re-decoded by the model so that
                // unordered containers compare in wire order)
                let written = match decode(&e.ty, &bytes, ver) {
                    Ok((v, _)) => v,
                    Err(_) => val.clone(),
                };
                // model_tokens must see the value in *wire* terms: use the value as written
                let wire_val = if unordered { written } else { val.clone() };
                sread::model_tokens(&e.ty, &wire_val, ver, &mut want);
                match sread::sread(&schema, &mut cur, &mut toks, 0) {
                    Err(m) => ck.fail(&["C12"], "schema_driven_parse", m),
                    Ok(()) => {
                        if cur.pos != bytes.len() {
                            ck.fail(
                                &["C12"],
                                "schema_driven_parse",
                                format!("schema-driven reader consumed {} of {} bytes", cur.pos, bytes.len()),
                            );
                        } else if toks != want {
                            ck.fail(
                                &["C12"],
                                "schema_driven_parse",
                                format!("structure differs: schema-driven {:?} vs value {:?}", &toks[..toks.len().min(12)], &want[..want.len().min(12)]),
                            );
                        }
                    }
                }
            }
        } else {
            st.add("C12.outside_domain", 1);
        }
    }
}

/// Library types whose wire format is not modelled: round trip and consumption in every
/// container (C01), header (C02), schema-driven reader must consume the bytes exactly (C12).
pub fn check_single_opaque(e: &Entry, ver: u32, val: &Val, containers: &[Container], out: &mut Vec<Finding>, st: &mut Stats) {
    let vals = std::slice::from_ref(val);
    let expect = canon(&e.ty, val);
    for &c in containers {
        let mut ck = Ck { e, ver, c, ctx: Ctx::Single, vals, out };
        st.add("C01.states", 1);
        st.add("C01.opaque_states", 1);
        st.add("transitions", 2);
        let mut bytes = vec![];
        if let Err(err) = e.ops.save(c, ver, Ctx::Single, vals, &mut bytes) {
            ck.fail(&["C01"], if err.is_panic() { "save_panic" } else { "save_failed" }, op_msg(&err));
            continue;
        }
        if matches!(c, Container::Plain | Container::NoSchema) {
            let h = wire::header(wire::CURRENT_LIB_VERSION, ver, false);
            if bytes.len() < HEADER_LEN || bytes[..HEADER_LEN] != h[..] {
                ck.fail(&["C02"], "container_vs_reference", "header differs from documented".into());
            }
        }
        let sentinel = matches!(c, Container::Bare | Container::NoSchema | Container::Plain);
        let mut input = bytes.clone();
        if sentinel {
            input.extend_from_slice(&[0xA5; 7]);
        }
        let mut r = CountR { data: &input, pos: 0 };
        match e.ops.load(c, ver, Ctx::Single, &mut r) {
            Err(err) => ck.fail(&["C01"], if err.is_panic() { "load_panic" } else { "load_failed" }, op_msg(&err)),
            Ok(l) => {
                if !l.raw.is_empty() {
                    ck.fail(&["C01"], "roundtrip_value", format!("invalid state after load: {}", l.raw.join("; ")));
                } else if canon(&e.ty, &l.vals[0]) != expect {
                    ck.fail(&["C01"], "roundtrip_value", format!("loaded {} expected {}", l.vals[0].short(), expect.short()));
                }
                if r.pos != bytes.len() {
                    ck.fail(&["C01"], "roundtrip_consumed", format!("reader consumed {} of {} bytes written", r.pos, bytes.len()));
                }
            }
        }
        if c == Container::Bare {
            let schema = e.ops.schema(ver);
            if sread::in_domain(&schema) {
                st.add("C12.states", 1);
                st.add("C12.opaque_states", 1);
                let mut cur = sread::Cur { b: &bytes, pos: 0 };
                let mut toks = vec![];
                match sread::sread(&schema, &mut cur, &mut toks, 0) {
                    Err(m) => ck.fail(&["C12"], "schema_driven_parse", m),
                    Ok(()) if cur.pos != bytes.len() => ck.fail(&["C12"], "schema_driven_parse", format!("schema-driven reader consumed {} of {} bytes", cur.pos, bytes.len())),
                    Ok(()) => {}
                }
            }
        }
    }
}

/// One (type, version, context, element list): bulk containers, Bare format.
pub fn check_bulk(e: &Entry, ver: u32, ctx: Ctx, vals: &[Val], out: &mut Vec<Finding>, st: &mut Stats) {
    if !ctx_accepts(ctx, vals.len()) {
        return;
    }
    let cty = ctx_ty(ctx, &e.ty);
    let cval = ctx_val(ctx, vals);
    let enc = match encode(&cty, &cval, ver) {
        Ok(x) => x,
        Err(WireErr::NotRepresentable(_)) | Err(WireErr::Opaque) => return,
        Err(x) => vcommon::machinery_error(&format!("model cannot encode bulk value: {:?}", x)),
    };
    let mbytes = &enc.bytes;
    let expect: Vec<Val> = vals
        .iter()
        .map(|v| {
            let b = encode(&e.ty, v, ver).unwrap().bytes;
            canon(&e.ty, &decode(&e.ty, &b, ver).unwrap().0)
        })
        .collect();
    let unordered = has_unordered(&e.ty);
    let mut ck = Ck { e, ver, c: Container::Bare, ctx, vals, out };
    st.add("C04.states", 1);
    st.add("C04.bulk_states", 1);
    st.add("C01.states", 1);
    st.add("transitions", 3);
    let mut bytes = vec![];
    match e.ops.save(Container::Bare, ver, ctx, vals, &mut bytes) {
        Err(err) => {
            ck.fail(&["C01", "C04"], if err.is_panic() { "save_panic" } else { "save_failed" }, op_msg(&err));
            return;
        }
        Ok(()) => {}
    }
    let same = if unordered {
        bytes.len() == mbytes.len()
    } else {
        bytes == *mbytes
    };
    if !same {
        ck.fail(
            &["C04", "C02"],
            "bulk_bytes_vs_reference",
            format!("bulk bytes {} != field-wise reference {}", hex(&bytes), hex(mbytes)),
        );
    }
    // C12 in bulk contexts: the schema of the container type must describe the bytes written
    if ctx != Ctx::Slice {
        let schema = e.ops.schema_ctx(ctx, ver);
        if sread::in_domain(&schema) && !unordered {
            st.add("C12.states", 1);
            st.add("C12.bulk_states", 1);
            let mut cur = sread::Cur { b: &bytes, pos: 0 };
            let mut toks = vec![];
            let mut want = vec![];
            sread::model_tokens(&cty, &cval, ver, &mut want);
            match sread::sread(&schema, &mut cur, &mut toks, 0) {
                Err(m) => ck.fail(&["C12"], "schema_driven_parse", m),
                Ok(()) => {
                    if cur.pos != bytes.len() {
                        ck.fail(&["C12"], "schema_driven_parse", format!("schema-driven reader consumed {} of {} bytes", cur.pos, bytes.len()));
                    } else if toks != want {
                        ck.fail(&["C12"], "schema_driven_parse", format!("structure differs: schema-driven {:?} vs value {:?}", &toks[..toks.len().min(12)], &want[..want.len().min(12)]));
                    }
                }
            }
        }
    }
    if ctx == Ctx::Slice {
        return;
    }
    // bulk round trip (C01) and bulk read of reference bytes (C04)
    for (which, input, oracle) in [(0, &bytes, "bulk_roundtrip"), (1, mbytes, "bulk_load_reference_bytes")] {
        let props: &'static [&'static str] = if which == 0 { &["C01"] } else { &["C04", "C02"] };
        let mut with_sentinel = input.clone();
        with_sentinel.extend_from_slice(&[0xA5; 7]);
        let mut r = CountR { data: &with_sentinel, pos: 0 };
        match e.ops.load(Container::Bare, ver, ctx, &mut r) {
            Err(err) => ck.fail(props, oracle, op_msg(&err)),
            Ok(l) => {
                let got: Vec<Val> = l.vals.iter().map(|v| canon(&e.ty, v)).collect();
                if !l.raw.is_empty() {
                    ck.fail(props, oracle, format!("invalid bit pattern after bulk load: {}", l.raw.join("; ")));
                } else if got != expect {
                    ck.fail(
                        props,
                        oracle,
                        format!("bulk load of {} gave {:?} expected {:?}", hex(input), got.iter().map(|v| v.short()).collect::<Vec<_>>(), expect.iter().map(|v| v.short()).collect::<Vec<_>>()),
                    );
                } else if r.pos != input.len() {
                    ck.fail(props, oracle, format!("bulk load consumed {} of {} bytes", r.pos, input.len()));
                }
            }
        }
    }
}

/// Drives the states of one entry: numbering (for crash attribution / resume) and streaming
/// of findings.
pub struct Driver<'a> {
    pub pos: usize,
    /// states with a number <= skip_through are not executed (resume behind a crash)
    pub skip_through: u64,
    pub sno: u64,
    pub emit: &'a mut dyn FnMut(Finding),
}
impl Driver<'_> {
    fn begin(&mut self, e: &Entry, ver: u32, c: &str, ctx: Ctx, vals: &[Val]) -> bool {
        self.sno += 1;
        if self.sno <= self.skip_through {
            return false;
        }
        let mut case = case_json(e, ver, Container::Bare, ctx, vals);
        case["container"] = json!(c);
        vcommon::child::set_state(&format!("pos={} sno={} case={}", self.pos, self.sno, case));
        true
    }
    fn flush(&mut self, out: &mut Vec<Finding>) {
        for f in out.drain(..) {
            (self.emit)(f);
        }
    }
}

/// all states of one entry
pub fn sweep_entry(e: &Entry, thorough: bool, containers: &[Container], d: &mut Driver, st: &mut Stats) {
    let cap = if thorough { 64 } else { 24 };
    let vals = vmodel::values::values(&e.ty, cap);
    let maxv = e.ty.max_version();
    let mut out = vec![];
    st.add("types", 1);
    for ver in 0..=maxv {
        for v in &vals {
            for c in containers {
                if d.begin(e, ver, &format!("{:?}", c), Ctx::Single, std::slice::from_ref(v)) {
                    check_single(e, ver, v, std::slice::from_ref(c), &mut out, st);
                    d.flush(&mut out);
                }
            }
        }
        // bulk contexts: windows over the value list
        let n = vals.len();
        if n == 0 {
            continue;
        }
        let small = wire::min_wire_size(&e.ty, ver) <= 8 && matches!(e.ty, Ty::Def(_) | Ty::Prim(_));
        for ctx in BULK_CTXS {
            let mut lists: Vec<Vec<Val>> = vec![vec![]];
            for start in 0..n.min(if thorough { 8 } else { 3 }) {
                for len in 1..=3usize {
                    lists.push((0..len).map(|i| vals[(start + i) % n].clone()).collect());
                }
            }
            lists.push(vals.iter().take(4).cloned().collect());
            if small && matches!(ctx, Ctx::Vec | Ctx::BoxSlice | Ctx::ArcSlice | Ctx::Slice) {
                for len in [63usize, 64, 65] {
                    lists.push((0..len).map(|i| vals[i % n].clone()).collect());
                }
            }
            lists.sort();
            lists.dedup();
            for l in &lists {
                if !ctx_accepts(ctx, l.len()) {
                    continue;
                }
                if d.begin(e, ver, "Bare", ctx, l) {
                    check_bulk(e, ver, ctx, l, &mut out, st);
                    d.flush(&mut out);
                }
            }
        }
    }
}
