//! C05: schema and header gate. All ordered pairs (saved type, loaded type) and all single-byte
//! header replacements.
use crate::reg::Entry;
use crate::sweep::{CountR, Driver, Finding, Stats};
use crate::valjson::to_json;
use vcommon::serde_json::json;
use vcommon::{hex, tags, Violation};
use vglue::ops::{Container, Ctx, OpErr};
use vmodel::grammar::{claim, Claim};
use vmodel::wire::{decode, encode};
use vmodel::*;

fn fail(out: &mut Vec<Finding>, oracle: &str, s: &Entry, l: &Entry, ver: u32, val: &Val, what: &str, msg: String) {
    out.push(Finding {
        props: &["C05"],
        v: Violation {
            oracle: oracle.to_string(),
            tags: tags(&[
                ("saved_features", s.ty.feature_string()),
                ("loaded_features", l.ty.feature_string()),
                ("claim", what.to_string()),
                ("failure_kind", if msg.contains("<recursion") { "recursion_marker_in_schema".to_string() } else { "other".to_string() }),
            ]),
            summary: format!("saved {} [{}] loaded as {} [{}] v{}: {}", s.ty.describe(), s.id(), l.ty.describe(), l.id(), ver, msg),
            case: json!({"kind": "gate_pair", "saved_family": s.family, "saved_type": s.ty.rust(), "loaded_family": l.family, "loaded_type": l.ty.rust(),
                "saved": s.ty.describe(), "loaded": l.ty.describe(), "version": ver, "value": to_json(val), "claim": what, "message": msg}),
        },
    });
}

pub fn check_pair(s: &Entry, l: &Entry, val: &Val, out: &mut Vec<Finding>, st: &mut Stats) {
    let ver = s.ty.max_version();
    let enc = match encode(&s.ty, val, ver) {
        Ok(e) => e,
        Err(vmodel::wire::WireErr::Opaque) => vmodel::wire::Enc::default(),
        Err(_) => return,
    };
    let c = claim(&s.ty, &l.ty, ver);
    st.add("C05.pairs", 1);
    match c {
        Claim::MustReject => st.add("C05.must_reject", 1),
        Claim::MustAccept => st.add("C05.must_accept", 1),
        Claim::NoClaim => st.add("C05.no_claim", 1),
    }
    st.add("transitions", 2);
    let mut bytes = vec![];
    if s.ops.save(Container::Plain, ver, Ctx::Single, std::slice::from_ref(val), &mut bytes).is_err() {
        return; // C01's business
    }
    let mem_ver = ver.max(l.ty.max_version());
    let mut r = CountR { data: &bytes, pos: 0 };
    let res = l.ops.load(Container::Plain, mem_ver, Ctx::Single, &mut r);
    match (&res, c) {
        (Err(OpErr::Panic(m)), _) => fail(out, "gate_panic", s, l, ver, val, &format!("{:?}", c), format!("load panicked: {}", m)),
        (Ok(lv), Claim::MustReject) => fail(
            out,
            "accepted_mismatched_schema",
            s,
            l,
            ver,
            val,
            "MustReject",
            format!("wire layouts differ but load returned {}", lv.vals.first().map(|v| v.short()).unwrap_or_default()),
        ),
        (Err(OpErr::Savefile(kind, m)), Claim::MustReject) if kind != "IncompatibleSchema" => {
            // rejected, but not by the schema gate: the payload was interpreted
            fail(out, "mismatch_not_caught_by_schema_gate", s, l, ver, val, "MustReject", format!("failed with {} instead of a schema error: {}", kind, m))
        }
        // capacity of ArrayString / ArrayVec is a property of the value, not of the schema
        (Err(OpErr::Savefile(kind, _)), Claim::MustAccept) if kind == "ArrayvecCapacityError" => {}
        (Err(e), Claim::MustAccept) => fail(out, "rejected_matching_schema", s, l, ver, val, "MustAccept", format!("layouts and variant names agree but load failed: {:?}", e)),
        (Ok(lv), Claim::MustAccept) => {
            // the payload really written (hash containers choose their own element order)
            let payload = &bytes[bytes.len() - enc.bytes.len().min(bytes.len())..];
            let want = if s.ty.has_opaque() { Some(canon(&l.ty, val)) } else { decode(&l.ty, payload, ver).ok().map(|x| canon(&l.ty, &x.0)) };
            let got = lv.vals.first().map(|v| canon(&l.ty, v));
            if !lv.raw.is_empty() || got != want {
                fail(out, "accepted_but_different_value", s, l, ver, val, "MustAccept", format!("loaded {:?} expected {:?}", got.map(|v| v.short()), want.map(|v| v.short())));
            }
        }
        _ => {}
    }
}

/// all loaded types for one saved type
pub fn pair_item(entries: &[Entry], pos: usize, d: &mut Driver, st: &mut Stats) {
    let s = &entries[pos];
    let vals = vmodel::values::values(&s.ty, 8);
    // two values: the first and a "busy" one
    let picks: Vec<&Val> = [vals.first(), vals.get(vals.len() / 2)].into_iter().flatten().collect();
    let mut out = vec![];
    st.add("types", 1);
    for l in entries {
        for (i, v) in picks.iter().enumerate() {
            if i == 1 && picks[0] == picks[1] {
                continue;
            }
            d.sno += 1;
            if d.sno <= d.skip_through {
                continue;
            }
            vcommon::child::set_state(&format!(
                "pos={} sno={} case={}",
                d.pos,
                d.sno,
                json!({"kind":"gate_pair","saved_type": s.ty.rust(), "loaded_type": l.ty.rust(), "type": s.ty.describe(), "version": s.ty.max_version(), "container":"Plain","context":"Single","value": to_json(v)})
            ));
            check_pair(s, l, v, &mut out, st);
            for f in out.drain(..) {
                (d.emit)(f);
            }
        }
    }
    if pos < 6 {
        header_item(s, &vals[0], &mut out, st);
        for f in out.drain(..) {
            (d.emit)(f);
        }
    }
}

/// every header byte position x every replacement value
pub fn header_item(e: &Entry, val: &Val, out: &mut Vec<Finding>, st: &mut Stats) {
    let ver = e.ty.max_version();
    for c in [Container::Plain, Container::NoSchema] {
        let mut bytes = vec![];
        if e.ops.save(c, ver, Ctx::Single, std::slice::from_ref(val), &mut bytes).is_err() {
            return;
        }
        for pos in 0..16usize {
            for b in 0..=255u8 {
                if bytes[pos] == b {
                    continue;
                }
                let mut m = bytes.clone();
                m[pos] = b;
                st.add("C05.header_mutations", 1);
                st.add("transitions", 1);
                let mut r = CountR { data: &m, pos: 0 };
                let res = e.ops.load(c, ver, Ctx::Single, &mut r);
                let lib_version = u16::from_le_bytes([m[9], m[10]]);
                let data_version = u32::from_le_bytes([m[11], m[12], m[13], m[14]]);
                let must_fail_early = pos < 9 || lib_version > 2 || data_version > ver;
                let mut bad = None;
                match &res {
                    Err(OpErr::Panic(p)) => bad = Some(("header_panic", format!("panic: {}", p))),
                    Ok(_) if must_fail_early => bad = Some(("bad_header_accepted", "load succeeded".to_string())),
                    Err(_) if must_fail_early && r.pos > 16 => bad = Some(("payload_read_before_header_rejection", format!("reader consumed {} bytes before rejecting", r.pos))),
                    Err(OpErr::Savefile(kind, _)) if data_version > ver && pos >= 11 && pos < 15 && kind != "WrongVersion" => {
                        bad = Some(("newer_data_version_not_reported", format!("error kind {}", kind)))
                    }
                    _ => {}
                }
                if must_fail_early {
                    st.add("C05.header_must_reject", 1);
                }
                if let Some((oracle, msg)) = bad {
                    out.push(Finding {
                        props: &["C05"],
                        v: Violation {
                            oracle: oracle.to_string(),
                            tags: tags(&[("header_pos", pos.to_string()), ("container", format!("{:?}", c))]),
                            summary: format!("{} header byte {} := {:#04x} ({:?}): {}", e.ty.describe(), pos, b, c, msg),
                            case: json!({"kind": "gate_header", "family": e.family, "rust_type": e.ty.rust(), "version": ver, "container": format!("{:?}", c),
                                "pos": pos, "byte": b, "file": hex(&m), "value": to_json(val), "message": msg}),
                        },
                    });
                }
            }
        }
    }
}
