//! vseq: the sequential exploration engine (C01 C02 C03 C04 C05 C07 C08 C12 C13 C14 C17 C18).
mod faults;
mod gate;
mod histcheck;
mod malformed;
mod reg;
mod schemamut;
mod sread;
mod sweep;
mod valjson;

use vcommon::serde_json::{json, Map, Value};
use vcommon::{parse_args, Run, Tier};
use vglue::ops::{Container, ALL_CONTAINERS};

fn level_of(prop: &str) -> &'static str {
    match prop {
        "C06" | "C07" | "C08" | "C14" => "fault_enumeration",
        _ => "model_checking",
    }
}

fn violation_to_json(props: &[&str], v: &vcommon::Violation) -> Value {
    json!({"props": props, "oracle": v.oracle, "tags": v.tags, "summary": v.summary, "case": v.case})
}
fn violation_from_json(j: &Value) -> (Vec<String>, vcommon::Violation) {
    let props = j["props"].as_array().map(|a| a.iter().filter_map(|x| x.as_str().map(String::from)).collect()).unwrap_or_default();
    let tags = j["tags"].as_object().map(|m| m.iter().map(|(k, v)| (k.clone(), v.as_str().unwrap_or("").to_string())).collect()).unwrap_or_default();
    (
        props,
        vcommon::Violation {
            oracle: j["oracle"].as_str().unwrap_or("").to_string(),
            tags,
            summary: j["summary"].as_str().unwrap_or("").to_string(),
            case: j["case"].clone(),
        },
    )
}

/// which entries a property's exploration iterates over, and what one item does
fn job_entries(prop: &str, thorough: bool) -> Vec<reg::Entry> {
    match prop {
        "C07" | "C08" | "C14" => {
            let mut v = reg::family("lib");
            v.extend(reg::family("types"));
            if prop == "C08" {
                // files written by older definitions, read by newer ones
                v.extend(reg::family("hist"));
            }
            v
        }
        "C06" => {
            let mut v = reg::family("lib");
            v.extend(reg::family("types"));
            v.extend(reg::family("hist").into_iter().step_by(8));
            if thorough {
                v.extend(reg::family("types_thorough").into_iter().step_by(16));
            }
            v
        }
        "C05" => {
            let mut v = reg::all(false);
            if thorough {
                // class representatives of the thorough family: every 3rd type
                v.extend(reg::family("types_thorough").into_iter().step_by(3));
            }
            v
        }
        "C03" | "C18" => {
            let mut v = reg::family("hist");
            if thorough {
                v.extend(reg::family("hist_thorough"));
            }
            v
        }
        _ => {
            let mut v = reg::all(thorough);
            v.extend(reg::family("hist"));
            v
        }
    }
}

/// child process: explores the items `pos % n == k` single-threaded, streaming results
fn job_child(prop: &str, thorough: bool, k: usize, n: usize, resume: (i64, u64)) -> ! {
    vcommon::child::install_crash_handler();
    let entries = job_entries(prop, thorough);
    let hist = if matches!(prop, "C03" | "C18") { Some(histcheck::Hist::new(thorough, &entries)) } else { None };
    let is_fault = matches!(prop, "C07" | "C08" | "C14");
    // every state of the sweeps and of the malformed-input engine is a short operation on a small
    // input: one that does not come back is a hang (the fault engines have long single states)
    if !is_fault {
        vcommon::child::set_watchdog(if prop == "C06" { 30 } else { 300 });
    }
    let items = if prop == "C06" {
        malformed::items(&entries, thorough)
    } else if is_fault { faults::items(prop, &entries, thorough) } else { hist.as_ref().map(|h| h.nodes.len()).unwrap_or(entries.len()) };
    for pos in 0..items {
        if pos % n != k || (pos as i64) < resume.0 {
            continue;
        }
        println!("B {}", pos);
        let item_start = std::time::Instant::now();
        let mut st = sweep::Stats::default();
        let mut emit = |f: sweep::Finding| println!("F {}", violation_to_json(f.props, &f.v));
        let mut d = sweep::Driver {
            pos,
            skip_through: if pos as i64 == resume.0 { resume.1 } else { 0 },
            sno: 0,
            emit: &mut emit,
        };
        let sample;
        if prop == "C06" {
            sample = malformed::run_item(&entries, thorough, pos, &mut d, &mut st);
        } else if is_fault {
            sample = faults::run_item(prop, &entries, thorough, pos, &mut d, &mut st);
        } else if prop == "C05" {
            gate::pair_item(&entries, pos, &mut d, &mut st);
            let e = &entries[pos];
            sample = json!({"saved_type": e.ty.describe(), "loaded_types": entries.len(), "example_claims": entries.iter().take(4).map(|l| format!("{} -> {:?}", l.ty.describe(), vmodel::grammar::claim(&e.ty, &l.ty, e.ty.max_version()))).collect::<Vec<_>>()});
        } else if let Some(h) = &hist {
            histcheck::hist_item(h, pos, prop, thorough, &mut d, &mut st);
            let nd = &h.nodes[pos];
            sample = json!({"node": nd.ty.describe(), "version": nd.depth,
                "path": vmodel::hist::path_to(&h.nodes, pos).iter().filter_map(|i| h.nodes[*i].edit.as_ref().map(|e| e.label())).collect::<Vec<_>>()});
        } else {
            let e = &entries[pos];
            sweep::sweep_entry(e, thorough, &ALL_CONTAINERS, &mut d, &mut st);
            sample = json!({"type": e.ty.describe(), "id": e.id(), "versions": e.ty.max_version() + 1,
                "first_value": vmodel::values::values(&e.ty, 8).first().map(valjson::to_json)});
        }
        println!("T {}", json!(st.0));
        if std::env::var("VERIF_ITEM_TIMES").is_ok() {
            eprintln!("ITEM-TIME {} {:.2}s {}", pos, item_start.elapsed().as_secs_f64(), sample.to_string().chars().take(120).collect::<String>());
        }
        println!("X {}", sample);
    }
    std::process::exit(0)
}

fn run_sweep(run: &mut Run, prop: &'static str) -> Map<String, Value> {
    let mut stats = sweep::Stats::default();
    let base = vec![prop.to_string(), "--tier".to_string(), run.tier.name().to_string()];
    let run_cell = std::sync::Mutex::new((&mut *run, &mut stats, 0u64));
    vcommon::child::run_workers(
        16,
        &base,
        |_k, line| {
            let mut g = run_cell.lock().unwrap();
            if let Some(j) = line.strip_prefix("F ") {
                let (props, v) = violation_from_json(&vcommon::serde_json::from_str(j).unwrap_or(Value::Null));
                if props.iter().any(|p| p == prop) {
                    g.0.violation(v);
                }
            } else if let Some(j) = line.strip_prefix("T ") {
                if let Ok(Value::Object(m)) = vcommon::serde_json::from_str::<Value>(j) {
                    for (k, v) in m {
                        g.1.add(&k, v.as_u64().unwrap_or(0));
                    }
                }
            } else if let Some(j) = line.strip_prefix("X ") {
                g.2 += 1;
                let n = g.2;
                let v: Value = vcommon::serde_json::from_str(j).unwrap_or(Value::Null);
                g.0.sample(n, || v);
            }
        },
        |c| {
            let mut g = run_cell.lock().unwrap();
            // a dying child is a verdict only if it names the state it was executing
            let case: Value = c.state.split_once("case=").and_then(|(_, j)| vcommon::serde_json::from_str(j).ok()).unwrap_or(Value::Null);
            if case.is_null() {
                vcommon::machinery_error(&format!("sweep child {} died without a recorded state: {} {}", c.worker, c.status, c.stderr_tail));
            }
            let msg = c.stderr_tail.lines().filter(|l| !l.starts_with("CRASH-STATE")).last().unwrap_or("").to_string();
            let alloc_fail_huge = c
                .stderr_tail
                .split("memory allocation of ")
                .nth(1)
                .and_then(|x| x.split(' ').next())
                .and_then(|x| x.parse::<u128>().ok())
                .map(|n| n > (1 << 20))
                .unwrap_or(false);
            if prop == "C06" && (case["absurd_length"].as_bool() == Some(true) || alloc_fail_huge) && c.stderr_tail.contains("memory allocation of") {
                g.1.add("C06.oom_exempt", 1);
                return;
            }
            // a crash belongs to the round-trip property, and to the packed-path property when
            // it happened in a bulk context
            let bulk = case["context"].as_str() != Some("Single");
            if !(prop == "C01" || prop == "C03" || prop == "C18" || prop == "C05" || prop == "C07" || prop == "C08" || prop == "C14" || prop == "C06" || (prop == "C04" && bulk)) {
                return;
            }
            g.0.violation(vcommon::Violation {
                oracle: if c.status.contains("exit status: 142") || c.status.contains("(36352)") { "hang".into() } else { "process_abort".into() },
                tags: vcommon::tags(&[
                    ("context", case["context"].as_str().unwrap_or("").to_string()),
                    ("rust_type", case["rust_type"].as_str().unwrap_or("").to_string()),
                ]),
                summary: format!("process died ({}) while executing {} v{} {}/{}: {}", c.status, case["type"], case["version"], case["container"], case["context"], msg),
                case,
            });
        },
        200,
    );
    drop(run_cell);
    let mut cov = Map::new();
    let states = stats.0.get(&format!("{}.states", prop)).copied().unwrap_or(0);
    cov.insert("states".into(), json!(states));
    cov.insert("transitions".into(), json!(stats.0.get("transitions").copied().unwrap_or(0)));
    cov.insert("traces_validated_against_impl".into(), json!(states));
    cov.insert("evaluations".into(), json!(states));
    cov.insert("types".into(), json!(stats.0.get("types").copied().unwrap_or(0)));
    for (k, v) in &stats.0 {
        if k.starts_with(prop) || k == "not_representable_skipped" {
            cov.insert(k.replace('.', "_"), json!(v));
        }
    }
    cov
}

fn main() {
    vcommon::quiet_panics();
    let args = parse_args();
    let mut run = Run::new(&args, level_of(&args.property));
    let prop: &'static str = Box::leak(args.property.clone().into_boxed_str());
    if let Some(path) = &args.replay {
        replay(&mut run, prop, path);
    }
    if let Some(i) = args.extra.iter().position(|a| a == "--child") {
        let k: usize = args.extra[i + 1].parse().unwrap();
        let n: usize = args.extra[i + 2].parse().unwrap();
        let resume_pos: i64 = args.extra.iter().position(|a| a == "--resume-after").map(|j| args.extra[j + 1].parse().unwrap()).unwrap_or(-1);
        let resume_sno: u64 = args.extra.iter().position(|a| a == "--resume-sno").map(|j| args.extra[j + 1].parse().unwrap()).unwrap_or(0);
        match prop {
            "C01" | "C02" | "C04" | "C12" | "C03" | "C18" | "C05" | "C07" | "C08" | "C14" | "C06" => job_child(prop, args.tier == Tier::Thorough, k, n, (resume_pos, resume_sno)),
            _ => vcommon::machinery_error("no child mode for this property"),
        }
    }
    let cov = match prop {
        "C01" | "C02" | "C04" | "C12" => {
            let mut cov = run_sweep(&mut run, prop);
            let (rule, nontrivial) = match prop {
                "C01" => ("state = (type, version, value, container|bulk context); all are round trips", cov["states"].clone()),
                "C02" => ("state = (type, version, value, container); non-trivial = impl bytes compared with reference encoder", cov.get("C02_validated").cloned().unwrap_or(json!(0))),
                "C04" => ("non-trivial = type is declared packed at that version, or the context is a bulk container", json!(cov.get("C04_packed_yes_states").and_then(|v| v.as_u64()).unwrap_or(0) + cov.get("C04_bulk_states").and_then(|v| v.as_u64()).unwrap_or(0))),
                _ => ("state = (type, version, value) whose schema is inside the generic reader's domain", cov["states"].clone()),
            };
            cov.insert("rule".into(), json!(rule));
            cov.insert("distinct_nontrivial".into(), nontrivial);
            cov
        }
        "C06" => {
            let mut cov = run_sweep(&mut run, prop);
            let n = cov.get("C06_inputs").and_then(|v| v.as_u64()).unwrap_or(0);
            cov.insert("evaluations".into(), json!(n));
            cov.insert("distinct_nontrivial".into(), json!(n));
            cov.insert("rule".into(), json!("case = (type, api, context, one mutation of a valid encoding | byte string of length <= 2); every mutated input differs from the valid encoding"));
            cov.remove("states");
            cov.remove("traces_validated_against_impl");
            cov
        }
        "C07" | "C08" | "C14" => {
            let mut cov = run_sweep(&mut run, prop);
            let snapshot = cov.clone();
            let g = |k: &str| snapshot.get(k).and_then(|v| v.as_u64()).unwrap_or(0);
            let (evals, nontrivial, rule) = match prop {
                "C07" => (g("C07_cuts"), g("C07_cuts"), "case = (file of a (type,value,container) or file-API file, cut offset); every strict prefix is a distinct non-trivial case"),
                "C08" => (g("C08_executions"), g("C08_deviation_fired"), "case = (type, value, container, side, fault plan); non-trivial = the planned deviation was actually delivered to the operation (or a chunk schedule was active)"),
                _ => (g("C14_mutations"), g("C14_mutations"), "case = (encrypted file, single byte replacement | truncation | other password); every one differs from the intact file / right password"),
            };
            cov.insert("evaluations".into(), json!(evals));
            cov.insert("distinct_nontrivial".into(), json!(nontrivial));
            cov.insert("rule".into(), json!(rule));
            cov.remove("states");
            cov.remove("traces_validated_against_impl");
            cov
        }
        "C05" => {
            let mut cov = run_sweep(&mut run, prop);
            let snapshot = cov.clone();
            let g = |k: &str| snapshot.get(k).and_then(|v| v.as_u64()).unwrap_or(0);
            let (pairs, claimed, hdr) = (g("C05_pairs"), g("C05_must_reject") + g("C05_must_accept"), g("C05_header_mutations"));
            cov.insert("states".into(), json!(pairs + hdr));
            cov.insert("evaluations".into(), json!(pairs + hdr));
            cov.insert("traces_validated_against_impl".into(), json!(claimed + g("C05_header_must_reject")));
            cov.insert("distinct_nontrivial".into(), json!(claimed + g("C05_header_must_reject")));
            cov.insert("rule".into(), json!("state = ordered pair (saved type, loaded type) x value, or (file, header byte position, replacement byte); non-trivial = the model makes a claim (must-reject / must-accept; header: must fail before the payload)"));
            cov
        }
        "C03" | "C18" => {
            let mut cov = run_sweep(&mut run, prop);
            let (rule, key) = if prop == "C03" {
                ("state = (history node N, ancestor A on its path, value of A, container); non-trivial = A is a strict ancestor (at least one edit between the versions)", "C03_cross_version_states")
            } else {
                ("state = (history node N, strict ancestor A, value of N representable at A's version); every state crosses at least one edit", "C18_states")
            };
            cov.insert("rule".into(), json!(rule));
            let nt = cov.get(key).cloned().unwrap_or(json!(0));
            cov.insert("distinct_nontrivial".into(), nt);
            cov
        }
        other => vcommon::machinery_error(&format!("vseq does not serve property {}", other)),
    };
    let assumptions = vec![
        "the reference encoder/decoder in engine/model is a faithful reading of the documented format; it is compared with the implementation on every state".to_string(),
        "value dimension = boundary lists and bounded products (DESIGN.md §4)".to_string(),
    ];
    run.finish(cov, assumptions)
}

fn replay(run: &mut Run, prop: &'static str, path: &std::path::Path) -> ! {
    let text = std::fs::read_to_string(path).unwrap_or_else(|e| vcommon::machinery_error(&format!("replay file: {}", e)));
    let doc: Value = vcommon::serde_json::from_str(&text).unwrap_or_else(|e| vcommon::machinery_error(&format!("replay json: {}", e)));
    let case = &doc["case"];
    match case["kind"].as_str() {
        Some("sweep") => {
            let fam = case["family"].as_str().unwrap_or("");
            let rust = case["rust_type"].as_str().unwrap_or("");
            let entries = reg::family(fam);
            let Some(e) = entries.iter().find(|e| e.ty.rust() == rust) else {
                vcommon::machinery_error(&format!("replay: type {} not in family {}", rust, fam));
            };
            let ver = case["version"].as_u64().unwrap() as u32;
            let vals: Vec<vmodel::Val> = case["values"].as_array().unwrap().iter().map(valjson::from_json).collect();
            let ctx = vglue::ops::BULK_CTXS
                .iter()
                .copied()
                .find(|c| format!("{:?}", c) == case["context"].as_str().unwrap_or(""))
                .unwrap_or(vglue::ops::Ctx::Single);
            let mut out = vec![];
            let mut st = sweep::Stats::default();
            if ctx == vglue::ops::Ctx::Single {
                let c: Vec<Container> = ALL_CONTAINERS.iter().copied().filter(|c| format!("{:?}", c) == case["container"].as_str().unwrap_or("")).collect();
                vcommon::child::install_crash_handler();
                vcommon::child::set_state("replay");
                sweep::check_single(e, ver, &vals[0], &c, &mut out, &mut st);
            } else {
                sweep::check_bulk(e, ver, ctx, &vals, &mut out, &mut st);
            }
            for f in out {
                if f.props.contains(&prop) {
                    println!("REPLAY-FAIL oracle={} {}", f.v.oracle, f.v.summary);
                    run.violation(f.v);
                }
            }
        }
        Some(kind @ ("hist_load" | "hist_write_old")) => {
            let mut entries = reg::family("hist");
            let mut thorough = false;
            #[cfg(feature = "thorough")]
            {
                entries.extend(reg::family("hist_thorough"));
                thorough = true;
            }
            let h = histcheck::Hist::new(thorough, &entries);
            let find = |name: &str| h.nodes.iter().position(|n| n.ty.rust() == name).unwrap_or_else(|| vcommon::machinery_error(&format!("replay: node {} not in the history tree of this tier", name)));
            let node = find(case["node_type"].as_str().unwrap_or(""));
            let anc = find(case["ancestor_type"].as_str().unwrap_or(""));
            let val = valjson::from_json(&case["value"]);
            let mut out = vec![];
            let mut st = sweep::Stats::default();
            vcommon::child::install_crash_handler();
            vcommon::child::set_state("replay");
            if kind == "hist_load" {
                histcheck::check_load(&h, node, anc, &val, &[Container::Plain, Container::NoSchema, Container::Bare], &mut out, &mut st);
                histcheck::check_load_bulk(&h, node, anc, &[val.clone(), val.clone()], &mut out, &mut st);
            } else {
                histcheck::check_write_old(&h, node, anc, &val, &val, &mut out, &mut st);
            }
            for f in out {
                if f.props.contains(&prop) {
                    println!("REPLAY-FAIL oracle={} {}", f.v.oracle, f.v.summary);
                    run.violation(f.v);
                }
            }
        }
        Some("gate_pair") => {
            let find = |fam: &str, name: &str| reg::family(fam).into_iter().find(|e| e.ty.rust() == name).unwrap_or_else(|| vcommon::machinery_error(&format!("replay: type {} not in family {}", name, fam)));
            let s = find(case["saved_family"].as_str().unwrap_or(""), case["saved_type"].as_str().unwrap_or(""));
            let l = find(case["loaded_family"].as_str().unwrap_or(""), case["loaded_type"].as_str().unwrap_or(""));
            let val = valjson::from_json(&case["value"]);
            let mut out = vec![];
            let mut st = sweep::Stats::default();
            gate::check_pair(&s, &l, &val, &mut out, &mut st);
            for f in out {
                println!("REPLAY-FAIL oracle={} {}", f.v.oracle, f.v.summary);
                run.violation(f.v);
            }
        }
        Some("gate_header") => {
            let fam = case["family"].as_str().unwrap_or("");
            let e = reg::family(fam).into_iter().find(|e| e.ty.rust() == case["rust_type"].as_str().unwrap_or("")).unwrap_or_else(|| vcommon::machinery_error("replay: type not found"));
            let val = valjson::from_json(&case["value"]);
            let mut out = vec![];
            let mut st = sweep::Stats::default();
            gate::header_item(&e, &val, &mut out, &mut st);
            let (pos, byte) = (case["pos"].as_u64(), case["byte"].as_u64());
            for f in out {
                if f.v.case["pos"].as_u64() == pos && f.v.case["byte"].as_u64() == byte && f.v.case["container"] == case["container"] {
                    println!("REPLAY-FAIL oracle={} {}", f.v.oracle, f.v.summary);
                    run.violation(f.v);
                }
            }
        }
        Some("io") | Some("trunc") | Some("trunc_file") | Some("crypt") | Some("dev_full") => {
            let entries = job_entries("C07", false);
            let mut out = vec![];
            let mut st = sweep::Stats::default();
            vcommon::child::install_crash_handler();
            vcommon::child::set_state("replay");
            faults::replay_case(&entries, case, &mut out, &mut st);
            for f in out {
                println!("REPLAY-FAIL oracle={} {}", f.v.oracle, f.v.summary);
                run.violation(f.v);
            }
        }
        Some("malformed") => {
            let mut entries = job_entries("C06", false);
            #[cfg(feature = "thorough")]
            entries.extend(reg::family("types_thorough"));
            let mut out = vec![];
            let mut st = sweep::Stats::default();
            vcommon::child::install_crash_handler();
            vcommon::child::set_state("replay");
            malformed::replay_case(&entries, case, &mut out, &mut st);
            for f in out {
                println!("REPLAY-FAIL oracle={} {}", f.v.oracle, f.v.summary);
                run.violation(f.v);
            }
        }
        k => vcommon::machinery_error(&format!("replay: unknown case kind {:?}", k)),
    }
    let n = run.violations_found();
    println!("replay: {} violation(s) reproduced", n);
    std::process::exit(if n > 0 { 1 } else { 0 })
}
