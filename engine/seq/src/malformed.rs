//! C06: malformed input. Complete enumerations of stated finite mutation sets applied to valid
//! encodings (every byte x replacement values, every length field x boundary lengths, every
//! tag x all values, every truncation) and all byte strings of length <= 2.
use crate::reg::Entry;
use crate::sweep::{ctx_ty, ctx_val, CountR, Driver, Finding, Stats};
use crate::valjson::to_json;
use vcommon::serde_json::{json, Value};
use vcommon::{hex, tags, Violation};
use vglue::ops::{Container, Ctx, OpErr};
use vmodel::wire::{encode, min_wire_size, MarkKind};
use vmodel::*;

pub fn is_oom_msg(m: &str) -> bool {
    m.contains("capacity overflow") || m.contains("memory allocation") || m.contains("Failed to allocate") || m.contains("alloc::raw_vec") || m.contains("TryReserveError")
}

/// does a loaded value claim more elements than `input_len` bytes could encode?
fn oversized(ty: &Ty, v: &Val, ver: u32, input_len: usize) -> Option<String> {
    match (ty, v) {
        (Ty::Seq(_, t), Val::Seq(items)) => {
            let m = min_wire_size(t, ver);
            if m > 0 && items.len().saturating_mul(m) > input_len {
                return Some(format!("sequence of {} elements (>= {} bytes each) from {} input bytes", items.len(), m, input_len));
            }
            items.iter().take(64).find_map(|x| oversized(t, x, ver, input_len))
        }
        (Ty::Map(_, k, t), Val::Map(items)) => {
            let m = min_wire_size(k, ver) + min_wire_size(t, ver);
            if m > 0 && items.len().saturating_mul(m) > input_len {
                return Some(format!("map of {} entries from {} input bytes", items.len(), input_len));
            }
            None
        }
        (Ty::Prim(Prim::String), Val::Str(s)) if s.len() > input_len => Some(format!("string of {} bytes from {} input bytes", s.len(), input_len)),
        (Ty::Opt(t), Val::Some(x)) => oversized(t, x, ver, input_len),
        (Ty::Res(t, _), Val::Ok(x)) => oversized(t, x, ver, input_len),
        (Ty::Res(_, t), Val::Err(x)) => oversized(t, x, ver, input_len),
        (Ty::Wrap(_, t), x) => oversized(t, x, ver, input_len),
        // opaque library types (bit vectors / bit sets): the model does not define their bytes;
        // one element is one bit of the input at best
        (Ty::Lib(l), Val::Seq(items)) if l.opaque => {
            if items.len() > input_len.saturating_mul(8) {
                return Some(format!("{} of {} elements from {} input bytes", l.key, items.len(), input_len));
            }
            None
        }
        (Ty::Lib(l), x) => oversized(&l.wire, x, ver, input_len),
        (Ty::Array(t, _), Val::Seq(items)) => items.iter().find_map(|x| oversized(t, x, ver, input_len)),
        (Ty::Tuple(ts), Val::Tuple(items)) => ts.iter().zip(items).find_map(|(t, x)| oversized(t, x, ver, input_len)),
        (Ty::Def(d), Val::Struct(items)) => match &d.kind {
            // fields absent at this data version hold their declared default, which does not come from the input
            DefKind::Struct(s) => s.fields.iter().zip(items).filter(|(f, _)| f.removed == RemovedKind::No && f.present_at(ver)).find_map(|(f, x)| oversized(&f.ty, x, ver, input_len)),
            _ => None,
        },
        (Ty::Def(d), Val::Variant(i, items)) => match &d.kind {
            DefKind::Enum(e) => e.variants.get(*i as usize).and_then(|var| var.fields.iter().zip(items).filter(|(f, _)| f.removed == RemovedKind::No && f.present_at(ver)).find_map(|(f, x)| oversized(&f.ty, x, ver, input_len))),
            _ => None,
        },
        _ => None,
    }
}

pub struct Target<'a> {
    pub e: &'a Entry,
    pub ver: u32,
    pub c: Container,
    pub ctx: Ctx,
    /// the (context) type decoded by the load
    pub ty: Ty,
    /// the constant part of the case description (describing a big type is expensive)
    pub head: String,
}
impl<'a> Target<'a> {
    pub fn new(e: &'a Entry, ver: u32, c: Container, ctx: Ctx, ty: Ty) -> Target<'a> {
        let j = json!({"kind": "malformed", "family": e.family, "rust_type": e.ty.rust(), "type": e.ty.describe(), "version": ver,
            "container": format!("{:?}", c), "context": format!("{:?}", ctx)});
        let mut head = j.to_string();
        head.pop(); // the closing brace; judge appends the variable part
        Target { e, ver, c, ctx, ty, head }
    }
}

fn case_text(t: &Target, mutation: &str, input: &[u8], absurd: bool) -> String {
    format!("{},\"mutation\":{:?},\"input\":\"{}\",\"absurd_length\":{}}}", t.head, mutation, hex(input), absurd)
}
fn case_json(t: &Target, mutation: &str, input: &[u8], absurd: bool) -> Value {
    vcommon::serde_json::from_str(&case_text(t, mutation, input, absurd)).unwrap_or(Value::Null)
}

/// run one malformed input through the loader and judge the outcome
pub fn judge(t: &Target, input: &[u8], mutation: &str, absurd: bool, out: &mut Vec<Finding>, st: &mut Stats, d: &mut Driver) {
    d.sno += 1;
    if d.sno <= d.skip_through {
        return;
    }
    vcommon::child::set_state(&format!("pos={} sno={} case={}", d.pos, d.sno, case_text(t, mutation, input, absurd)));
    st.add("C06.inputs", 1);
    st.add("transitions", 1);
    let mut r = CountR { data: input, pos: 0 };
    let probe0 = vglue::probe::snapshot();
    let res = t.e.ops.load(t.c, t.ver, t.ctx, &mut r);
    let probe1 = vglue::probe::snapshot();
    let mut bad: Option<(&str, String)> = None;
    // destructor accounting of the probe element type: whatever the loader built it must drop at
    // most once, and it must never drop what it did not build (an uninitialised array slot)
    let (made, dropped, garbage) = (probe1.0 - probe0.0, probe1.1 - probe0.1, probe1.2 - probe0.2);
    if dropped > made || garbage > 0 {
        bad = Some(("destructor_on_uninitialized", format!("{} destructors ran for {} values constructed ({} on memory that never held a value)", dropped, made, garbage)));
    }
    match &res {
        _ if bad.is_some() => {}
        Err(OpErr::Panic(m)) => {
            // an allocation request far beyond anything a (tiny) input can encode is the
            // out-of-memory class the property exempts
            let requested: Option<u128> = m.split(|c: char| !c.is_ascii_digit()).filter(|x| !x.is_empty()).filter_map(|x| x.parse().ok()).next();
            let huge = requested.map(|n| n > (1 << 20)).unwrap_or(true);
            if is_oom_msg(m) && (absurd || huge) {
                st.add("C06.oom_exempt", 1);
            } else {
                bad = Some(("malformed_input_panic", format!("panic: {}", m)));
            }
        }
        Err(_) => st.add("C06.rejected", 1),
        Ok(l) => {
            st.add("C06.accepted", 1);
            if !l.raw.is_empty() {
                bad = Some(("invalid_bit_pattern", l.raw.join("; ")));
            } else {
                let v = ctx_val(t.ctx, &l.vals);
                if let Some(m) = oversized(&t.ty, &v, t.ver, input.len()) {
                    bad = Some(("oversized_collection", m));
                }
            }
        }
    }
    if let Some((oracle, msg)) = bad {
        let mkind = mutation.split(' ').next().unwrap_or("").to_string();
        let mut case = case_json(t, mutation, input, absurd);
        case["message"] = json!(msg);
        out.push(Finding {
            props: &["C06"],
            v: Violation {
                oracle: oracle.to_string(),
                tags: tags(&[
                    ("type_features", t.e.ty.feature_string()),
                    ("lib_type", match &t.e.ty {
                        Ty::Lib(l) => l.key.clone(),
                        _ => String::new(),
                    }),
                    ("container", format!("{:?}", t.c)),
                    ("context", format!("{:?}", t.ctx)),
                    ("mutation_kind", mkind),
                    ("packed", t.e.ops.packed(t.ver).to_string()),
                    ("panic_site", msg.rsplit(" @ ").next().unwrap_or("").to_string()),
                    ("pattern_kind", if msg.starts_with("bool holds") { "bool" } else if msg.starts_with("char holds") { "char" } else if msg.starts_with("enum ") { "enum_tag" } else { "" }.to_string()),
                    ("bulk_path", (t.ctx != Ctx::Single || !matches!(t.e.ty, Ty::Def(_) | Ty::Prim(_))).to_string()),
                ]),
                summary: format!("{} {:?}/{:?} {}: {}", t.e.ty.describe(), t.c, t.ctx, mutation, msg.chars().take(300).collect::<String>()),
                case,
            },
        });
    }
    for f in out.drain(..) {
        (d.emit)(f);
    }
}

pub fn boundary_lengths(n: u64, elem: u64) -> Vec<u64> {
    let mut v = vec![0, 1, n.wrapping_sub(1), n + 1, 255, 256, 65_536, 1_000_000, 1_000_001, 1 << 31, 1 << 32, 1 << 61, (1 << 62) + 1, (1u64 << 63) - 1, 1 << 63, u64::MAX];
    if elem > 1 {
        let q = (u64::MAX / elem).wrapping_add(1); // smallest count whose byte size wraps
        v.extend([q, q + 1, q - 1]);
    }
    v.sort();
    v.dedup();
    v.retain(|x| *x != n);
    v
}

fn byte_values(orig: u8, thorough: bool) -> Vec<u8> {
    if thorough {
        return (0..=255u8).filter(|b| *b != orig).collect();
    }
    let mut v = vec![0, 1, 2, 3, 4, 8, 0x10, 0x20, 0x40, 0x7f, 0x80, 0xfe, 0xff, orig ^ 1, orig.wrapping_add(1), orig ^ 0x80];
    v.sort();
    v.dedup();
    v.retain(|b| *b != orig);
    v
}

/// does the mutated input declare, in any length field of the original layout, more data than
/// the input holds (and more than 1 MiB)? Only used to classify allocation failures.
fn declares_absurd_length(m: &[u8], marks: &[vmodel::wire::Mark], payload_at: usize) -> bool {
    for mk in marks {
        if !matches!(mk.kind, MarkKind::StrLen | MarkKind::SeqLen) {
            continue;
        }
        let pos = payload_at + mk.pos;
        if pos + 8 > m.len() {
            continue;
        }
        let n = u64::from_le_bytes(m[pos..pos + 8].try_into().unwrap());
        let remaining = (m.len() - pos - 8) as u64;
        let declared = n.saturating_mul(mk.elem_min.max(1) as u64);
        if declared > remaining && declared > (1 << 20) {
            return true;
        }
    }
    false
}

/// all mutations of one valid encoding
pub fn mutate_encoding(t: &Target, vals: &[Val], thorough: bool, out: &mut Vec<Finding>, st: &mut Stats, d: &mut Driver) {
    let cval = ctx_val(t.ctx, vals);
    let mut bytes = vec![];
    let mut opaque = false;
    let enc = match encode(&t.ty, &cval, t.ver) {
        Ok(e) => e,
        Err(vmodel::wire::WireErr::Opaque) => {
            // no model of the bytes: mutate the implementation's own encoding, no field map
            if t.e.ops.save(t.c, t.ver, t.ctx, vals, &mut bytes).is_err() {
                return;
            }
            opaque = true;
            vmodel::wire::Enc { bytes: if t.c == Container::Bare { bytes.clone() } else { vec![] }, marks: vec![] }
        }
        Err(_) => return,
    };
    if bytes.is_empty() && (t.e.ops.save(t.c, t.ver, t.ctx, vals, &mut bytes).is_err() || bytes.len() < enc.bytes.len()) {
        return;
    }
    st.add("C06.encodings", 1);
    let payload_at = bytes.len() - enc.bytes.len();
    // (a) every byte position x replacement values
    let lim = if thorough { 160 } else { 96 };
    let region: Vec<usize> = if bytes.len() <= lim { (0..bytes.len()).collect() } else { (0..32.min(payload_at)).chain(payload_at..bytes.len().min(payload_at + lim)).collect() };
    // quick tier: the upper six bytes of a length field are left to the systematic length
    // mutations (b); every replacement there declares > 65535 elements and mostly ends in the
    // same allocation failure (a process restart each)
    let len_high: Vec<usize> = enc
        .marks
        .iter()
        .filter(|m| matches!(m.kind, MarkKind::StrLen | MarkKind::SeqLen))
        .flat_map(|m| (payload_at + m.pos + 2)..(payload_at + m.pos + 8))
        .collect();
    // opaque (bit vector) encodings: recognise the pair (bit count, byte count | 1<<63) by its
    // shape; only used to choose mutations (a wrong guess changes which inputs are tried, not
    // how an input is judged)
    let opaque_lens: Vec<usize> = if opaque { (8..bytes.len().saturating_sub(7)).filter(|p| bytes[p + 7] == 0x80 && bytes[p + 2..p + 7].iter().all(|b| *b == 0) && bytes[p - 6..*p].iter().all(|b| *b == 0)).collect() } else { vec![] };
    let len_high: Vec<usize> = len_high.into_iter().chain(opaque_lens.iter().flat_map(|p| (p - 6..*p).chain(p + 2..p + 7))).collect();
    for pos in region {
        if !thorough && len_high.contains(&pos) {
            st.add("C06.len_high_bytes_left_to_length_mutations", 1);
            continue;
        }
        for b in byte_values(bytes[pos], thorough) {
            let mut m = bytes.clone();
            m[pos] = b;
            let absurd = declares_absurd_length(&m, &enc.marks, payload_at);
            judge(t, &m, &format!("byte {}:={:#04x}", pos, b), absurd, out, st, d);
        }
    }
    for p in &opaque_lens {
        let bits = u64::from_le_bytes(bytes[p - 8..*p].try_into().unwrap());
        let nbytes = u64::from_le_bytes(bytes[*p..p + 8].try_into().unwrap()) & !(1 << 63);
        for n in boundary_lengths(bits, 1) {
            let mut m = bytes.clone();
            m[p - 8..*p].copy_from_slice(&n.to_le_bytes());
            judge(t, &m, &format!("bits @{} {}->{}", p - 8, bits, n), n > (1 << 40), out, st, d);
        }
        for n in boundary_lengths(nbytes, 8).into_iter().chain([nbytes + 4, nbytes.wrapping_sub(4), 4, 8, 1 << 20, (1 << 20) + 4, 1 << 60]) {
            for flag in [1u64 << 63, 0] {
                let mut m = bytes.clone();
                m[*p..p + 8].copy_from_slice(&(n | flag).to_le_bytes());
                if m != bytes {
                    judge(t, &m, &format!("bytes @{} {}->{}|{:#x}", p, nbytes, n, flag), n > (1 << 40), out, st, d);
                }
            }
        }
    }
    // (b) length fields x boundary lengths, (c) tags / discriminants x values
    for mk in &enc.marks {
        let pos = payload_at + mk.pos;
        match mk.kind {
            MarkKind::StrLen | MarkKind::SeqLen => {
                for n in boundary_lengths(mk.n, mk.elem_min as u64) {
                    let mut m = bytes.clone();
                    m[pos..pos + 8].copy_from_slice(&n.to_le_bytes());
                    let absurd = declares_absurd_length(&m, &enc.marks, payload_at) || n > (1 << 40);
                    judge(t, &m, &format!("len @{} {}->{}", pos, mk.n, n), absurd, out, st, d);
                }
            }
            MarkKind::Tag | MarkKind::Discr | MarkKind::Bool => {
                let w = mk.width;
                let vals: Vec<u64> = if w == 1 {
                    (0..=255u64).collect()
                } else {
                    let top = if w == 2 { 0xffffu64 } else { 0xffff_ffff };
                    vec![0, 1, 2, mk.n.saturating_sub(1), mk.n, mk.n + 1, 255, 256, 257, 0x7fff, 0x8000, top - 1, top, 1 << 16, (1u64 << 31).min(top)]
                };
                for x in vals {
                    let mut m = bytes.clone();
                    m[pos..pos + w].copy_from_slice(&x.to_le_bytes()[..w]);
                    if m == bytes {
                        continue;
                    }
                    judge(t, &m, &format!("tag @{} w{} :={}", pos, w, x), false, out, st, d);
                }
            }
            MarkKind::Char => {
                for x in [0xD800u32, 0xDFFF, 0x110000, 0xFFFF_FFFF, 0x8000_0000] {
                    let mut m = bytes.clone();
                    m[pos..pos + 4].copy_from_slice(&x.to_le_bytes());
                    judge(t, &m, &format!("char @{} :={:#x}", pos, x), false, out, st, d);
                }
            }
        }
    }
    // (d) every truncation
    for cut in 0..bytes.len() {
        judge(t, &bytes[..cut], &format!("truncate {}", cut), false, out, st, d);
    }
    // (e) the schema section replaced by every single structural mutation of its tree
    // (a different but well-formed schema: the comparison with the program's schema must
    // answer, not crash)
    if t.c == Container::Plain && !opaque && payload_at > vmodel::wire::HEADER_LEN {
        let h = vmodel::wire::HEADER_LEN;
        if let Ok((rs, used)) = vmodel::schema::decode_schema(&bytes[h..payload_at], 2) {
            if used == payload_at - h {
                for (label, m) in crate::schemamut::mutations(&rs) {
                    let mut f = bytes[..h].to_vec();
                    f.extend(vmodel::schema::encode_schema(&m, 2));
                    f.extend_from_slice(&bytes[payload_at..]);
                    st.add("C06.schema_mutations", 1);
                    judge(t, &f, &format!("schema {}", label), false, out, st, d);
                }
            }
        }
    }
}

pub fn short_strings(t: &Target, out: &mut Vec<Finding>, st: &mut Stats, d: &mut Driver) {
    judge(t, &[], "string len0", false, out, st, d);
    for a in 0..=255u8 {
        judge(t, &[a], "string len1", false, out, st, d);
    }
    for a in 0..=255u8 {
        for b in 0..=255u8 {
            judge(t, &[a, b], "string len2", false, out, st, d);
        }
    }
}

pub fn mal_entries(entries: &[Entry], thorough: bool) -> Vec<&Entry> {
    entries.iter().enumerate().filter(|(i, e)| e.family == "lib" || thorough || i % 8 == 0).map(|(_, e)| e).collect()
}

pub fn items(entries: &[Entry], thorough: bool) -> usize {
    mal_entries(entries, thorough).len()
}

pub fn run_item(entries: &[Entry], thorough: bool, pos: usize, d: &mut Driver, st: &mut Stats) -> Value {
    vcommon::child::limit_memory_above_current(1 << 29);
    let list = mal_entries(entries, thorough);
    let e = list[pos];
    let ver = e.ty.max_version();
    let vals = vmodel::values::values(&e.ty, 12);
    let mut out = vec![];
    if vals.is_empty() {
        return json!({"type": e.ty.describe(), "skipped": "no values"});
    }
    let mut picks = vec![vals[vals.len() - 1].clone(), vals[vals.len() / 2].clone()];
    if thorough {
        picks.push(vals[0].clone());
    }
    picks.dedup();
    st.add("types", 1);
    for v in &picks {
        for c in [Container::Bare, Container::NoSchema, Container::Plain] {
            let t = Target::new(e, ver, c, Ctx::Single, e.ty.clone());
            mutate_encoding(&t, std::slice::from_ref(v), thorough, &mut out, st, d);
        }
    }
    // data of OLDER versions read by the newest definition (fields and variants that do not exist
    // yet at that version: a damaged tag may name one of them)
    let old_versions: Vec<u32> = if thorough { (0..ver).collect() } else if ver > 0 { vec![0] } else { vec![] };
    for ov in old_versions {
        let ok: Vec<&Val> = vals.iter().filter(|v| vmodel::values::representable_at(&e.ty, v, ov)).collect();
        if ok.is_empty() {
            continue;
        }
        let mut old_picks = vec![ok[ok.len() - 1].clone(), ok[ok.len() / 2].clone()];
        old_picks.dedup();
        st.add("C06.old_version_targets", 1);
        for v in &old_picks {
            for c in [Container::Bare, Container::NoSchema] {
                let t = Target::new(e, ov, c, Ctx::Single, e.ty.clone());
                mutate_encoding(&t, std::slice::from_ref(v), thorough, &mut out, st, d);
            }
        }
    }
    // bulk containers (the packed path) of derived types and primitives
    if matches!(&e.ty, Ty::Def(_) | Ty::Prim(_)) || matches!(&e.ty, Ty::Lib(l) if l.key == "DropProbe") {
        for ctx in [Ctx::Vec, Ctx::Array3, Ctx::ArrayVec4, Ctx::BoxSlice] {
            let l: Vec<Val> = (0..3).map(|i| vals[(vals.len() - 1 + i) % vals.len()].clone()).collect();
            let t = Target::new(e, ver, Container::Bare, ctx, ctx_ty(ctx, &e.ty));
            mutate_encoding(&t, &l, thorough, &mut out, st, d);
        }
    }
    if thorough || pos % 12 == 0 {
        let t = Target::new(e, ver, Container::Bare, Ctx::Single, e.ty.clone());
        short_strings(&t, &mut out, st, d);
        st.add("C06.short_string_types", 1);
    }
    json!({"type": e.ty.describe(), "values": picks.iter().map(to_json).collect::<Vec<_>>(), "apis": ["bare_deserialize", "load_noschema", "load"]})
}

/// re-execute exactly one recorded malformed input
pub fn replay_case(entries: &[Entry], case: &Value, out: &mut Vec<Finding>, st: &mut Stats) {
    let e = entries.iter().find(|e| e.ty.rust() == case["rust_type"].as_str().unwrap_or("")).unwrap_or_else(|| vcommon::machinery_error("replay: type not found"));
    let c = [Container::Bare, Container::NoSchema, Container::Plain].into_iter().find(|c| format!("{:?}", c) == case["container"].as_str().unwrap_or("")).unwrap_or(Container::Bare);
    let ctx = vglue::ops::BULK_CTXS.iter().copied().find(|x| format!("{:?}", x) == case["context"].as_str().unwrap_or("")).unwrap_or(Ctx::Single);
    let ver = case["version"].as_u64().unwrap_or(0) as u32;
    let t = Target::new(e, ver, c, ctx, ctx_ty(ctx, &e.ty));
    let input = vcommon::unhex(case["input"].as_str().unwrap_or(""));
    vcommon::child::limit_memory_above_current(1 << 29);
    let mut emit = |_f: Finding| {};
    let mut d = Driver { pos: 0, skip_through: 0, sno: 0, emit: &mut emit };
    let mut sink = vec![];
    // judge() drains `out` into the driver's emitter; collect through a local emitter instead
    let mut collected: Vec<Finding> = vec![];
    {
        let mut emit2 = |f: Finding| collected.push(f);
        let mut d2 = Driver { pos: 0, skip_through: 0, sno: 0, emit: &mut emit2 };
        judge(&t, &input, case["mutation"].as_str().unwrap_or("replay"), case["absurd_length"].as_bool().unwrap_or(false), &mut sink, st, &mut d2);
    }
    let _ = &mut d;
    out.extend(collected);
}
