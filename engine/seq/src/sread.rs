//! C12: a generic reader driven only by the real `savefile::Schema`. It turns serialized bytes
//! into a flat token stream; the model produces the token stream of the value independently.
use vglue::savefile::prelude::{Schema, SchemaPrimitive};
use vmodel::wire::field_default;
use vmodel::*;

#[derive(Clone, Debug, PartialEq, Eq)]
pub enum Tok {
    /// fixed width primitive: (width, little endian value)
    P(usize, u128),
    Str(Vec<u8>),
    /// length prefix
    Len(u64),
    /// option tag / enum discriminant: (width, value)
    D(usize, u64),
}

pub struct Cur<'a> {
    pub b: &'a [u8],
    pub pos: usize,
}
impl Cur<'_> {
    fn le(&mut self, n: usize) -> Result<u128, String> {
        if self.b.len() - self.pos < n {
            return Err(format!("schema-driven reader ran out of input at {} (+{})", self.pos, n));
        }
        let mut buf = [0u8; 16];
        buf[..n].copy_from_slice(&self.b[self.pos..self.pos + n]);
        self.pos += n;
        Ok(u128::from_le_bytes(buf))
    }
}

pub fn prim_width(p: &SchemaPrimitive) -> Option<usize> {
    use SchemaPrimitive::*;
    Some(match p {
        schema_i8 | schema_u8 | schema_bool => 1,
        schema_i16 | schema_u16 => 2,
        schema_i32 | schema_u32 | schema_f32 | schema_canary1 | schema_char => 4,
        schema_i64 | schema_u64 | schema_f64 => 8,
        schema_i128 | schema_u128 => 16,
        schema_string(_) => return None,
    })
}

pub fn sread(s: &Schema, c: &mut Cur, out: &mut Vec<Tok>, depth: usize) -> Result<(), String> {
    if depth > 64 {
        return Err("schema nesting too deep".into());
    }
    match s {
        Schema::Struct(st) => {
            for f in &st.fields {
                sread(&f.value, c, out, depth + 1)?;
            }
            Ok(())
        }
        Schema::Enum(e) => {
            let w = e.discriminant_size as usize;
            if ![1, 2, 4].contains(&w) {
                return Err(format!("enum schema with discriminant size {}", w));
            }
            let d = c.le(w)? as u64;
            out.push(Tok::D(w, d));
            let matching: Vec<_> = e.variants.iter().filter(|v| v.discriminant as u64 == d).collect();
            if matching.len() != 1 {
                return Err(format!(
                    "enum schema {}: {} variants carry discriminant {} (need exactly 1 of {})",
                    e.dbg_name,
                    matching.len(),
                    d,
                    e.variants.len()
                ));
            }
            for f in &matching[0].fields {
                sread(&f.value, c, out, depth + 1)?;
            }
            Ok(())
        }
        Schema::Primitive(p) => {
            match prim_width(p) {
                Some(w) => out.push(Tok::P(w, c.le(w)?)),
                None => {
                    let n = c.le(8)? as usize;
                    if c.b.len() - c.pos < n {
                        return Err("string longer than input".into());
                    }
                    out.push(Tok::Str(c.b[c.pos..c.pos + n].to_vec()));
                    c.pos += n;
                }
            }
            Ok(())
        }
        Schema::Vector(inner, _) => {
            let n = c.le(8)? as u64;
            out.push(Tok::Len(n));
            if n > (c.b.len() as u64 + 1) * 8 && inner.serialized_size() != Some(0) {
                return Err(format!("vector length {} exceeds input", n));
            }
            for _ in 0..n {
                sread(inner, c, out, depth + 1)?;
            }
            Ok(())
        }
        Schema::Array(a) => {
            for _ in 0..a.count {
                sread(&a.item_type, c, out, depth + 1)?;
            }
            Ok(())
        }
        Schema::SchemaOption(inner) => {
            let t = c.le(1)? as u64;
            out.push(Tok::D(1, t));
            match t {
                0 => Ok(()),
                1 => sread(inner, c, out, depth + 1),
                _ => Err(format!("option tag {}", t)),
            }
        }
        Schema::ZeroSize => Ok(()),
        Schema::Boxed(inner) | Schema::Reference(inner) => sread(inner, c, out, depth + 1),
        Schema::Slice(inner) => {
            let n = c.le(8)? as u64;
            out.push(Tok::Len(n));
            for _ in 0..n {
                sread(inner, c, out, depth + 1)?;
            }
            Ok(())
        }
        Schema::Str => {
            let n = c.le(8)? as usize;
            if c.b.len() - c.pos < n {
                return Err("str longer than input".into());
            }
            out.push(Tok::Str(c.b[c.pos..c.pos + n].to_vec()));
            c.pos += n;
            Ok(())
        }
        Schema::Recursion(n) => Err(format!("recursion marker Recursion({}) in the schema of a non-recursive type", n)),
        other => Err(format!("schema node {} is outside the generic reader's domain", other.top_level_description())),
    }
}

/// true if the reader's domain covers the schema (Custom / Undefined / traits are excluded)
pub fn in_domain(s: &Schema) -> bool {
    match s {
        Schema::Struct(st) => st.fields.iter().all(|f| in_domain(&f.value)),
        Schema::Enum(e) => e.variants.iter().all(|v| v.fields.iter().all(|f| in_domain(&f.value))),
        Schema::Primitive(_) | Schema::ZeroSize | Schema::Str | Schema::Recursion(_) => true,
        Schema::Vector(i, _) | Schema::SchemaOption(i) | Schema::Boxed(i) | Schema::Reference(i) | Schema::Slice(i) => in_domain(i),
        Schema::Array(a) => in_domain(&a.item_type),
        _ => false,
    }
}

/// token stream of a value according to the model (what a faithful schema must make a generic
/// reader see)
pub fn model_tokens(ty: &Ty, v: &Val, ver: u32, out: &mut Vec<Tok>) {
    match (ty, v) {
        (Ty::Prim(p), v) => match (p, v) {
            (Prim::Unit, _) => {}
            (Prim::String, Val::Str(s)) => out.push(Tok::Str(s.as_bytes().to_vec())),
            (Prim::Bool, Val::Bool(b)) => out.push(Tok::P(1, *b as u128)),
            (Prim::Char, Val::Char(c)) => out.push(Tok::P(4, *c as u128)),
            (Prim::F32, Val::F32(b)) => out.push(Tok::P(4, *b as u128)),
            (Prim::F64, Val::F64(b)) => out.push(Tok::P(8, *b as u128)),
            (p, Val::U(x)) => out.push(Tok::P(p.wire_size().unwrap(), *x)),
            (p, Val::I(x)) => {
                let w = p.wire_size().unwrap();
                let mask = if w == 16 { u128::MAX } else { (1u128 << (8 * w)) - 1 };
                out.push(Tok::P(w, (*x as u128) & mask))
            }
            _ => panic!("model_tokens shape"),
        },
        (Ty::Opt(_), Val::None) => out.push(Tok::D(1, 0)),
        (Ty::Opt(t), Val::Some(x)) => {
            out.push(Tok::D(1, 1));
            model_tokens(t, x, ver, out)
        }
        (Ty::Res(t, _), Val::Ok(x)) => {
            out.push(Tok::D(1, 1));
            model_tokens(t, x, ver, out)
        }
        (Ty::Res(_, t), Val::Err(x)) => {
            out.push(Tok::D(1, 0));
            model_tokens(t, x, ver, out)
        }
        (Ty::Wrap(_, t), x) => model_tokens(t, x, ver, out),
        (Ty::Lib(l), x) => model_tokens(&l.wire, x, ver, out),
        (Ty::Seq(_, t), Val::Seq(items)) => {
            out.push(Tok::Len(items.len() as u64));
            for x in items {
                model_tokens(t, x, ver, out)
            }
        }
        (Ty::Map(_, kt, vt), Val::Map(items)) => {
            out.push(Tok::Len(items.len() as u64));
            for (k, x) in items {
                model_tokens(kt, k, ver, out);
                model_tokens(vt, x, ver, out)
            }
        }
        (Ty::Array(t, _), Val::Seq(items)) => {
            for x in items {
                model_tokens(t, x, ver, out)
            }
        }
        (Ty::Tuple(ts), Val::Tuple(items)) => {
            for (t, x) in ts.iter().zip(items) {
                model_tokens(t, x, ver, out)
            }
        }
        (Ty::Def(d), v) => {
            let fields_tokens = |fields: &[Field], items: &[Val], out: &mut Vec<Tok>| {
                for (f, x) in fields.iter().zip(items) {
                    if !f.present_at(ver) {
                        continue;
                    }
                    match f.removed {
                        RemovedKind::No => model_tokens(&f.ty, x, ver, out),
                        _ => model_tokens(&f.ty, &field_default(f), ver, out),
                    }
                }
            };
            match (&d.kind, v) {
                (DefKind::Struct(s), Val::Struct(items)) => fields_tokens(&s.fields, items, out),
                (DefKind::Enum(e), Val::Variant(i, items)) => {
                    out.push(Tok::D(e.wire_width(), *i as u64));
                    fields_tokens(&e.variants[*i as usize].fields, items, out)
                }
                _ => panic!("model_tokens shape"),
            }
        }
        _ => panic!("model_tokens shape {:?} / {:?}", ty.describe(), v),
    }
}
