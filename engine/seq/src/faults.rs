//! Fault enumeration engines: C07 (every truncation), C08 (every I/O call x every environment
//! answer, chunk schedules), C14 (every byte x every value of encrypted files, passwords).
use crate::reg::Entry;
use crate::sweep::{CountR, Driver, Finding, Stats};
use crate::valjson::to_json;
use vcommon::serde_json::{json, Value};
use vcommon::{hex, tags, Scratch, Violation};
use vglue::fileops::{file_cases, Dev, FaultR, FaultW, FileCase, FileKind, Plan, FILE_KINDS};
use vglue::ops::{Container, Ctx, OpErr, PASSWORD};
use vmodel::*;

const CONTAINERS: [Container; 4] = [Container::Plain, Container::NoSchema, Container::Compressed, Container::Encrypted];

/// deterministic incompressible bytes
pub fn noise(n: usize) -> Vec<u8> {
    let mut x: u64 = 0x9E37_79B9_7F4A_7C15;
    (0..n)
        .map(|_| {
            x ^= x << 13;
            x ^= x >> 7;
            x ^= x << 17;
            (x >> 24) as u8
        })
        .collect()
}

/// the (entry, value) cases of the fault engines
pub fn cases<'a>(entries: &'a [Entry], thorough: bool, per_entry: usize) -> Vec<(&'a Entry, Val)> {
    let mut out = vec![];
    for (i, e) in entries.iter().enumerate() {
        let take = e.family == "lib" || i % if thorough { 3 } else { 10 } == 0 || (per_entry >= 3 && e.ty.feature_string().contains("versioned_field"));
        if !take {
            continue;
        }
        let vals = vmodel::values::values(&e.ty, 16);
        if vals.is_empty() {
            continue;
        }
        let mut picks = vec![vals[0].clone(), vals[vals.len() - 1].clone(), vals[vals.len() / 2].clone()];
        picks.dedup();
        picks.truncate(per_entry);
        for v in picks {
            out.push((e, v));
        }
    }
    out
}

fn viol(props: &'static [&'static str], oracle: &str, tagv: &[(&str, String)], summary: String, case: Value) -> Finding {
    Finding {
        props,
        v: Violation {
            oracle: oracle.to_string(),
            tags: tags(tagv),
            summary,
            case,
        },
    }
}

fn op_msg(e: &OpErr) -> String {
    match e {
        OpErr::Savefile(_, m) => m.chars().take(200).collect(),
        OpErr::Panic(m) => format!("PANIC: {}", m),
        OpErr::Unsupported => "unsupported".into(),
    }
}

fn begin(d: &mut Driver, kind: &str, what: &str, c: &str, v: &Val) -> bool {
    d.sno += 1;
    if d.sno <= d.skip_through {
        return false;
    }
    vcommon::child::set_state(&format!(
        "pos={} sno={} case={}",
        d.pos,
        d.sno,
        json!({"kind": kind, "type": what, "rust_type": what, "version": 0, "container": c, "context": "Single",
            "value": if matches!(v, Val::Seq(x) if x.len() > 200) { json!("<big sequence>") } else if matches!(v, Val::Str(x) if x.len() > 2000) { json!("<big string>") } else { to_json(v) }})
    ));
    true
}

// =============================================================================== C07

/// cut offsets for a file of `len` bytes: all of them for small files, a stated subset for big
pub fn cut_offsets(len: usize, thorough: bool) -> Vec<usize> {
    if len <= 4096 {
        return (0..len).collect();
    }
    let edge = if thorough { 4096 } else { 64 };
    let near = if thorough { 64 } else { 8 };
    let stride = if thorough { 97 } else { 40_009 };
    let mut v: Vec<usize> = (0..edge).chain(len - edge..len).collect();
    // around every crypto chunk boundary (12 byte nonce, chunks of 8 + 100000 + 16 bytes)
    let mut b = 12usize;
    while b < len {
        v.extend((b.saturating_sub(near)..(b + near).min(len)).collect::<Vec<_>>());
        b += 8 + 100_000 + 16;
    }
    v.extend((0..len).step_by(stride));
    v.sort();
    v.dedup();
    v
}

pub fn trunc_case(e: &Entry, val: &Val, ver: u32, thorough: bool, out: &mut Vec<Finding>, st: &mut Stats, d: &mut Driver) {
    trunc_case_in(e, val, ver, thorough, &CONTAINERS, out, st, d)
}
#[allow(clippy::too_many_arguments)]
pub fn trunc_case_in(e: &Entry, val: &Val, ver: u32, thorough: bool, containers: &[Container], out: &mut Vec<Finding>, st: &mut Stats, d: &mut Driver) {
    let want = canon(&e.ty, val);
    for &c in containers {
        if !begin(d, "trunc", &e.ty.rust(), &format!("{:?}", c), val) {
            continue;
        }
        let mut bytes = vec![];
        if e.ops.save(c, ver, Ctx::Single, std::slice::from_ref(val), &mut bytes).is_err() {
            continue;
        }
        st.add("C07.files", 1);
        for cut in cut_offsets(bytes.len(), thorough) {
            st.add("C07.cuts", 1);
            st.add("transitions", 1);
            let mut r = CountR { data: &bytes[..cut], pos: 0 };
            let res = e.ops.load(c, ver, Ctx::Single, &mut r);
            let bad = match &res {
                Err(OpErr::Panic(m)) => Some(("truncation_panic", format!("panic: {}", m))),
                Err(_) => {
                    st.add("C07.rejected", 1);
                    None
                }
                Ok(l) => {
                    if l.raw.is_empty() && l.vals.first().map(|v| canon(&e.ty, v)) == Some(want.clone()) {
                        st.add("C07.accepted_equal", 1);
                        None
                    } else {
                        Some(("truncation_accepted_as_other_value", format!("prefix of {} bytes loaded as {:?}", cut, l.vals.first().map(|v| v.short()))))
                    }
                }
            };
            if let Some((oracle, msg)) = bad {
                out.push(viol(
                    &["C07"],
                    oracle,
                    &[("container", format!("{:?}", c)), ("api", "memory".into()), ("type_features", e.ty.feature_string())],
                    format!("{} {:?} cut at {}/{}: {}", e.ty.describe(), c, cut, bytes.len(), msg),
                    json!({"kind": "trunc", "family": e.family, "rust_type": e.ty.rust(), "type": e.ty.describe(), "version": ver, "container": format!("{:?}", c),
                        "cut": cut, "len": bytes.len(), "value": to_json(val), "message": msg}),
                ));
            }
        }
    }
}

fn file_vals(fc: &FileCase) -> Vec<Val> {
    let vals = vmodel::values::values(&fc.ty, 12);
    let mut picks = vec![vals[0].clone(), vals[vals.len() - 1].clone()];
    picks.dedup();
    picks
}

pub fn trunc_file_case(fc: &FileCase, thorough: bool, out: &mut Vec<Finding>, st: &mut Stats, d: &mut Driver) {
    let scratch = Scratch::new("c07");
    for val in file_vals(fc) {
        let want = canon(&fc.ty, &val);
        for kind in FILE_KINDS {
            if !begin(d, "trunc_file", fc.name, &format!("{:?}", kind), &val) {
                continue;
            }
            let full = scratch.path().join("full.bin");
            if (fc.save)(kind, &full, &val, PASSWORD).is_err() {
                continue;
            }
            let bytes = std::fs::read(&full).unwrap_or_default();
            st.add("C07.files", 1);
            for cut in cut_offsets(bytes.len(), thorough) {
                st.add("C07.cuts", 1);
                st.add("transitions", 1);
                let pth = scratch.path().join("cut.bin");
                std::fs::write(&pth, &bytes[..cut]).unwrap();
                let res = (fc.load)(kind, &pth, PASSWORD);
                let bad = match &res {
                    Err(OpErr::Panic(m)) => Some(("truncation_panic", format!("panic: {}", m))),
                    Err(_) => {
                        st.add("C07.rejected", 1);
                        None
                    }
                    Ok(v) if canon(&fc.ty, v) == want => {
                        st.add("C07.accepted_equal", 1);
                        None
                    }
                    Ok(v) => Some(("truncation_accepted_as_other_value", format!("prefix of {} bytes loaded as {}", cut, v.short()))),
                };
                if let Some((oracle, msg)) = bad {
                    out.push(viol(
                        &["C07"],
                        oracle,
                        &[("container", format!("{:?}", kind)), ("api", "file".into()), ("cut_below_12", (cut < 12).to_string())],
                        format!("file API {} {:?} cut at {}/{}: {}", fc.name, kind, cut, bytes.len(), msg),
                        json!({"kind": "trunc_file", "file_case": fc.name, "container": format!("{:?}", kind), "cut": cut, "len": bytes.len(), "value": to_json(&val), "message": msg}),
                    ));
                }
            }
        }
    }
}

// =============================================================================== C14

fn crypt_fail(out: &mut Vec<Finding>, oracle: &str, api: &str, what: &str, mutation: String, file: &[u8], msg: String, extra: Value) {
    out.push(viol(
        &["C14"],
        oracle,
        &[("api", api.to_string()), ("mutation", mutation.split(' ').next().unwrap_or("").to_string()), ("file_shorter_than_12", (file.len() < 12).to_string())],
        format!("{} ({}) {}: {}", what, api, mutation, msg),
        json!({"kind": "crypt", "api": api, "what": what, "mutation": mutation, "file": hex(file), "message": msg, "extra": extra}),
    ));
}

/// positions whose every replacement value is tried on big files
fn structural_positions(len: usize) -> Vec<usize> {
    let mut v: Vec<usize> = (0..12.min(len)).collect();
    let mut b = 12usize;
    while b + 8 <= len {
        v.extend(b..b + 8); // chunk length field
        let n = 100_016usize.min(len - b - 8);
        v.extend(b + 8..(b + 8 + 32).min(len)); // first ciphertext bytes
        let end = b + 8 + n;
        v.extend(end.saturating_sub(32)..end.min(len)); // last ciphertext bytes + tag
        b = end;
    }
    v.sort();
    v.dedup();
    v
}

pub fn crypt_memory_case(e: &Entry, val: &Val, big: bool, thorough: bool, out: &mut Vec<Finding>, st: &mut Stats, d: &mut Driver) {
    if !begin(d, "crypt", &e.ty.rust(), "Encrypted", val) {
        return;
    }
    let ver = e.ty.max_version();
    let mut bytes = vec![];
    if e.ops.save(Container::Encrypted, ver, Ctx::Single, std::slice::from_ref(val), &mut bytes).is_err() {
        return;
    }
    let what = format!("{} ({} bytes)", e.ty.describe(), bytes.len());
    // intact file must load
    let mut r = CountR { data: &bytes, pos: 0 };
    match e.ops.load(Container::Encrypted, ver, Ctx::Single, &mut r) {
        Ok(l) if l.vals.first().map(|v| canon(&e.ty, v)) == Some(canon(&e.ty, val)) => {}
        other => {
            crypt_fail(out, "intact_file_rejected", "memory", &what, "none".into(), &bytes, format!("{:?}", other.err().map(|e| op_msg(&e))), Value::Null);
            return;
        }
    }
    st.add("C14.files", 1);
    let mut try_load = |m: &[u8], mutation: String, out: &mut Vec<Finding>, st: &mut Stats| {
        st.add("C14.mutations", 1);
        st.add("transitions", 1);
        let mut r = CountR { data: m, pos: 0 };
        match e.ops.load(Container::Encrypted, ver, Ctx::Single, &mut r) {
            Err(OpErr::Panic(p)) => crypt_fail(out, "tamper_panic", "memory", &what, mutation, m, format!("panic: {}", p), json!({"family": e.family, "rust_type": e.ty.rust(), "value": to_json(val)})),
            Err(_) => st.add("C14.rejected", 1),
            Ok(l) => crypt_fail(
                out,
                "tampered_file_accepted",
                "memory",
                &what,
                mutation,
                m,
                format!("loaded {:?}", l.vals.first().map(|v| v.short())),
                json!({"family": e.family, "rust_type": e.ty.rust(), "value": to_json(val)}),
            ),
        }
    };
    let all_values = !big;
    let structural = structural_positions(bytes.len());
    let stride = if thorough { 1 } else { 4001 };
    for pos in 0..bytes.len() {
        let full = all_values || structural.binary_search(&pos).is_ok();
        if !full && pos % stride != 0 {
            continue;
        }
        let mut m = bytes.clone();
        if full {
            for b in 0..=255u8 {
                if b == bytes[pos] {
                    continue;
                }
                // multi-block files in the quick tier: 4 replacement values per structural byte
                if big && !thorough && ![bytes[pos] ^ 1, bytes[pos] ^ 0x80, 0, 0xff].contains(&b) {
                    continue;
                }
                m[pos] = b;
                try_load(&m, format!("byte {}:={:#04x}", pos, b), out, st);
            }
        } else {
            m[pos] ^= 1;
            try_load(&m, format!("byte {}^=1", pos), out, st);
        }
    }
    for cut in cut_offsets(bytes.len(), thorough) {
        try_load(&bytes[..cut], format!("truncate {}", cut), out, st);
    }
}

pub fn password_neighbourhood(pw: &str) -> Vec<String> {
    let alphabet: Vec<char> = "abcdefghijklmnopqrstuvwxyz0123456789 -_!".chars().collect();
    let chars: Vec<char> = pw.chars().collect();
    let mut out = vec![String::new(), pw.to_uppercase(), format!("{} ", pw), format!(" {}", pw), "x".repeat(1024), format!("{}\0", pw)];
    // white space and control characters around the password (what a prompt or key file adds)
    for ws in ["\n", "\r", "\r\n", "\t", "\u{b}", "\u{c}", "\u{a0}", "\u{feff}", "\n\n"] {
        out.push(format!("{}{}", pw, ws));
        out.push(format!("{}{}", ws, pw));
    }
    for i in 0..chars.len() {
        // deletion
        let mut c = chars.clone();
        c.remove(i);
        out.push(c.iter().collect());
        // case flip
        let mut c = chars.clone();
        c[i] = if c[i].is_lowercase() { c[i].to_ascii_uppercase() } else { c[i].to_ascii_lowercase() };
        out.push(c.iter().collect());
        // prefixes
        out.push(chars[..i].iter().collect());
        for a in &alphabet {
            let mut c = chars.clone();
            c[i] = *a;
            out.push(c.iter().collect());
        }
    }
    for i in 0..=chars.len() {
        for a in &alphabet {
            let mut c = chars.clone();
            c.insert(i, *a);
            out.push(c.iter().collect());
        }
    }
    out.sort();
    out.dedup();
    out.retain(|p| p != pw);
    out
}

pub fn crypt_file_case(fc: &FileCase, thorough: bool, out: &mut Vec<Finding>, st: &mut Stats, d: &mut Driver) {
    let scratch = Scratch::new("c14");
    for val in file_vals(fc) {
        if !begin(d, "crypt_file", fc.name, "Encrypted", &val) {
            continue;
        }
        let full = scratch.path().join("full.bin");
        if (fc.save)(FileKind::Encrypted, &full, &val, PASSWORD).is_err() {
            continue;
        }
        let bytes = std::fs::read(&full).unwrap_or_default();
        let what = format!("{} ({} bytes)", fc.name, bytes.len());
        match (fc.load)(FileKind::Encrypted, &full, PASSWORD) {
            Ok(v) if canon(&fc.ty, &v) == canon(&fc.ty, &val) => {}
            other => {
                crypt_fail(out, "intact_file_rejected", "file", &what, "none".into(), &bytes, format!("{:?}", other.map(|v| v.short())), Value::Null);
                continue;
            }
        }
        st.add("C14.files", 1);
        let pth = scratch.path().join("m.bin");
        let mut try_file = |m: &[u8], pw: &str, mutation: String, out: &mut Vec<Finding>, st: &mut Stats| {
            st.add("C14.mutations", 1);
            st.add("transitions", 1);
            std::fs::write(&pth, m).unwrap();
            match (fc.load)(FileKind::Encrypted, &pth, pw) {
                Err(OpErr::Panic(p)) => crypt_fail(out, "tamper_panic", "file", &what, mutation, m, format!("panic: {}", p), json!({"file_case": fc.name, "password": pw})),
                Err(_) => st.add("C14.rejected", 1),
                Ok(v) => crypt_fail(out, "tampered_file_accepted", "file", &what, mutation, m, format!("loaded {}", v.short()), json!({"file_case": fc.name, "password": pw})),
            }
        };
        // every byte x a few values (all values through the memory API), every truncation
        let vals: Vec<u8> = if thorough { (1..=255u8).collect() } else { vec![1, 0x80, 0xff] };
        for pos in 0..bytes.len() {
            for x in &vals {
                let mut m = bytes.clone();
                m[pos] ^= *x;
                try_file(&m, PASSWORD, format!("byte {}^={:#04x}", pos, x), out, st);
            }
        }
        for cut in 0..bytes.len() {
            try_file(&bytes[..cut], PASSWORD, format!("truncate {}", cut), out, st);
        }
        for pw in password_neighbourhood(PASSWORD) {
            st.add("C14.passwords", 1);
            try_file(&bytes, &pw, format!("password {:?}", if pw.len() > 40 { "<1kB>" } else { &pw }), out, st);
        }
    }
}

// =============================================================================== C08

struct IoCase<'a> {
    e: &'a Entry,
    val: &'a Val,
    /// version of the program (and, for writes, of the data)
    ver: u32,
    /// version of the data that is read (an older file read by the newest program when < ver)
    file_ver: u32,
    c: Container,
    /// the (older) definition that wrote the file, when it is not `e` itself
    writer: Option<&'a Entry>,
}
impl IoCase<'_> {
    /// what the loader is told: headered containers carry the file version themselves
    fn load_ver(&self) -> u32 {
        if self.c == Container::Bare {
            self.file_ver
        } else {
            self.ver
        }
    }
}

fn io_fail(out: &mut Vec<Finding>, oracle: &str, ic: &IoCase, side: &str, plan: &Plan, msg: String) {
    let devs: Vec<String> = plan.devs.iter().map(|(i, d)| format!("{}@{}", format!("{:?}", d), i)).collect();
    let kinds: Vec<String> = plan.devs.iter().map(|(_, d)| format!("{:?}", d)).collect();
    out.push(viol(
        &["C08"],
        oracle,
        &[("container", format!("{:?}", ic.c)), ("side", side.to_string()), ("deviations", kinds.join(",")), ("type_features", ic.e.ty.feature_string())],
        format!("{} {:?} {} plan[{}]{} chunks{:?}: {}", ic.e.ty.describe(), ic.c, side, devs.join(" "), if plan.sticky || plan.devs.is_empty() { "" } else { " (transient)" }, plan.chunks, msg),
        json!({"kind": "io", "family": ic.e.family, "rust_type": ic.e.ty.rust(), "type": ic.e.ty.describe(), "version": ic.ver, "file_version": ic.file_ver, "writer_type": ic.writer.map(|w| w.ty.rust()), "container": format!("{:?}", ic.c), "side": side,
            "devs": plan.devs.iter().map(|(i, d)| json!([i, format!("{:?}", d)])).collect::<Vec<_>>(), "chunks": plan.chunks, "sticky": plan.sticky, "value": to_json(ic.val), "message": msg}),
    ));
}

fn plaintext(c: Container, bytes: &[u8]) -> Option<Vec<u8>> {
    if c == Container::Encrypted {
        crate::sweep::decrypt(bytes, &vglue::ops::key_of(PASSWORD)).ok()
    } else {
        Some(bytes.to_vec())
    }
}

fn run_write(ic: &IoCase, plan: Plan, reference: &[u8], out: &mut Vec<Finding>, st: &mut Stats) {
    let budget = 10 * reference.len() + 1000;
    let mut w = FaultW::new(plan.clone(), budget);
    // an operation that never comes back (and makes no calls the budget could count) ends the child
    // with SIGALRM; the parent reports the recorded state as a hang
    vcommon::child::arm(180);
    let res = ic.e.ops.save(ic.c, ic.ver, Ctx::Single, std::slice::from_ref(ic.val), &mut w);
    vcommon::child::arm(0);
    st.add("C08.executions", 1);
    st.add("transitions", 1);
    if w.fired > 0 || !plan.chunks.is_empty() {
        st.add("C08.deviation_fired", 1);
    }
    if w.hung {
        io_fail(out, "hang", ic, "write", &plan, format!("more than {} calls on the writer", budget));
        return;
    }
    if let Err(OpErr::Panic(m)) = &res {
        io_fail(out, "io_fault_panic", ic, "write", &plan, format!("panic: {}", m));
        return;
    }
    // judge by what was actually DELIVERED to the operation (a planned deviation at a call index
    // the operation never reaches did not happen)
    let delivered_hard = w.delivered.iter().any(|d| !d.benign());
    if delivered_hard {
        // Ok(0) is "nothing accepted this time": retrying it is legitimate as long as the complete,
        // identical output is produced in the end
        let only_zero = w.delivered.iter().all(|d| d.benign() || *d == Dev::Zero);
        let complete = if ic.c == Container::Encrypted { plaintext(ic.c, &w.accepted) == plaintext(ic.c, reference) } else { w.accepted == reference };
        if res.is_ok() && !(only_zero && complete) {
            io_fail(out, "write_failure_reported_as_success", ic, "write", &plan, "the writer failed but save returned Ok".into());
        }
        // (a transient error leaves a hole when destructors keep writing: only judged for persistent ones)
        if plan.sticky && ic.c != Container::Encrypted && !reference.starts_with(&w.accepted) {
            io_fail(out, "accepted_bytes_not_a_prefix", ic, "write", &plan, format!("accepted {} is not a prefix of {}", hex(&w.accepted), hex(reference)));
        }
    } else {
        // only benign deviations / chunking: identical result
        match res {
            Err(e) => io_fail(out, "benign_write_deviation_failed", ic, "write", &plan, op_msg(&e)),
            Ok(()) => {
                let same = if ic.c == Container::Encrypted { plaintext(ic.c, &w.accepted) == plaintext(ic.c, reference) } else { w.accepted == reference };
                if !same {
                    io_fail(out, "bytes_depend_on_write_chunking", ic, "write", &plan, format!("got {} expected {}", hex(&w.accepted), hex(reference)));
                }
            }
        }
    }
}

fn run_read(ic: &IoCase, plan: Plan, file: &[u8], out: &mut Vec<Finding>, st: &mut Stats) {
    let want = canon(&ic.e.ty, ic.val);
    run_read_want(ic, plan, file, &want, out, st)
}
/// `want`: the value a fault-free read of `file` yields
fn run_read_want(ic: &IoCase, plan: Plan, file: &[u8], want: &Val, out: &mut Vec<Finding>, st: &mut Stats) {
    let want = want.clone();
    let budget = 10 * file.len() + 1000;
    let mut r = FaultR::new(file, plan.clone(), budget);
    vcommon::child::arm(180);
    let res = ic.e.ops.load(ic.c, ic.load_ver(), Ctx::Single, &mut r);
    vcommon::child::arm(0);
    st.add("C08.executions", 1);
    st.add("transitions", 1);
    if r.fired > 0 || !plan.chunks.is_empty() {
        st.add("C08.deviation_fired", 1);
    }
    if r.hung {
        io_fail(out, "hang", ic, "read", &plan, format!("more than {} calls on the reader", budget));
        return;
    }
    if let Err(OpErr::Panic(m)) = &res {
        io_fail(out, "io_fault_panic", ic, "read", &plan, format!("panic: {}", m));
        return;
    }
    let fired_hard = r.delivered.iter().any(|d| !d.benign());
    let got = res.as_ref().ok().and_then(|l| l.vals.first().map(|v| canon(&ic.e.ty, v)));
    if fired_hard {
        let zero_only = r.delivered.iter().all(|d| d.benign() || *d == Dev::Zero);
        match &res {
            Ok(_) if got == Some(want.clone()) && zero_only => {} // premature EOF after everything needed was read
            Ok(_) if got == Some(want.clone()) => io_fail(out, "read_failure_reported_as_success", ic, "read", &plan, "the reader failed but load returned the value".into()),
            Ok(_) => io_fail(out, "read_fault_changed_value", ic, "read", &plan, format!("loaded {:?}", got.map(|v| v.short()))),
            Err(_) => {}
        }
    } else {
        match &res {
            Err(e) => io_fail(out, "benign_read_deviation_failed", ic, "read", &plan, op_msg(e)),
            Ok(_) if got != Some(want) => io_fail(out, "value_depends_on_read_chunking", ic, "read", &plan, format!("loaded {:?}", got.map(|v| v.short()))),
            Ok(_) => {}
        }
    }
}

pub fn io_case(e: &Entry, val: &Val, thorough: bool, out: &mut Vec<Finding>, st: &mut Stats, d: &mut Driver) {
    let ver = e.ty.max_version();
    for c in CONTAINERS {
        if !begin(d, "io", &e.ty.rust(), &format!("{:?}", c), val) {
            continue;
        }
        let ic = IoCase { e, val, ver, file_ver: ver, c, writer: None };
        // fault-free reference
        let mut w0 = FaultW::new(Plan::default(), usize::MAX);
        if e.ops.save(c, ver, Ctx::Single, std::slice::from_ref(val), &mut w0).is_err() {
            continue;
        }
        let reference = w0.accepted.clone();
        let nw = w0.calls;
        let mut r0 = FaultR::new(&reference, Plan::default(), usize::MAX);
        if e.ops.load(c, ver, Ctx::Single, &mut r0).is_err() {
            continue;
        }
        let nr = r0.calls;
        st.add("C08.cases", 1);
        // a buffering layer between the library and the sink (what save_file* do with BufWriter):
        // when save returns Ok, everything must have reached the sink, because whoever drops
        // the buffer afterwards cannot report a failure any more
        {
            let mut sink = FaultW::new(Plan::default(), usize::MAX);
            let res;
            let at_return;
            {
                let mut bw = std::io::BufWriter::with_capacity(1 << 16, &mut sink);
                res = e.ops.save(c, ver, Ctx::Single, std::slice::from_ref(val), &mut bw);
                at_return = bw.buffer().len();
                std::mem::forget(bw); // judge what had arrived when save returned
            }
            st.add("C08.executions", 1);
            st.add("C08.deviation_fired", 1);
            st.add("transitions", 1);
            let complete = if c == Container::Encrypted { sink.accepted.len() == reference.len() } else { sink.accepted == reference };
            if res.is_ok() && (!complete || at_return != 0) {
                io_fail(
                    out,
                    "output_left_in_buffer_after_successful_save",
                    &ic,
                    "write",
                    &Plan::default(),
                    format!("save returned Ok but {} bytes were still buffered above the sink ({} of {} bytes delivered)", at_return, sink.accepted.len(), reference.len()),
                );
            }
        }
        // chunk schedules
        for chunks in [vec![1], vec![2], vec![3], vec![7], vec![64], vec![1, 2, 3, 7, 64]] {
            run_write(&ic, Plan { devs: vec![], chunks: chunks.clone(), sticky: true }, &reference, out, st);
            run_read(&ic, Plan { devs: vec![], chunks, sticky: true }, &reference, out, st);
        }
        // one deviation at every call index
        for i in 0..nw + 2 {
            for dv in Dev::ALL {
                run_write(&ic, Plan { devs: vec![(i, dv)], chunks: vec![], sticky: true }, &reference, out, st);
            }
        }
        for i in 0..nr + 2 {
            for dv in Dev::ALL {
                run_read(&ic, Plan { devs: vec![(i, dv)], chunks: vec![], sticky: true }, &reference, out, st);
            }
        }
        // transient hard errors: exactly one call fails, the stream works again afterwards (an
        // error that is swallowed somewhere is then not re-discovered by the next call)
        for dv in Dev::ALL.into_iter().filter(|d| !d.benign() && *d != Dev::Zero) {
            for i in 0..nw + 1 {
                run_write(&ic, Plan { devs: vec![(i, dv)], chunks: vec![], sticky: false }, &reference, out, st);
            }
            for i in 0..nr + 1 {
                run_read(&ic, Plan { devs: vec![(i, dv)], chunks: vec![], sticky: false }, &reference, out, st);
            }
        }
        // files of every OLDER data version read by the newest program (removed fields are skipped,
        // added ones defaulted, converted ones converted): one read deviation at every call index;
        // the expected value is what the fault-free read of that file yields
        for k in 0..ver {
            let mut wk = FaultW::new(Plan::default(), usize::MAX);
            if e.ops.save(c, k, Ctx::Single, std::slice::from_ref(val), &mut wk).is_err() {
                continue; // value not representable at version k
            }
            let old_file = wk.accepted.clone();
            let ick = IoCase { e, val, ver, file_ver: k, c, writer: None };
            let mut rk = FaultR::new(&old_file, Plan::default(), usize::MAX);
            let Ok(l) = e.ops.load(c, ick.load_ver(), Ctx::Single, &mut rk) else { continue };
            let Some(first) = l.vals.first() else { continue };
            let want_k = canon(&e.ty, first);
            st.add("C08.old_version_files", 1);
            for i in 0..rk.calls + 2 {
                for dv in Dev::ALL {
                    run_read_want(&ick, Plan { devs: vec![(i, dv)], chunks: vec![], sticky: true }, &old_file, &want_k, out, st);
                }
            }
            for dv in Dev::ALL.into_iter().filter(|d| !d.benign() && *d != Dev::Zero) {
                for i in 0..rk.calls + 1 {
                    run_read_want(&ick, Plan { devs: vec![(i, dv)], chunks: vec![], sticky: false }, &old_file, &want_k, out, st);
                }
            }
            for chunks in [vec![1], vec![3]] {
                run_read_want(&ick, Plan { devs: vec![], chunks, sticky: true }, &old_file, &want_k, out, st);
            }
        }
        if thorough {
            // two deviations (every ordered pair of call indices, every pair of kinds); big
            // operations are bounded to the first 40 calls of the second deviation
            for i in 0..nw + 1 {
                for j in i + 1..(nw + 2).min(i + 41) {
                    for d1 in Dev::ALL {
                        for d2 in Dev::ALL {
                            run_write(&ic, Plan { devs: vec![(i, d1), (j, d2)], chunks: vec![], sticky: true }, &reference, out, st);
                        }
                    }
                }
            }
            for i in 0..nr + 1 {
                for j in i + 1..(nr + 2).min(i + 41) {
                    for d1 in Dev::ALL {
                        for d2 in Dev::ALL {
                            run_read(&ic, Plan { devs: vec![(i, d1), (j, d2)], chunks: vec![], sticky: true }, &reference, out, st);
                        }
                    }
                }
            }
        }
    }
}

/// (newest definition, older definition that wrote the file, value of the older definition)
pub struct HistPair<'a> {
    node: &'a Entry,
    anc: &'a Entry,
    a_ver: u32,
    n_ver: u32,
    val: Val,
}
/// pairs of the history family for C08: every definition whose last edit removed a field (the
/// skipped bytes of a removed field are read and thrown away) against its parent and its root,
/// and a spread selection of the others
pub fn c08_hist_pairs<'a>(entries: &'a [Entry], thorough: bool) -> Vec<HistPair<'a>> {
    let nodes = vmodel::hist::hist_tree(false);
    let by: std::collections::HashMap<String, &Entry> = entries.iter().filter(|e| e.family == "hist").map(|e| (e.ty.rust(), e)).collect();
    let mut out = vec![];
    for (i, n) in nodes.iter().enumerate() {
        let Some(par) = n.parent else { continue };
        let is_remove = matches!(n.edit, Some(vmodel::hist::Edit::Remove { .. }));
        if !(is_remove || i % if thorough { 2 } else { 6 } == 0) {
            continue;
        }
        let path = vmodel::hist::path_to(&nodes, i);
        let mut ancs = vec![par, path[0]];
        ancs.dedup();
        for a in ancs {
            let (Some(ne), Some(ae)) = (by.get(&n.ty.rust()), by.get(&nodes[a].ty.rust())) else { continue };
            let vals = vmodel::values::values(&nodes[a].ty, 8);
            let Some(v) = vals.last() else { continue };
            out.push(HistPair { node: ne, anc: ae, a_ver: nodes[a].depth, n_ver: n.depth, val: v.clone() });
        }
    }
    out
}

/// a file written by an older definition, read by the newest one under read faults: one
/// persistent deviation of every kind and one transient hard error at every call index
pub fn io_hist_case(p: &HistPair, out: &mut Vec<Finding>, st: &mut Stats, d: &mut Driver) {
    for c in CONTAINERS.into_iter().chain([Container::Bare]) {
        if !begin(d, "io_hist", &p.node.ty.rust(), &format!("{:?}", c), &p.val) {
            continue;
        }
        let mut wk = FaultW::new(Plan::default(), usize::MAX);
        if p.anc.ops.save(c, p.a_ver, Ctx::Single, std::slice::from_ref(&p.val), &mut wk).is_err() {
            continue;
        }
        let old_file = wk.accepted.clone();
        let ick = IoCase { e: p.node, val: &p.val, ver: p.n_ver, file_ver: p.a_ver, c, writer: Some(p.anc) };
        let mut rk = FaultR::new(&old_file, Plan::default(), usize::MAX);
        let Ok(l) = p.node.ops.load(c, ick.load_ver(), Ctx::Single, &mut rk) else { continue };
        let Some(first) = l.vals.first() else { continue };
        let want = canon(&p.node.ty, first);
        st.add("C08.old_version_files", 1);
        st.add("C08.cases", 1);
        for i in 0..rk.calls + 2 {
            for dv in Dev::ALL {
                run_read_want(&ick, Plan { devs: vec![(i, dv)], chunks: vec![], sticky: true }, &old_file, &want, out, st);
            }
        }
        for dv in Dev::ALL.into_iter().filter(|d| !d.benign() && *d != Dev::Zero) {
            for i in 0..rk.calls + 1 {
                run_read_want(&ick, Plan { devs: vec![(i, dv)], chunks: vec![], sticky: false }, &old_file, &want, out, st);
            }
        }
        for chunks in [vec![1], vec![3]] {
            run_read_want(&ick, Plan { devs: vec![], chunks, sticky: true }, &old_file, &want, out, st);
        }
    }
}

/// the file-based save functions against a device that accepts nothing (/dev/full): every write
/// that reaches the OS fails with ENOSPC; buffered layers only notice when they are flushed
pub fn dev_full_case(fc: &FileCase, out: &mut Vec<Finding>, st: &mut Stats, d: &mut Driver) {
    if !std::path::Path::new("/dev/full").exists() {
        return;
    }
    let mut vals = file_vals(fc);
    // one value larger than any buffering layer
    if fc.name == "Vec<u8>" {
        vals.push(Val::Seq(noise(20_000).into_iter().map(|b| Val::U(b as u128)).collect()));
    }
    for val in vals {
        for kind in FILE_KINDS {
            if !begin(d, "dev_full", fc.name, &format!("{:?}", kind), &val) {
                continue;
            }
            st.add("C08.executions", 1);
            st.add("C08.deviation_fired", 1);
            st.add("C08.dev_full_saves", 1);
            st.add("transitions", 1);
            let res = (fc.save)(kind, std::path::Path::new("/dev/full"), &val, PASSWORD);
            let bad = match res {
                Ok(()) => Some(("write_failure_reported_as_success", "saving to /dev/full (every write fails with ENOSPC) returned Ok".to_string())),
                Err(OpErr::Panic(m)) => Some(("io_fault_panic", format!("panic: {}", m))),
                Err(_) => None,
            };
            if let Some((oracle, msg)) = bad {
                out.push(viol(
                    &["C08"],
                    oracle,
                    &[("container", format!("{:?}", kind)), ("side", "write".into()), ("api", "file".into()), ("deviations", "ENOSPC".into())],
                    format!("file API {} {:?} -> /dev/full: {}", fc.name, kind, msg),
                    json!({"kind": "dev_full", "file_case": fc.name, "container": format!("{:?}", kind), "value": if matches!(&val, Val::Seq(x) if x.len() > 200) { json!("<20000 noise bytes>") } else { to_json(&val) }, "message": msg}),
                ));
            }
        }
    }
}

// =============================================================================== items

fn big_entry(entries: &[Entry]) -> Option<&Entry> {
    entries.iter().find(|e| e.family == "lib" && e.ty.rust() == "Vec<u8>")
}
/// strings longer than 64 KiB (read through a different code path than short ones)
fn big_strings(thorough: bool) -> Vec<Val> {
    let sizes: &[usize] = if thorough { &[65_535, 65_536, 65_537, 100_000] } else { &[65_537, 100_000] };
    sizes.iter().map(|n| Val::Str("s".repeat(*n))).collect()
}
fn big_vals(thorough: bool) -> Vec<Val> {
    let sizes: &[usize] = if thorough { &[99_999, 100_000, 100_001, 200_000, 200_001] } else { &[200_001] };
    sizes.iter().map(|n| Val::Seq(noise(*n).into_iter().map(|b| Val::U(b as u128)).collect())).collect()
}

/// number of work items for a property
pub fn items(prop: &str, entries: &[Entry], thorough: bool) -> usize {
    match prop {
        "C07" => cases(entries, thorough, 3).len() + file_cases().len() + big_vals(thorough).len() + big_strings(thorough).len(),
        "C08" => c08_cases(entries, thorough).len() + 1 + file_cases().len() + c08_hist_pairs(entries, thorough).len(),
        "C14" => c14_cases(entries, thorough).len() + file_cases().len() + big_vals(thorough).len(),
        _ => 0,
    }
}

/// the (entry, value) cases of C08: an evenly spread selection of `cases`, plus the types with
/// version attributes (their older-version files are read under faults too)
fn c08_cases<'a>(entries: &'a [Entry], thorough: bool) -> Vec<(&'a Entry, Val)> {
    let cs = cases(entries, thorough, 1);
    let n = cs.len().min(if thorough { 120 } else { 40 });
    let step = (cs.len() / n.max(1)).max(1);
    let mut out: Vec<(&Entry, Val)> = (0..n).map(|pos| cs[(pos * step).min(cs.len() - 1)].clone()).collect();
    let mut k = 0;
    for e in entries.iter().filter(|e| e.family == "types" && e.ty.max_version() > 0) {
        k += 1;
        if !thorough && k % 2 == 0 {
            continue;
        }
        if out.iter().any(|(x, _)| x.ty.rust() == e.ty.rust()) {
            continue;
        }
        let vals = vmodel::values::values(&e.ty, 16);
        if let Some(v) = vals.last() {
            out.push((e, v.clone()));
        }
    }
    out
}

fn c14_cases(entries: &[Entry], thorough: bool) -> Vec<(&Entry, Val)> {
    let all = cases(entries, thorough, 1);
    let n = if thorough { 24 } else { 3 };
    let step = (all.len() / n).max(1);
    all.into_iter().step_by(step).take(n).collect()
}

pub fn run_item(prop: &str, entries: &[Entry], thorough: bool, pos: usize, d: &mut Driver, st: &mut Stats) -> Value {
    let mut out = vec![];
    let fcs = file_cases();
    let sample;
    match prop {
        "C07" => {
            let cs = cases(entries, thorough, 3);
            if pos < cs.len() {
                let (e, v) = &cs[pos];
                trunc_case(e, v, e.ty.max_version(), thorough, &mut out, st, d);
                sample = json!({"type": e.ty.describe(), "value": to_json(v), "containers": 4});
            } else if pos < cs.len() + fcs.len() {
                let fc = &fcs[pos - cs.len()];
                trunc_file_case(fc, thorough, &mut out, st, d);
                sample = json!({"file_api_type": fc.name});
            } else if pos < cs.len() + fcs.len() + big_vals(thorough).len() {
                let e = big_entry(entries).unwrap_or_else(|| vcommon::machinery_error("Vec<u8> not in lib family"));
                let v = &big_vals(thorough)[pos - cs.len() - fcs.len()];
                trunc_case(e, v, 0, thorough, &mut out, st, d);
                sample = json!({"type": "Vec<u8> of incompressible bytes", "len": v.fields().len()});
            } else {
                // a long string as the last thing in the file: plain and schema-less containers
                let e = entries.iter().find(|e| e.family == "lib" && e.ty.rust() == "String").unwrap_or_else(|| vcommon::machinery_error("String not in lib family"));
                let v = &big_strings(thorough)[pos - cs.len() - fcs.len() - big_vals(thorough).len()];
                trunc_case_in(e, v, 0, thorough, &[Container::Plain, Container::NoSchema, Container::Bare], &mut out, st, d);
                sample = json!({"type": "String", "len": v.as_str().len()});
            }
        }
        "C08" => {
            let cs = c08_cases(entries, thorough);
            let n = cs.len();
            if pos < n {
                let (e, v) = &cs[pos];
                io_case(e, v, thorough, &mut out, st, d);
                sample = json!({"type": e.ty.describe(), "value": to_json(v)});
            } else if pos > n + fcs.len() {
                let hp = c08_hist_pairs(entries, thorough);
                let p = &hp[pos - n - fcs.len() - 1];
                io_hist_case(p, &mut out, st, d);
                sample = json!({"type": p.node.ty.describe(), "file_written_by": p.anc.ty.describe(), "value": to_json(&p.val)});
            } else if pos > n {
                let fc = &fcs[pos - n - 1];
                dev_full_case(fc, &mut out, st, d);
                sample = json!({"file_api_type": fc.name, "device": "/dev/full"});
            } else {
                // a multi-block payload through the compressed and encrypted containers
                let e = big_entry(entries).unwrap_or_else(|| vcommon::machinery_error("Vec<u8> not in lib family"));
                let v = Val::Seq(noise(100_001).into_iter().map(|b| Val::U(b as u128)).collect());
                io_case(e, &v, false, &mut out, st, d);
                sample = json!({"type": "Vec<u8> of 100001 incompressible bytes"});
            }
        }
        "C14" => {
            let cs = c14_cases(entries, thorough);
            if pos < cs.len() {
                let (e, v) = &cs[pos];
                crypt_memory_case(e, v, false, thorough, &mut out, st, d);
                sample = json!({"type": e.ty.describe(), "value": to_json(v), "api": "memory"});
            } else if pos < cs.len() + fcs.len() {
                let fc = &fcs[pos - cs.len()];
                crypt_file_case(fc, thorough, &mut out, st, d);
                sample = json!({"file_api_type": fc.name, "api": "file"});
            } else {
                let e = big_entry(entries).unwrap_or_else(|| vcommon::machinery_error("Vec<u8> not in lib family"));
                let v = &big_vals(thorough)[pos - cs.len() - fcs.len()];
                crypt_memory_case(e, v, true, thorough, &mut out, st, d);
                sample = json!({"type": "Vec<u8> of incompressible bytes (multi-block)", "len": v.fields().len()});
            }
        }
        _ => unreachable!(),
    }
    for f in out.drain(..) {
        (d.emit)(f);
    }
    sample
}

// =============================================================================== replay

fn dev_of(s: &str) -> Dev {
    Dev::ALL.iter().copied().find(|d| format!("{:?}", d) == s).unwrap_or_else(|| vcommon::machinery_error(&format!("replay: unknown deviation {}", s)))
}

/// re-execute exactly one recorded fault case
pub fn replay_case(entries: &[Entry], case: &Value, out: &mut Vec<Finding>, st: &mut Stats) {
    let find = |name: &str| entries.iter().find(|e| e.ty.rust() == name).unwrap_or_else(|| vcommon::machinery_error(&format!("replay: type {} not found", name)));
    let container = |s: &str| CONTAINERS.iter().copied().chain([Container::Bare]).find(|c| format!("{:?}", c) == s).unwrap_or(Container::Plain);
    let mut emit = |_f: Finding| {};
    let mut d = Driver { pos: 0, skip_through: 0, sno: 0, emit: &mut emit };
    match case["kind"].as_str() {
        Some("io") => {
            let e = find(case["rust_type"].as_str().unwrap_or(""));
            let val = crate::valjson::from_json(&case["value"]);
            let c = container(case["container"].as_str().unwrap_or(""));
            let ver = case["version"].as_u64().unwrap_or(0) as u32;
            let file_ver = case["file_version"].as_u64().map(|x| x as u32).unwrap_or(ver);
            let writer = case["writer_type"].as_str().map(|w| find(w));
            let ic = IoCase { e, val: &val, ver, file_ver, c, writer };
            let plan = Plan {
                devs: case["devs"].as_array().map(|a| a.iter().map(|x| (x[0].as_u64().unwrap() as usize, dev_of(x[1].as_str().unwrap()))).collect()).unwrap_or_default(),
                chunks: case["chunks"].as_array().map(|a| a.iter().map(|x| x.as_u64().unwrap() as usize).collect()).unwrap_or_default(),
                sticky: case["sticky"].as_bool().unwrap_or(true),
            };
            let mut w0 = FaultW::new(Plan::default(), usize::MAX);
            if writer.is_none() {
                e.ops.save(c, ver, Ctx::Single, std::slice::from_ref(&val), &mut w0).unwrap_or_else(|e| vcommon::machinery_error(&format!("replay: fault-free save failed {:?}", e)));
            }
            let reference = w0.accepted.clone();
            println!("fault-free: {} writer calls, {} bytes", w0.calls, reference.len());
            if case["side"].as_str() == Some("write") {
                let mut w = FaultW::new(plan.clone(), 10 * reference.len() + 1000);
                let res = e.ops.save(c, ver, Ctx::Single, std::slice::from_ref(&val), &mut w);
                println!("with plan {:?}: result {:?}, {} calls, {} deviations delivered, accepted {} bytes (complete: {})", plan, res.as_ref().map_err(op_msg), w.calls, w.fired, w.accepted.len(), w.accepted == reference);
                run_write(&ic, plan, &reference, out, st);
            } else if file_ver != ver {
                let mut wk = FaultW::new(Plan::default(), usize::MAX);
                writer.unwrap_or(e).ops.save(c, file_ver, Ctx::Single, std::slice::from_ref(&val), &mut wk).unwrap_or_else(|e| vcommon::machinery_error(&format!("replay: fault-free save at the old version failed {:?}", e)));
                let old_file = wk.accepted.clone();
                let mut rk = FaultR::new(&old_file, Plan::default(), usize::MAX);
                let l = e.ops.load(c, ic.load_ver(), Ctx::Single, &mut rk).unwrap_or_else(|e| vcommon::machinery_error(&format!("replay: fault-free load of the old file failed {:?}", e)));
                let want_k = canon(&e.ty, &l.vals[0]);
                println!("old-version file: {} bytes, fault-free read gives {}", old_file.len(), want_k.short());
                run_read_want(&ic, plan, &old_file, &want_k, out, st);
            } else {
                run_read(&ic, plan, &reference, out, st);
            }
        }
        Some("trunc") => {
            let e = find(case["rust_type"].as_str().unwrap_or(""));
            let val = crate::valjson::from_json(&case["value"]);
            let all = {
                let mut o = vec![];
                trunc_case(e, &val, case["version"].as_u64().unwrap_or(0) as u32, true, &mut o, st, &mut d);
                o
            };
            out.extend(all.into_iter().filter(|f| f.v.case["cut"] == case["cut"] && f.v.case["container"] == case["container"]));
        }
        Some("trunc_file") | Some("crypt") | Some("dev_full") => {
            let fcs = file_cases();
            let name = case["file_case"].as_str().or(case["extra"]["file_case"].as_str()).unwrap_or("");
            if let Some(fc) = fcs.iter().find(|f| f.name == name) {
                let mut o = vec![];
                match case["kind"].as_str() {
                    Some("trunc_file") => trunc_file_case(fc, true, &mut o, st, &mut d),
                    Some("dev_full") => dev_full_case(fc, &mut o, st, &mut d),
                    _ => crypt_file_case(fc, false, &mut o, st, &mut d),
                }
                out.extend(o.into_iter().filter(|f| f.v.case["mutation"] == case["mutation"] && f.v.case["cut"] == case["cut"] && f.v.case["container"] == case["container"]));
            } else if let Some(rt) = case["extra"]["rust_type"].as_str() {
                let e = find(rt);
                let val = crate::valjson::from_json(&case["extra"]["value"]);
                let mut o = vec![];
                crypt_memory_case(e, &val, false, true, &mut o, st, &mut d);
                out.extend(o.into_iter().filter(|f| f.v.case["mutation"] == case["mutation"]));
            } else {
                vcommon::machinery_error("replay: cannot identify the case");
            }
        }
        k => vcommon::machinery_error(&format!("replay: unknown fault case kind {:?}", k)),
    }
}
